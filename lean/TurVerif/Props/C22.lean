/-
C22 — no input makes the library panic, abort or hang.  CLAIMED AS PARTIAL (DESIGN §5.C22).

Theorems (all inputs, no bound) about three M-code models of the front end:
* `TurVerif.Lexer` (src/sql/lexer.rs `next_token` and every scanner): on every input that is the byte string of
  a `&str`, `next_token` returns a token — no out-of-bounds read (`Fault.oob`), no `str` slicing panic
  (`Fault.slice`: range or char boundary), no `usize` underflow, and the comment recursion needs at most one
  frame per byte — and it consumes at least one byte or returns `Eof` at the end of the input; hence
  `tokenize` terminates with at most n+1 tokens.  The hypothesis `WF` is implied by UTF-8 validity and is
  necessary (`lexer_needs_wf_counterexample`).
* `TurVerif.Like` (`like_match_impl`): the greedy single-backtrack matcher terminates on all inputs within the
  stated iteration bound.
* `TurVerif.ArithImpl` (raw `i64` operators of `eval_binary_op`/`eval_unary_op` in the dev profile): they DO
  panic on in-range operands (`arith_panic_counterexample`, each witness reproduced on the real code by the
  harness); the checked specification `Sql.arith` never does, and the raw `+ - *` agree with it exactly
  except that its `overflow` error is a panic.

Everything else of C22 (parser, planner, executor, DDL, transactions, parameters, API sequences) is NOT
modelled: for it the check is search only (harness engine `robust`).
-/
import TurVerif.Lemmas.LexerScanC
import TurVerif.Model.Like
import TurVerif.Model.ArithImpl
import TurVerif.Model.Sql

namespace TurVerif.C22
open TurVerif.Lexer TurVerif.LexerLemmas

/-! ## helper lemmas: dispatch, recursion over comments, token loop -/

theorem dispatch_post {bs : Bytes} (hwf : WF bs) {pos : Nat} (h : pos < bs.size) :
    PostS bs pos (dispatch bs pos) := by
  unfold dispatch
  simp only [rd_lt h]
  by_cases c1 : isIdentStart (B bs pos) = true
  · rw [if_pos c1]; exact PostS_lift (scanIdent_post hwf h c1)
  rw [if_neg c1]
  by_cases c2 : isDigit (B bs pos) = true
  · rw [if_pos c2]; exact PostS_lift (scanNumber_post hwf h c2)
  rw [if_neg c2]
  by_cases c3 : (B bs pos == 39) = true
  · rw [if_pos c3]; exact PostS_lift (scanQuoted_post hwf 39 _ _ h (by simp only [beq_iff_eq] at c3; omega) (by decide))
  rw [if_neg c3]
  by_cases c4 : (B bs pos == 34) = true
  · rw [if_pos c4]; exact PostS_lift (scanQuoted_post hwf 34 _ _ h (by simp only [beq_iff_eq] at c4; omega) (by decide))
  rw [if_neg c4]
  by_cases c5 : (B bs pos == 96) = true
  · rw [if_pos c5]; exact PostS_lift (scanQuoted_post hwf 96 _ _ h (by simp only [beq_iff_eq] at c5; omega) (by decide))
  rw [if_neg c5]
  by_cases c6 : (B bs pos == 36) = true
  · rw [if_pos c6]; exact PostS_lift (scanDollar_post hwf h (by simpa using c6))
  rw [if_neg c6]
  by_cases c7 : (B bs pos == 58) = true
  · rw [if_pos c7]; exact PostS_lift (scanColon_post hwf h (by simp only [beq_iff_eq] at c7; omega))
  rw [if_neg c7]
  by_cases c8 : (B bs pos == 64) = true
  · rw [if_pos c8]; exact PostS_lift (scanAt_post hwf h (by simp only [beq_iff_eq] at c8; omega))
  rw [if_neg c8]
  by_cases c9 : (B bs pos == 63) = true
  · rw [if_pos c9]; exact PostS_lift (scanQuestion_post h)
  rw [if_neg c9]
  by_cases c10 : (B bs pos == 45) = true
  · rw [if_pos c10]; exact scanMinus_post h
  rw [if_neg c10]
  by_cases c11 : (B bs pos == 47) = true
  · rw [if_pos c11]; exact scanSlash_post h
  rw [if_neg c11]
  by_cases c12 : (B bs pos == 38) = true
  · rw [if_pos c12]; exact PostS_lift (scanPair_post _ _ _ h)
  rw [if_neg c12]
  by_cases c13 : (B bs pos == 124) = true
  · rw [if_pos c13]; exact PostS_lift (scanPair_post _ _ _ h)
  rw [if_neg c13]
  by_cases c14 : (B bs pos == 35) = true
  · rw [if_pos c14]; exact PostS_lift (scanHash_post h)
  rw [if_neg c14]
  by_cases c15 : (B bs pos == 61) = true
  · rw [if_pos c15]; exact PostS_lift (scanPair_post _ _ _ h)
  rw [if_neg c15]
  by_cases c16 : (B bs pos == 60) = true
  · rw [if_pos c16]; exact PostS_lift (scanLess_post h)
  rw [if_neg c16]
  by_cases c17 : (B bs pos == 62) = true
  · rw [if_pos c17]; exact PostS_lift (scanGreater_post h)
  rw [if_neg c17]
  by_cases c18 : (B bs pos == 33) = true
  · rw [if_pos c18]; exact PostS_lift (scanPair_post _ _ _ h)
  rw [if_neg c18]
  by_cases c19 : (B bs pos == 46) = true
  · rw [if_pos c19]; exact PostS_lift (scanDot_post hwf h (by simpa using c19))
  rw [if_neg c19]
  cases single (B bs pos) with
  | some name => simp only [adv_lt h]; exact PostS_lift (Post_mk _ (by omega) (by omega))
  | none => simp only [adv_lt h]; exact PostS_lift (Post_mk _ (by omega) (by omega))

/-- what `next_token` guarantees when called at `pos` -/
def TokOk (bs : Bytes) (pos : Nat) (t : Tok) : Prop :=
  pos ≤ t.start ∧ t.start ≤ t.stop ∧ t.stop ≤ bs.size ∧ t.a ≤ t.b ∧ t.b ≤ bs.size ∧
    ((t.kind = .eof ∧ t.stop = bs.size) ∨ pos < t.stop)

theorem nextTok_post {bs : Bytes} (hwf : WF bs) : ∀ d pos, pos ≤ bs.size → bs.size - pos < d →
    ∃ t, nextTok bs d pos = .ok t ∧ TokOk bs pos t := by
  intro d
  induction d with
  | zero => intro pos _ h; omega
  | succ d ih =>
    intro pos0 h0 hd
    unfold nextTok
    obtain ⟨pos, hsw, h1, h2, _, _⟩ := scanWhile_spec bs isWs pos0 h0
    simp only [hsw]
    by_cases hge : pos ≥ bs.size
    · rw [if_pos hge]
      refine ⟨⟨.eof, pos, pos, 0, 0⟩, rfl, h1, Nat.le_refl _, h2, Nat.le_refl _, Nat.zero_le _, ?_⟩
      left; exact ⟨rfl, by show pos = bs.size; omega⟩
    · rw [if_neg hge]
      have hlt : pos < bs.size := by omega
      rcases dispatch_post hwf hlt with ⟨t, hr, hs, hp, hstop, hab, hb⟩ | ⟨p, hr, hp1, hp2⟩
      · simp only [hr]
        exact ⟨t, rfl, by omega, by omega, hstop, hab, hb, Or.inr (by omega)⟩
      · simp only [hr]
        obtain ⟨t, ht, g1, g2, g3, g4, g5, g6⟩ := ih p hp2 (by omega)
        refine ⟨t, ht, by omega, g2, g3, g4, g5, ?_⟩
        rcases g6 with g6 | g6
        · exact Or.inl g6
        · exact Or.inr (by omega)

theorem tokenize_post {bs : Bytes} (hwf : WF bs) : ∀ f pos, pos ≤ bs.size → bs.size - pos < f →
    ∃ ts, tokenize bs f pos = .ok ts ∧ ts.length ≤ bs.size - pos + 1 ∧
      (∃ t, ts.getLast? = some t ∧ t.kind = .eof) ∧ (∀ t ∈ ts, t.stop ≤ bs.size ∧ t.a ≤ t.b ∧ t.b ≤ bs.size) := by
  intro f
  induction f with
  | zero => intro pos _ h; omega
  | succ f ih =>
    intro pos h0 hf
    unfold tokenize
    obtain ⟨t, ht, g1, g2, g3, g4, g5, g6⟩ := nextTok_post hwf (bs.size + 1) pos h0 (by omega)
    have ht' : nextToken bs pos = .ok t := ht
    simp only [ht']
    by_cases he : t.kind = .eof
    · rw [if_pos he]
      refine ⟨[t], rfl, by simp, ⟨t, rfl, he⟩, ?_⟩
      intro t' h'; simp only [List.mem_singleton] at h'; subst h'; exact ⟨g3, g4, g5⟩
    · rw [if_neg he]
      have hp : pos < t.stop := by
        rcases g6 with g6 | g6
        · exact absurd g6.1 he
        · exact g6
      obtain ⟨ts, hts, hl, ⟨tl, htl, hk⟩, hall⟩ := ih t.stop g3 (by omega)
      simp only [hts]
      refine ⟨t :: ts, rfl, by simp only [List.length_cons]; omega, ⟨tl, ?_, hk⟩, ?_⟩
      · cases ts with
        | nil => simp at htl
        | cons x xs => simpa [List.getLast?_cons_cons] using htl
      · intro t' h'
        rcases List.mem_cons.mp h' with h' | h'
        · subst h'; exact ⟨g3, g4, g5⟩
        · exact hall t' h'

/-! ## property theorems -/

/-- `Lexer::next_token` never faults on the bytes of a `&str`: no out-of-bounds index, no `str` slicing panic
(range or char boundary), no `usize` underflow, and the recursion over skipped comments stays within one frame
per remaining byte; the token lies inside the input and so does its payload slice. -/
theorem lexer_no_fault (bs : Bytes) (hwf : WF bs) (pos : Nat) (h : pos ≤ bs.size) :
    ∃ t, nextToken bs pos = .ok t ∧ pos ≤ t.start ∧ t.start ≤ t.stop ∧ t.stop ≤ bs.size ∧
      t.a ≤ t.b ∧ t.b ≤ bs.size := by
  obtain ⟨t, ht, g1, g2, g3, g4, g5, _⟩ := nextTok_post hwf (bs.size + 1) pos h (by omega)
  exact ⟨t, ht, g1, g2, g3, g4, g5⟩

/-- `next_token` consumes at least one byte or returns `Eof` (and then it is at the end of the input) -/
theorem lexer_progress (bs : Bytes) (hwf : WF bs) (pos : Nat) (h : pos ≤ bs.size) :
    ∃ t, nextToken bs pos = .ok t ∧ ((t.kind = .eof ∧ t.stop = bs.size) ∨ pos < t.stop) := by
  obtain ⟨t, ht, _, _, _, _, _, g6⟩ := nextTok_post hwf (bs.size + 1) pos h (by omega)
  exact ⟨t, ht, g6⟩

/-- the token loop terminates: at most n+1 tokens, the last one is `Eof`, every token and payload slice is inside
the input; `Fault.depth` (loop/recursion budget n+1) is never reached -/
theorem tokenize_terminates (bs : Bytes) (hwf : WF bs) :
    ∃ ts, tokenizeAll bs = .ok ts ∧ ts.length ≤ bs.size + 1 ∧ (∃ t, ts.getLast? = some t ∧ t.kind = .eof) ∧
      (∀ t ∈ ts, t.stop ≤ bs.size ∧ t.a ≤ t.b ∧ t.b ≤ bs.size) := by
  obtain ⟨ts, h1, h2, h3, h4⟩ := tokenize_post hwf (bs.size + 1) 0 (Nat.zero_le _) (by omega)
  exact ⟨ts, h1, by omega, h3, h4⟩

/-- ASCII-only inputs are well formed (non-vacuity of `WF`; UTF-8 validity implies `WF` in general: a
continuation byte always follows a lead or continuation byte, both >= 0x80) -/
theorem wf_of_ascii (bs : Bytes) (h : ∀ i, i < bs.size → B bs i < 128) : WF bs := by
  intro i hi h1 _
  have := h i hi
  omega

/-- a multi-byte example: `SELECT 'é'` followed by `-- ü` -/
example : WF #[39, 195, 169, 39, 45, 45, 32, 195, 188] := by
  unfold WF B; decide

/-- `WF` is necessary: on a byte string that is not valid UTF-8 (an ASCII letter followed by a stray
continuation byte) the identifier slice `&input[0..1]` ends inside a "character" — the model reports the slicing
panic.  Such input cannot be passed through `&str`. -/
theorem lexer_needs_wf_counterexample : tokenizeAll #[97, 128] = .error .slice := by
  simp [tokenizeAll, tokenize, nextToken, nextTok, scanWhile, rd, dispatch, scanIdent, isWs, isIdentStart, isAlpha,
    isIdentChar, isDigit, peek, mkS, sliceOk, isBoundary, liftTok]

/-- the recursion `scan_minus` / `scan_block_comment` -> `next_token` costs one frame per consecutive comment
(3 line comments: 4 frames; 2 block comments: 3 frames), so the frame count is bounded only by the input length
(`lexer_no_fault`: at most n+1).  On the real code 100000 consecutive comments overflow the 8 MiB stack
(known finding C22-deep-nesting-stack-overflow, constructs line-comments / block-comments). -/
theorem comment_frames_witness :
    framesAt #[45, 45, 10, 45, 45, 10, 45, 45, 10] 10 0 = 4 ∧ framesAt #[47, 42, 42, 47, 47, 42, 42, 47] 9 0 = 3 := by
  constructor <;>
  simp [framesAt, scanWhile, rd, dispatch, scanMinus, scanSlash, blockLoop, adv, isWs, isIdentStart, isAlpha,
    isDigit, notNl, peek]

/-- `like_match_impl` terminates on every text and pattern within `fuelFor` loop iterations -/
theorem likeGo_some (t p : List Nat) : ∀ fuel ti pi star starTi,
    starTi ≤ ti → ti ≤ t.length → pi ≤ p.length → (∀ sp, star = some sp → sp < p.length) →
    (t.length - starTi) * (t.length + p.length + 2) + (t.length - ti) + (p.length - pi) < fuel →
    Like.likeGo t p fuel ti pi star starTi ≠ none := by
  intro fuel
  induction fuel with
  | zero => intro ti pi star starTi _ _ _ _ h; omega
  | succ f ih =>
    intro ti pi star starTi h1 h2 h3 h4 hm
    unfold Like.likeGo
    by_cases hti : ti < t.length
    · simp only [hti, if_true]
      split
      · rename_i hc
        apply ih
        · omega
        · omega
        · omega
        · exact h4
        · have := hc.1; omega
      · split
        · rename_i _ hc
          apply ih
          · omega
          · omega
          · omega
          · intro sp hsp; cases hsp; exact hc.1
          · have hmono : (t.length - ti) * (t.length + p.length + 2) ≤ (t.length - starTi) * (t.length + p.length + 2) :=
              Nat.mul_le_mul_right _ (by omega)
            have := hc.1
            omega
        · cases star with
          | none => simp
          | some sp =>
            simp only
            apply ih
            · omega
            · omega
            · have := h4 sp rfl; omega
            · exact h4
            · have hlt : starTi < t.length := by omega
              have hsplit : (t.length - starTi) * (t.length + p.length + 2)
                  = (t.length - (starTi + 1)) * (t.length + p.length + 2) + (t.length + p.length + 2) := by
                have : t.length - starTi = (t.length - (starTi + 1)) + 1 := by omega
                rw [this, Nat.add_mul, Nat.one_mul]
              have := h4 sp rfl
              omega
    · simp [hti]

theorem like_terminates (t p : List Nat) : Like.likeImpl t p ≠ none := by
  unfold Like.likeImpl Like.fuelFor
  apply likeGo_some
  · omega
  · omega
  · omega
  · intro sp h; cases h
  · have : (t.length + 2) * (t.length + p.length + 2)
        = t.length * (t.length + p.length + 2) + 2 * (t.length + p.length + 2) := by
      rw [Nat.add_mul]
    simp only [Nat.sub_zero]
    omega

open TurVerif.ArithImpl in
/-- the raw `i64` operators of the engine panic on concrete in-range operands (dev profile): the statement
"integer arithmetic never panics" is FALSE of the faithful model; every witness is reproduced on the real code -/
theorem arith_panic_counterexample :
    binImpl .add 9223372036854775807 1 = .panic msgAdd ∧
    binImpl .sub (-9223372036854775808) 1 = .panic msgSub ∧
    binImpl .mul 4611686018427387904 2 = .panic msgMul ∧
    binImpl .div (-9223372036854775808) (-1) = .panic msgDiv ∧
    binImpl .mod (-9223372036854775808) (-1) = .panic msgRem ∧
    negImpl (-9223372036854775808) = .panic msgNeg ∧
    binImpl .pow 2 63 = .panic msgMul ∧
    binImpl .pow 3037000500 2 = .panic msgMul := by decide

open TurVerif.ArithImpl in
theorem arith_no_panic_is_false :
    ¬ (∀ op a b, inRange a = true → inRange b = true → (binImpl op a b).isPanic = false) := by
  intro h
  have := h .add 9223372036854775807 1 (by decide) (by decide)
  revert this; decide

/-- outcome class of the checked specification: an in-range integer or one of three errors -/
def CheckedOut (r : Except Sql.Err Sql.Val) : Prop :=
  match r with
  | .ok (.int v) => Sql.i64Min ≤ v ∧ v ≤ Sql.i64Max
  | .ok _ => False
  | .error e => e = .overflow ∨ e = .divzero ∨ e = .type

theorem chk_ok (x : Int) : CheckedOut (Sql.chkInt x) := by
  by_cases h : Sql.i64Min ≤ x ∧ x ≤ Sql.i64Max <;> simp [Sql.chkInt, h, CheckedOut]

/-- the checked arithmetic (`Sql.arith`, the specification) is total on integers: an in-range value or an
error value, never a panic outcome and never a wrapped result -/
theorem checked_never_panics (op : Sql.BinOp) (a b : Int) :
    CheckedOut (Sql.arith op (.int a) (.int b)) := by
  cases op
  case add => simpa [Sql.arith] using chk_ok (a + b)
  case sub => simpa [Sql.arith] using chk_ok (a - b)
  case mul => simpa [Sql.arith] using chk_ok (a * b)
  case div =>
    by_cases hb : b = 0
    · simp [Sql.arith, hb, CheckedOut]
    · simpa [Sql.arith, hb] using chk_ok (Int.tdiv a b)
  case mod =>
    by_cases hb : b = 0
    · simp [Sql.arith, hb, CheckedOut]
    · simpa [Sql.arith, hb] using chk_ok (Int.tmod a b)
  all_goals simp [Sql.arith, CheckedOut]

/-- what an outcome of the checked spec means for the raw operator -/
def ofChecked (msg : String) (r : Except Sql.Err Sql.Val) : ArithImpl.Out :=
  match r with
  | .ok (.int v) => .int v
  | .ok _ => .null
  | .error .divzero => .null
  | .error _ => .panic msg

open TurVerif.ArithImpl in
theorem ovf_eq (msg : String) (x : Int) : ovf msg x = ofChecked msg (Sql.chkInt x) := by
  have hb : (inRange x = true) ↔ (Sql.i64Min ≤ x ∧ x ≤ Sql.i64Max) := by
    simp only [inRange, i64Min, i64Max, Sql.i64Min, Sql.i64Max, Bool.and_eq_true]
    constructor
    · intro h; exact ⟨of_decide_eq_true h.1, of_decide_eq_true h.2⟩
    · intro h; exact ⟨decide_eq_true h.1, decide_eq_true h.2⟩
  by_cases h : Sql.i64Min ≤ x ∧ x ≤ Sql.i64Max
  · rw [ovf, if_pos (hb.mpr h), Sql.chkInt, if_pos h]; rfl
  · rw [ovf, if_neg (mt hb.mp h), Sql.chkInt, if_neg h]; rfl

open TurVerif.ArithImpl in
/-- the raw `+ - *` compute exactly the checked specification, with its `overflow` error as a panic: the engine
panics exactly where the specification reports overflow -/
theorem impl_refines_checked (a b : Int) :
    binImpl .add a b = ofChecked msgAdd (Sql.arith .add (.int a) (.int b)) ∧
    binImpl .sub a b = ofChecked msgSub (Sql.arith .sub (.int a) (.int b)) ∧
    binImpl .mul a b = ofChecked msgMul (Sql.arith .mul (.int a) (.int b)) := by
  refine ⟨?_, ?_, ?_⟩ <;> (simp only [binImpl, Sql.arith]; exact ovf_eq _ _)

open TurVerif.ArithImpl in
theorem powLoop_fuel : ∀ (fuel e : Nat) (base acc : Int), 0 < e → e < 2 ^ fuel →
    powLoop fuel e base acc ≠ .panic "fuel" := by
  intro fuel
  induction fuel with
  | zero => intro e _ _ h0 h1; simp at h1; omega
  | succ f ih =>
    intro e base acc h0 h1
    have hdiv : e / 2 < 2 ^ f := by
      apply Nat.div_lt_of_lt_mul
      rw [Nat.pow_succ] at h1; omega
    unfold powLoop
    split
    · simp only []
      split
      · simp [msgMul]
      · split
        · simp
        · split
          · simp [msgMul]
          · exact ih _ _ _ (by omega) hdiv
    · simp only []
      split
      · simp [msgMul]
      · exact ih _ _ _ (by omega) hdiv

open TurVerif.ArithImpl in
/-- the transcription of `i64::pow` needs no more than its 33 iterations (the model's `fuel` outcome is
unreachable): `a.pow(b as u32)` returns a value or panics with the multiplication-overflow message -/
theorem pow_total (a b : Int) : powImpl a b ≠ .panic "fuel" := by
  unfold powImpl
  split
  · simp only []
    split
    · simp
    · apply powLoop_fuel
      · omega
      · have : b.toNat % 4294967296 < 4294967296 := Nat.mod_lt _ (by decide)
        have h2 : (4294967296 : Nat) ≤ 2 ^ 33 := by decide
        omega
  · simp

end TurVerif.C22
