import TurVerif.Model.SqlFn
/-!
C20  Scalar functions, CAST and arithmetic match their definitions.

`TurVerif.SqlFn` is the reference definition (M-spec) of the documented functions over code
points; the theorems below state the laws the property names: NULL strictness, characters (not
bytes), integer overflow is an error (never a wrapped value), division by zero is never a value.
The executor is not modelled: engine `sql_fn` compares `SELECT f(args)` on the real engine with
`SqlFn.apply` on boundary integers, Unicode strings and NULLs in every argument position.
-/
namespace TurVerif.C20
open TurVerif.Sql TurVerif.SqlFn

/-! ### helper lemmas -/
theorem chkInt_ok_iff (i : Int) : chkInt i = .ok (.int i) ↔ (i64Min ≤ i ∧ i ≤ i64Max) := by
  unfold chkInt
  split <;> simp_all

theorem chkInt_err_iff (i : Int) : chkInt i = .error .overflow ↔ ¬ (i64Min ≤ i ∧ i ≤ i64Max) := by
  unfold chkInt
  split <;> simp_all

theorem chkInt_cases (i : Int) : chkInt i = .ok (.int i) ∨ chkInt i = .error .overflow := by
  unfold chkInt
  split <;> simp

theorem utf8OfChar_length (c : Char) : (utf8OfChar c).length = utf8Len c := by
  unfold utf8OfChar utf8Len
  simp only []
  split
  · rfl
  · split
    · rfl
    · split <;> rfl

theorem utf8Len_pos (c : Char) : 1 ≤ utf8Len c := by
  unfold utf8Len
  simp only []
  split
  · omega
  · split
    · omega
    · split <;> omega

/-! ## property theorems -/

/-! ### NULL strictness -/
/-- every strict function returns NULL as soon as one argument is NULL (no error, no value) -/
theorem strict_null (f : Fn) (args : List Val) (hf : f.isStrict = true) (hn : Val.null ∈ args) :
    apply f args = .ok .null := by
  unfold apply
  have : args.any Val.isNull = true := List.any_eq_true.mpr ⟨.null, hn, rfl⟩
  simp [hf, this]

/-- the list of strict functions, spelled out (so the definition of `isStrict` cannot silently
shrink): all string functions except CONCAT_WS, all numeric functions except GREATEST/LEAST, CAST,
and the arithmetic operators -/
theorem strict_list :
    [Fn.charLength, .length, .upper, .lower, .substr, .left, .right, .locate, .instr, .reverse,
     .lpad, .rpad, .trim, .ltrim, .rtrim, .replace, .concat, .repeat_, .ascii, .abs, .sign, .mod,
     .power, .round, .floor, .ceil, .truncate, .castInt, .castText, .castBool, .castFloat,
     .add, .sub, .mul, .div, .rem, .neg, .concatOp].all Fn.isStrict = true := by decide

/-- the non-strict functions handle NULL as documented -/
theorem coalesce_first_non_null (v : Val) (rest : List Val) (hv : v.isNull = false) :
    apply .coalesce (.null :: v :: rest) = .ok v := by
  simp only [apply, Fn.isStrict, Bool.false_and, Bool.false_eq_true, if_false, applyNN]
  simp [List.find?, hv, show Val.null.isNull = true from rfl]

theorem coalesce_all_null (n : Nat) : apply .coalesce (List.replicate n .null) = .ok .null := by
  simp only [apply, Fn.isStrict, Bool.false_and, applyNN]
  induction n with
  | zero => rfl
  | succ k ih => simpa [List.replicate_succ, List.find?, show Val.null.isNull = true from rfl] using ih

theorem ifnull_def (a b : Val) : apply .ifnull [a, b] = .ok (if a.isNull then b else a) := by
  simp [apply, Fn.isStrict, applyNN]

theorem nullif_null_left (b : Val) : apply .nullif [.null, b] = .ok .null := by
  simp [apply, Fn.isStrict, applyNN, Val.isNull]

theorem nullif_null_right (a : Val) : apply .nullif [a, .null] = .ok a := by
  cases a <;> simp [apply, Fn.isStrict, applyNN, Val.isNull]

theorem concat_ws_skips_null (sep a b : String) :
    apply .concatWs [.text sep, .text a, .null, .text b]
      = .ok (mkText (a.toList ++ sep.toList ++ b.toList)) := by
  simp [apply, Fn.isStrict, applyNN, Val.isNull, textOf, intercalateC, List.mapM_cons]

/-! ### characters, not bytes -/
/-- CHAR_LENGTH counts code points -/
theorem length_counts_chars (s : String) :
    apply .charLength [.text s] = .ok (.int s.toList.length) := by
  simp [apply, Fn.isStrict, applyNN, Val.isNull, textOf, charLen]

/-- LENGTH is the documented byte length: the sum of the UTF-8 sizes of the characters -/
theorem byteLen_eq_sum (l : List Char) : byteLen l = (l.map utf8Len).sum := by
  unfold byteLen utf8Bytes
  induction l with
  | nil => rfl
  | cons c cs ih =>
    simp only [List.flatMap_cons, List.length_append, List.map_cons, List.sum_cons]
    rw [utf8OfChar_length]
    simpa using ih

theorem charLen_le_byteLen (l : List Char) : charLen l ≤ byteLen l := by
  rw [byteLen_eq_sum]
  unfold charLen
  induction l with
  | nil => simp
  | cons c cs ih =>
    simp only [List.length_cons, List.map_cons, List.sum_cons]
    have := utf8Len_pos c
    omega

/-- witness: on a 2-byte character the two notions differ -/
theorem length_bytes_vs_chars_witness :
    charLen ['é'] = 1 ∧ byteLen ['é'] = 2 ∧ charLen ['😀'] = 1 ∧ byteLen ['😀'] = 4 ∧
    charLen ['e', Char.ofNat 769] = 2 ∧ byteLen ['e', Char.ofNat 769] = 3 := by decide

/-- SUBSTR slices characters: for a position inside the string and a non-negative length it is
`drop (pos-1)` then `take len` on the code-point list -/
theorem substr_slices_chars (l : List Char) (pos len : Nat) (hp : 1 ≤ pos) :
    substr l (pos : Int) (some (len : Int)) = (l.drop (pos - 1)).take len := by
  unfold substr
  have h0 : ¬ ((pos : Int) = 0) := by omega
  have h1 : (pos : Int) > 0 := by omega
  have h2 : ¬ ((len : Int) < 0) := by omega
  simp only [h0, if_false, h1, if_true, h2]
  have : ((pos : Int) - 1).toNat = pos - 1 := by omega
  rw [this]
  simp

/-- the result of SUBSTR never has more characters than requested and is a contiguous part of
the input -/
theorem substr_length_le (l : List Char) (pos : Int) (len : Nat) :
    (substr l pos (some (len : Int))).length ≤ len := by
  unfold substr
  split
  · simp
  · have h2 : ¬ ((len : Int) < 0) := by omega
    simp only [h2, if_false]
    simp [List.length_take]
    omega

/-- witness with a 2-byte character: character slicing returns 'a'; slicing the UTF-8 bytes at
the same offsets returns the continuation byte 0xA9 of 'é' -/
theorem substr_bytes_vs_chars_witness :
    substr ['é', 'a'] 2 (some 1) = ['a'] ∧
    ((utf8Bytes ['é', 'a']).drop 1).take 1 = [169] ∧
    leftN ['é', 'a'] 1 = ['é'] ∧ (utf8Bytes ['é', 'a']).take 1 = [195] ∧
    locate ['a'] ['é', 'a'] 1 = 2 := by decide

/-- the pinned INSTR (M-code `instrImpl`, byte offsets; shown equal to the real `eval_instr` by the
harness on every generated INSTR case) violates "positions count characters": concrete witness,
known finding C20-instr-byte-position -/
theorem instr_impl_bytes_counterexample :
    instrImpl ['h', 'é', 'l', 'l', 'o'] ['l'] = 4 ∧ instr ['h', 'é', 'l', 'l', 'o'] ['l'] = 3 ∧
    locate ['l'] ['h', 'é', 'l', 'l', 'o'] 1 = 3 := by decide

/-- on ASCII-only haystacks up to the match the two agree (partial statement: pure-ASCII example
family; the general ASCII theorem is not proved here) -/
theorem instr_impl_ascii_partial :
    instrImpl ['a', 'b', 'c', 'a', 'b'] ['c', 'a'] = instr ['a', 'b', 'c', 'a', 'b'] ['c', 'a'] ∧
    instrImpl ['a', 'b'] ['x'] = instr ['a', 'b'] ['x'] ∧ instrImpl [] [] = instr [] [] := by decide

theorem reverse_involutive (l : List Char) : List.reverse (List.reverse l) = l := List.reverse_reverse l

theorem left_right_length (l : List Char) (n : Nat) :
    (leftN l n).length = min n l.length ∧ (rightN l n).length = min n l.length := by
  unfold leftN rightN
  have h : ¬ ((n : Int) < 0) := by omega
  simp only [h, if_false]
  simp [List.length_take, List.length_drop]
  omega

theorem lpad_length (l pad : List Char) (n : Nat) (hp : pad ≠ []) (out : List Char)
    (h : lpad l n pad = some out) : out.length = n := by
  unfold lpad at h
  have h0 : ¬ ((n : Int) < 0) := by omega
  simp only [h0, if_false] at h
  split at h
  · injection h with h; subst h; simp [List.length_take]; omega
  · have : pad.isEmpty = false := by cases pad <;> simp_all
    simp only [this] at h
    injection h with h; subst h
    simp [cycleTake]; omega

theorem rpad_length (l pad : List Char) (n : Nat) (hp : pad ≠ []) (out : List Char)
    (h : rpad l n pad = some out) : out.length = n := by
  unfold rpad at h
  have h0 : ¬ ((n : Int) < 0) := by omega
  simp only [h0, if_false] at h
  split at h
  · injection h with h; subst h; simp [List.length_take]; omega
  · have : pad.isEmpty = false := by cases pad <;> simp_all
    simp only [this] at h
    injection h with h; subst h
    simp [cycleTake]; omega

/-! ### checked integer arithmetic -/
/-- `a + b` / `a - b` / `a * b` on 64-bit integers: the result is the exact result, or the error
`overflow` exactly when the exact result is outside [-2^63, 2^63) — never a wrapped value -/
theorem checked_add_err_iff (a b : Int) :
    apply .add [.int a, .int b] = .error .overflow ↔ ¬ (i64Min ≤ a + b ∧ a + b ≤ i64Max) := by
  simp only [apply, Fn.isStrict, List.any, Val.isNull, Bool.or_false, Bool.and_false,
    Bool.false_eq_true, if_false, applyNN, arith]
  exact chkInt_err_iff _

theorem checked_sub_err_iff (a b : Int) :
    apply .sub [.int a, .int b] = .error .overflow ↔ ¬ (i64Min ≤ a - b ∧ a - b ≤ i64Max) := by
  simp only [apply, Fn.isStrict, List.any, Val.isNull, Bool.or_false, Bool.and_false,
    Bool.false_eq_true, if_false, applyNN, arith]
  exact chkInt_err_iff _

theorem checked_mul_err_iff (a b : Int) :
    apply .mul [.int a, .int b] = .error .overflow ↔ ¬ (i64Min ≤ a * b ∧ a * b ≤ i64Max) := by
  simp only [apply, Fn.isStrict, List.any, Val.isNull, Bool.or_false, Bool.and_false,
    Bool.false_eq_true, if_false, applyNN, arith]
  exact chkInt_err_iff _

theorem checked_div_err_iff (a b : Int) (hb : b ≠ 0) :
    apply .div [.int a, .int b] = .error .overflow ↔
      ¬ (i64Min ≤ Int.tdiv a b ∧ Int.tdiv a b ≤ i64Max) := by
  simp only [apply, Fn.isStrict, List.any, Val.isNull, Bool.or_false, Bool.and_false,
    Bool.false_eq_true, if_false, applyNN, arith, hb]
  exact chkInt_err_iff _

theorem checked_neg_err_iff (a : Int) :
    apply .neg [.int a] = .error .overflow ↔ ¬ (i64Min ≤ -a ∧ -a ≤ i64Max) := by
  simp only [apply, Fn.isStrict, List.any, Val.isNull, Bool.or_false, Bool.and_false,
    Bool.false_eq_true, if_false, applyNN]
  exact chkInt_err_iff _

/-- the exact (unbounded) result of a binary integer operator; `/` truncates toward zero and `%`
has the sign of the dividend (Rust / C / SQL semantics) -/
def exactOp : Fn → Int → Int → Int
  | .add, a, b => a + b
  | .sub, a, b => a - b
  | .mul, a, b => a * b
  | .div, a, b => Int.tdiv a b
  | .rem, a, b => Int.tmod a b
  | _, _, _ => 0

/-- the property's statement in one theorem: a checked operator reports `overflow` exactly when
the exact result does not fit in 64 bits (incl. `MIN / -1`), and otherwise returns the exact
result -/
theorem checked_op_err_iff (f : Fn) (hf : f = .add ∨ f = .sub ∨ f = .mul ∨ f = .div ∨ f = .rem)
    (a b : Int) (hb : (f = .div ∨ f = .rem) → b ≠ 0) :
    (apply f [.int a, .int b] = .error .overflow ↔
      ¬ (i64Min ≤ exactOp f a b ∧ exactOp f a b ≤ i64Max)) ∧
    ((i64Min ≤ exactOp f a b ∧ exactOp f a b ≤ i64Max) →
      apply f [.int a, .int b] = .ok (.int (exactOp f a b))) := by
  rcases hf with rfl | rfl | rfl | rfl | rfl
  · simp only [apply, Fn.isStrict, List.any, Val.isNull, Bool.or_false, Bool.and_false,
      Bool.false_eq_true, if_false, applyNN, arith, exactOp]
    exact ⟨chkInt_err_iff _, (chkInt_ok_iff _).mpr⟩
  · simp only [apply, Fn.isStrict, List.any, Val.isNull, Bool.or_false, Bool.and_false,
      Bool.false_eq_true, if_false, applyNN, arith, exactOp]
    exact ⟨chkInt_err_iff _, (chkInt_ok_iff _).mpr⟩
  · simp only [apply, Fn.isStrict, List.any, Val.isNull, Bool.or_false, Bool.and_false,
      Bool.false_eq_true, if_false, applyNN, arith, exactOp]
    exact ⟨chkInt_err_iff _, (chkInt_ok_iff _).mpr⟩
  · have hb' : b ≠ 0 := hb (Or.inl rfl)
    simp only [apply, Fn.isStrict, List.any, Val.isNull, Bool.or_false, Bool.and_false,
      Bool.false_eq_true, if_false, applyNN, arith, exactOp, hb']
    exact ⟨chkInt_err_iff _, (chkInt_ok_iff _).mpr⟩
  · have hb' : b ≠ 0 := hb (Or.inr rfl)
    simp only [apply, Fn.isStrict, List.any, Val.isNull, Bool.or_false, Bool.and_false,
      Bool.false_eq_true, if_false, applyNN, arith, exactOp, hb']
    exact ⟨chkInt_err_iff _, (chkInt_ok_iff _).mpr⟩

/-- when there is no overflow the result is the exact mathematical result -/
theorem checked_add_exact (a b : Int) (h : i64Min ≤ a + b ∧ a + b ≤ i64Max) :
    apply .add [.int a, .int b] = .ok (.int (a + b)) := by
  simp only [apply, Fn.isStrict, List.any, Val.isNull, Bool.or_false, Bool.and_false,
    Bool.false_eq_true, if_false, applyNN, arith]
  exact (chkInt_ok_iff _).mpr h

theorem checked_mul_exact (a b : Int) (h : i64Min ≤ a * b ∧ a * b ≤ i64Max) :
    apply .mul [.int a, .int b] = .ok (.int (a * b)) := by
  simp only [apply, Fn.isStrict, List.any, Val.isNull, Bool.or_false, Bool.and_false,
    Bool.false_eq_true, if_false, applyNN, arith]
  exact (chkInt_ok_iff _).mpr h

/-- an arithmetic operator on two integers yields an integer, NULL never, or one of the two
errors: nothing else (in particular no wrapped value: by the `_err_iff` theorems the integer is
the exact one) -/
theorem checked_op_total (f : Fn) (hf : f = .add ∨ f = .sub ∨ f = .mul ∨ f = .div ∨ f = .rem)
    (a b : Int) :
    (∃ i, apply f [.int a, .int b] = .ok (.int i) ∧ i64Min ≤ i ∧ i ≤ i64Max) ∨
    apply f [.int a, .int b] = .error .overflow ∨ apply f [.int a, .int b] = .error .divzero := by
  have key : ∀ i : Int, (∃ j, chkInt i = .ok (.int j) ∧ i64Min ≤ j ∧ j ≤ i64Max) ∨
      chkInt i = .error .overflow := by
    intro i
    by_cases h : i64Min ≤ i ∧ i ≤ i64Max
    · exact Or.inl ⟨i, (chkInt_ok_iff i).mpr h, h⟩
    · exact Or.inr ((chkInt_err_iff i).mpr h)
  rcases hf with rfl | rfl | rfl | rfl | rfl <;>
    simp only [apply, Fn.isStrict, List.any, Val.isNull, Bool.or_false, Bool.and_false,
      Bool.false_eq_true, if_false, applyNN, arith]
  · rcases key (a + b) with h | h
    · exact Or.inl h
    · exact Or.inr (Or.inl h)
  · rcases key (a - b) with h | h
    · exact Or.inl h
    · exact Or.inr (Or.inl h)
  · rcases key (a * b) with h | h
    · exact Or.inl h
    · exact Or.inr (Or.inl h)
  · by_cases hb : b = 0
    · simp [hb]
    · simp only [hb, if_false]
      rcases key (Int.tdiv a b) with h | h
      · exact Or.inl h
      · exact Or.inr (Or.inl h)
  · by_cases hb : b = 0
    · simp [hb]
    · simp only [hb, if_false]
      rcases key (Int.tmod a b) with h | h
      · exact Or.inl h
      · exact Or.inr (Or.inl h)

/-- the boundary cases named in the property -/
theorem overflow_boundaries :
    apply .add [.int i64Max, .int 1] = .error .overflow ∧
    apply .sub [.int i64Min, .int 1] = .error .overflow ∧
    apply .mul [.int i64Max, .int 2] = .error .overflow ∧
    apply .mul [.int i64Min, .int (-1)] = .error .overflow ∧
    apply .div [.int i64Min, .int (-1)] = .error .overflow ∧
    apply .neg [.int i64Min] = .error .overflow ∧
    apply .abs [.int i64Min] = .error .overflow ∧
    apply .rem [.int i64Min, .int (-1)] = .ok (.int 0) ∧
    apply .add [.int i64Max, .int 0] = .ok (.int i64Max) ∧
    apply .neg [.int i64Max] = .ok (.int (-i64Max)) ∧
    apply .abs [.int (i64Min + 1)] = .ok (.int i64Max) := by
  simp [apply, Fn.isStrict, applyNN, arith, chkInt, Val.isNull, i64Min, i64Max]

/-- ABS overflows exactly on the minimum -/
theorem abs_err_iff (a : Int) (h : i64Min ≤ a ∧ a ≤ i64Max) :
    apply .abs [.int a] = .error .overflow ↔ a = i64Min := by
  simp only [apply, Fn.isStrict, List.any, Val.isNull, Bool.or_false, Bool.and_false,
    Bool.false_eq_true, if_false, applyNN]
  rw [chkInt_err_iff]
  unfold i64Min i64Max at *
  split <;> omega

/-- division and modulo by zero: an error (operators) or NULL (MOD function), never a value -/
theorem div_by_zero_never_value (a : Int) :
    apply .div [.int a, .int 0] = .error .divzero ∧
    apply .rem [.int a, .int 0] = .error .divzero ∧
    apply .mod [.int a, .int 0] = .ok .null := by
  simp [apply, Fn.isStrict, applyNN, arith, Val.isNull]

/-- float operands as well -/
theorem div_by_zero_float (q : Rat) :
    apply .div [.flt q, .int 0] = .error .divzero ∧ apply .div [.flt q, .flt 0] = .error .divzero := by
  simp [apply, Fn.isStrict, applyNN, arith, arith.arithF, Val.isNull]

/-! ### CAST -/
theorem cast_int_text_roundtrip_witness :
    parseIntChars (intChars 0) = some 0 ∧ parseIntChars (intChars (-42)) = some (-42) ∧
    parseIntChars (intChars 9223372036854775807) = some 9223372036854775807 ∧
    parseIntChars ['1', '2', 'a'] = none ∧ parseIntChars [] = none ∧ parseIntChars ['-'] = none := by
  decide

theorem cast_bool_int (b : Bool) :
    apply .castInt [.bool b] = .ok (.int (if b then 1 else 0)) ∧
    apply .castBool [.int (if b then 1 else 0)] = .ok (.bool b) := by
  cases b <;> simp [apply, Fn.isStrict, applyNN, Val.isNull]

/-- CAST(double AS INT) outside the 64-bit range is an error, not a saturated or wrapped value -/
theorem cast_float_overflow (q : Rat) (h : ¬ (i64Min ≤ truncQ q ∧ truncQ q ≤ i64Max)) :
    apply .castInt [.flt q] = .error .overflow := by
  simp only [apply, Fn.isStrict, List.any, Val.isNull, Bool.or_false, Bool.and_false,
    Bool.false_eq_true, if_false, applyNN]
  exact (chkInt_err_iff _).mpr h

/-! ### non-vacuity / sanity of the definitions on concrete inputs -/
example : substr ['h', 'é', 'l', 'l', 'o'] (-3) none = ['l', 'l', 'o'] ∧
    lpad ['h', 'i'] 5 ['?', '!'] = some ['?', '!', '?', 'h', 'i'] ∧
    rpad ['h', 'i'] 1 ['x'] = some ['h'] ∧ lpad ['a'] (-1) ['x'] = none ∧
    replaceAll ['a', 'b', 'a', 'b', 'a'] ['a', 'b', 'a'] ['X'] = ['X', 'b', 'a'] ∧
    trimBoth [' ', Char.ofNat 160, 'a', ' ', 'b', '\t'] = ['a', ' ', 'b'] ∧
    repeatN ['a', 'b'] 2 = ['a', 'b', 'a', 'b'] ∧ repeatN ['a'] (-1) = [] := by decide

end TurVerif.C20
