import TurVerif.Model.Undo
import TurVerif.Model.SqlDb
/-!
C07  ROLLBACK and ROLLBACK TO SAVEPOINT restore the earlier state.

* M-code `TurVerif.Undo`: the engine's write-entry log, savepoints as log indices, reverse replay.
  Headline: undo logging refines snapshot restore (`undo_refines_snapshot`, `run_refines`,
  `undo_restores_map`, `rollback_to_restores_map`) for arbitrary statement sequences.
* M-spec `TurVerif.SqlDb`: the snapshot stack itself (`rollback_restores`, …).
* Where the engine's mechanism breaks the property: counterexamples on the faithful model
  (row counter, index entries, root page 1, savepoint name resolution).
-/
namespace TurVerif.C07
open TurVerif.Undo

/-! ### helper lemmas: the association list as a finite map -/
section Helpers
variable {α : Type}

/-- maps as functions: the abstraction of the table B-tree -/
abbrev FMap (α : Type) := TKey → Option α

def fput (f : FMap α) (k : TKey) (v : α) : FMap α := fun k' => if k' = k then some v else f k'
def fdel (f : FMap α) (k : TKey) : FMap α := fun k' => if k' = k then none else f k'

theorem get_nil (k : TKey) : Undo.get ([] : List (TKey × α)) k = none := rfl

theorem get_cons (a : TKey) (v : α) (m : List (TKey × α)) (k : TKey) :
    Undo.get ((a, v) :: m) k = if a = k then some v else Undo.get m k := rfl

theorem get_del (m : List (TKey × α)) (k : TKey) : Undo.get (del m k) = fdel (Undo.get m) k := by
  funext k'
  induction m with
  | nil => simp [del, get_nil, fdel]
  | cons x m ih =>
    obtain ⟨a, v⟩ := x
    by_cases h : a = k
    · subst h
      simp only [del, if_true, ih, fdel, get_cons]
      by_cases h2 : k' = a
      · simp [h2]
      · have h3 : ¬ a = k' := fun e => h2 e.symm
        simp [h2, h3]
    · simp only [del, h, if_false, get_cons, ih, fdel]
      by_cases h3 : a = k'
      · subst h3; simp [h]
      · simp [h3]

theorem get_put (m : List (TKey × α)) (k : TKey) (v : α) :
    Undo.get (put m k v) = fput (Undo.get m) k v := by
  funext k'
  simp only [put, get_cons, get_del, fdel, fput]
  by_cases h : k = k'
  · subst h; simp
  · have h2 : ¬ k' = k := fun e => h e.symm
    simp [h, h2]

/-- `undoEntry` on functions -/
def fundo (f : FMap α) (e : Entry α) : FMap α :=
  if e.isInsert then fdel f e.key
  else match e.undo with
    | some old => fput f e.key old
    | none => f

def fundoAll (f : FMap α) : List (Entry α) → FMap α
  | [] => f
  | e :: es => fundoAll (fundo f e) es

theorem get_undoEntry (m : List (TKey × α)) (e : Entry α) :
    Undo.get (undoEntry m e) = fundo (Undo.get m) e := by
  obtain ⟨k, ins, u⟩ := e
  cases ins with
  | true => simp [undoEntry, fundo, get_del]
  | false =>
    cases u with
    | some old => simp [undoEntry, fundo, get_put]
    | none => simp [undoEntry, fundo]

theorem get_undoAll (m : List (TKey × α)) (l : List (Entry α)) :
    Undo.get (undoAll m l) = fundoAll (Undo.get m) l := by
  induction l generalizing m with
  | nil => rfl
  | cons e es ih => simp only [undoAll, fundoAll, ih, get_undoEntry]

theorem fundoAll_append (f : FMap α) (l1 l2 : List (Entry α)) :
    fundoAll f (l1 ++ l2) = fundoAll (fundoAll f l1) l2 := by
  induction l1 generalizing f with
  | nil => rfl
  | cons e es ih => simp only [List.cons_append, fundoAll, ih]

end Helpers

/-! ### the specification: a stack of snapshots -/
section Spec
variable {α : Type}

/-- spec state: current map, row-key counter, open transaction = snapshot taken at BEGIN plus the
savepoints in creation order, each with the snapshot taken when it was created -/
structure Snap (α : Type) where
  map : FMap α
  nextRow : Nat
  txn : Option (FMap α × List (String × FMap α))

/-- first savepoint with that name (the engine's `find_savepoint` discipline) -/
def findSnap : List (String × FMap α) → String → Option (Nat × FMap α)
  | [], _ => none
  | (m, snap) :: rest, n =>
    if m = n then some (0, snap)
    else match findSnap rest n with
      | some (i, x) => some (i + 1, x)
      | none => none

/-- snapshot semantics of one statement: ROLLBACK installs the BEGIN snapshot, ROLLBACK TO
installs the savepoint's snapshot, nothing else looks at old states -/
def sstep (s : Snap α) : Op α → Snap α × Bool
  | .insert tb v => ({ s with map := fput s.map (tb, s.nextRow) v, nextRow := s.nextRow + 1 }, true)
  | .modify k f =>
    match s.map k with
    | some old => ({ s with map := fput s.map k (f old) }, true)
    | none => (s, true)
  | .begin =>
    match s.txn with
    | some _ => (s, false)
    | none => ({ s with txn := some (s.map, []) }, true)
  | .commit =>
    match s.txn with
    | none => (s, false)
    | some _ => ({ s with txn := none }, true)
  | .rollback =>
    match s.txn with
    | none => (s, false)
    | some (b, _) => ({ s with map := b, txn := none }, true)
  | .savepoint n =>
    match s.txn with
    | none => (s, false)
    | some (b, sps) => ({ s with txn := some (b, sps ++ [(n, s.map)]) }, true)
  | .rollbackTo n =>
    match s.txn with
    | none => (s, false)
    | some (b, sps) =>
      match findSnap sps n with
      | none => (s, false)
      | some (i, snap) => ({ s with map := snap, txn := some (b, sps.take (i + 1)) }, true)
  | .release n =>
    match s.txn with
    | none => (s, false)
    | some (b, sps) =>
      match findSnap sps n with
      | none => (s, false)
      | some (i, _) => ({ s with txn := some (b, sps.eraseIdx i) }, true)

def srun (s : Snap α) : List (Op α) → Snap α
  | [] => s
  | op :: ops => srun (sstep s op).1 ops

/-- what a savepoint index denotes: the map after undoing the entries logged since -/
def snapAt (f : FMap α) (log : List (Entry α)) (idx : Nat) : FMap α :=
  fundoAll f (log.take (log.length - idx))

def absSps (f : FMap α) (log : List (Entry α)) (sps : List (String × Nat)) :
    List (String × FMap α) :=
  sps.map (fun p => (p.1, snapAt f log p.2))

/-- abstraction function from the undo-log state to the snapshot-stack state -/
def abs (c : St α) : Snap α :=
  { map := Undo.get c.map, nextRow := c.nextRow,
    txn := c.txn.map (fun t => (fundoAll (Undo.get c.map) t.log, absSps (Undo.get c.map) t.log t.sps)) }

/-- invariant of reachable undo-log states -/
structure WF (c : St α) : Prop where
  fresh : ∀ k : TKey, c.nextRow ≤ k.2 → Undo.get c.map k = none
  logKeys : ∀ t, c.txn = some t → ∀ e ∈ t.log, e.key.2 < c.nextRow
  spLe : ∀ t, c.txn = some t → ∀ p ∈ t.sps, p.2 ≤ t.log.length
  spMono : ∀ t, c.txn = some t → t.sps.Pairwise (fun p q => p.2 ≤ q.2)

/-! #### lemmas for the simulation -/

theorem findSnap_abs (f : FMap α) (log : List (Entry α)) (sps : List (String × Nat)) (n : String) :
    findSnap (absSps f log sps) n = (findSp sps n).map (fun p => (p.1, snapAt f log p.2)) := by
  induction sps with
  | nil => rfl
  | cons p rest ih =>
    obtain ⟨m, idx⟩ := p
    simp only [absSps, List.map_cons] at ih ⊢
    simp only [findSnap, findSp]
    by_cases h : m = n
    · simp [h]
    · simp only [h, if_false, ih]
      cases findSp rest n with
      | none => rfl
      | some q => rfl

theorem undo_insert_step (f : FMap α) (k : TKey) (v : α) (h : f k = none) :
    fundo (fput f k v) { key := k, isInsert := true, undo := none } = f := by
  funext k'
  simp only [fundo, if_true, fdel, fput]
  by_cases h2 : k' = k
  · subst h2; simp [h]
  · simp [h2]

theorem undo_modify_step (f : FMap α) (k : TKey) (v old : α) (h : f k = some old) :
    fundo (fput f k v) { key := k, isInsert := false, undo := some old } = f := by
  funext k'
  simp only [fundo]
  by_cases h2 : k' = k
  · subst h2; simp [fput, h]
  · simp [fput, h2]

/-- pushing the entry of a DML step does not change what the existing savepoints denote -/
theorem absSps_push (f f' : FMap α) (e : Entry α) (log : List (Entry α)) (sps : List (String × Nat))
    (hstep : fundo f' e = f) (hle : ∀ p ∈ sps, p.2 ≤ log.length) :
    absSps f' (e :: log) sps = absSps f log sps := by
  unfold absSps
  apply List.map_congr_left
  intro p hp
  have h1 := hle p hp
  have h2 : (e :: log).length - p.2 = (log.length - p.2) + 1 := by
    simp only [List.length_cons]; omega
  simp only [snapAt, h2, List.take_succ_cons, fundoAll, hstep]

theorem take_split (log : List (Entry α)) (a b : Nat) :
    log.take (a + b) = log.take a ++ (log.drop a).take b := by
  induction log generalizing a with
  | nil => simp
  | cons x xs ih =>
    cases a with
    | zero => simp
    | succ a =>
      have : a + 1 + b = (a + b) + 1 := by omega
      simp only [this, List.take_succ_cons, List.drop_succ_cons, List.cons_append, ih]

/-- after ROLLBACK TO idx_i, an older savepoint idx_j ≤ idx_i denotes the same map as before -/
theorem snapAt_after_rollbackTo (f : FMap α) (log : List (Entry α)) (i j : Nat)
    (hji : j ≤ i) (hi : i ≤ log.length) :
    snapAt (fundoAll f (log.take (log.length - i))) (log.drop (log.length - i)) j
      = snapAt f log j := by
  unfold snapAt
  have hlen : (log.drop (log.length - i)).length = i := by simp only [List.length_drop]; omega
  have hsplit : log.length - j = (log.length - i) + (i - j) := by omega
  rw [hlen, hsplit, take_split, fundoAll_append]

theorem map_eraseIdx {β γ : Type} (f : β → γ) (l : List β) (i : Nat) :
    (l.eraseIdx i).map f = (l.map f).eraseIdx i := by
  induction l generalizing i with
  | nil => rfl
  | cons x xs ih =>
    cases i with
    | zero => rfl
    | succ i => simp [List.eraseIdx, ih]

theorem findSp_mem (sps : List (String × Nat)) (n : String) (i idx : Nat)
    (h : findSp sps n = some (i, idx)) : i < sps.length ∧ sps[i]? = some (n, idx) := by
  induction sps generalizing i with
  | nil => simp [findSp] at h
  | cons p rest ih =>
    obtain ⟨m, x⟩ := p
    simp only [findSp] at h
    by_cases hm : m = n
    · simp only [hm, if_true, Option.some.injEq, Prod.mk.injEq] at h
      obtain ⟨h1, h2⟩ := h
      subst h1; subst h2; subst hm
      simp
    · simp only [hm, if_false] at h
      cases hf : findSp rest n with
      | none => simp [hf] at h
      | some q =>
        obtain ⟨i', x'⟩ := q
        simp only [hf, Option.some.injEq, Prod.mk.injEq] at h
        obtain ⟨h1, h2⟩ := h
        subst h1; subst h2
        have := ih i' hf
        simp only [List.length_cons, List.getElem?_cons_succ]
        exact ⟨by omega, this.2⟩

theorem sp_le_of_take (sps : List (String × Nat)) (i : Nat) (q : String × Nat) (hi : i < sps.length)
    (hsi : sps[i] = q) (hmono : sps.Pairwise (fun p q => p.2 ≤ q.2))
    (p : String × Nat) (hp : p ∈ sps.take (i + 1)) : p.2 ≤ q.2 := by
  obtain ⟨j, hj, hjp⟩ := List.mem_iff_getElem.mp hp
  have hj2 : j < i + 1 := by
    have := hj; simp only [List.length_take] at this; omega
  have hj3 : j < sps.length := by omega
  rw [List.getElem_take] at hjp
  by_cases hji : j = i
  · subst hji
    rw [hsi] at hjp; rw [← hjp]; exact Nat.le_refl _
  · have hlt : j < i := by omega
    have := List.pairwise_iff_getElem.mp hmono j i hj3 hi hlt
    rw [hjp, hsi] at this
    exact this

theorem fundoAll_fresh (f : FMap α) (l : List (Entry α)) (nr : Nat) (k : TKey)
    (hl : ∀ e ∈ l, e.key.2 < nr) (hk : nr ≤ k.2) (hf : f k = none) : fundoAll f l k = none := by
  induction l generalizing f with
  | nil => exact hf
  | cons e es ih =>
    have he : e.key.2 < nr := hl e (List.mem_cons_self ..)
    have hne : ¬ k = e.key := fun h => by rw [h] at hk; omega
    apply ih
    · intro e' he'; exact hl e' (List.mem_cons_of_mem _ he')
    · obtain ⟨ek, ins, u⟩ := e
      cases ins with
      | true => simp [fundo, fdel, hf]
      | false =>
        cases u with
        | some old => simp only at hne; simp [fundo, fput, hne, hf]
        | none => simp [fundo, hf]

/-- **Undo logging refines snapshot restore (one statement).**  For every reachable undo-log
state and every statement, the abstraction of the engine's next state is the snapshot-stack
semantics applied to the abstraction, with the same Ok/Err outcome. -/
theorem undo_refines_snapshot (c : St α) (hwf : WF c) (op : Op α) :
    abs (step c op).1 = (sstep (abs c) op).1 ∧ (step c op).2 = (sstep (abs c) op).2 := by
  obtain ⟨m, nr, txn⟩ := c
  cases op with
  | insert tb v =>
    have hfresh : Undo.get m (tb, nr) = none := hwf.fresh (tb, nr) (Nat.le_refl _)
    cases txn with
    | none => simp [step, logEntry, abs, sstep, get_put]
    | some t =>
      obtain ⟨log, sps⟩ := t
      have hle := hwf.spLe ⟨log, sps⟩ rfl
      have hs := undo_insert_step (Undo.get m) (tb, nr) v hfresh
      simp only [step, logEntry, abs, sstep, get_put, Option.map_some, fundoAll, hs,
        absSps_push _ _ _ log sps hs hle, and_self]
  | modify k f =>
    cases hg : Undo.get m k with
    | none =>
      have : (abs (⟨m, nr, txn⟩ : St α)).map k = none := hg
      simp [step, hg, sstep, this]
    | some old =>
      have hk : (abs (⟨m, nr, txn⟩ : St α)).map k = some old := hg
      cases txn with
      | none =>
        simp only [step, hg, sstep, hk]
        simp [logEntry, abs, get_put]
      | some t =>
        obtain ⟨log, sps⟩ := t
        have hle := hwf.spLe ⟨log, sps⟩ rfl
        have hs := undo_modify_step (Undo.get m) k (f old) old hg
        simp only [step, hg, sstep, hk]
        simp only [logEntry, abs, get_put, Option.map_some, fundoAll, hs,
          absSps_push _ _ _ log sps hs hle, and_self]
  | begin =>
    cases txn with
    | none => simp [step, abs, sstep, fundoAll, absSps]
    | some t => simp [step, abs, sstep]
  | commit =>
    cases txn with
    | none => simp [step, abs, sstep]
    | some t => simp [step, abs, sstep]
  | rollback =>
    cases txn with
    | none => simp [step, abs, sstep]
    | some t => simp [step, abs, sstep, get_undoAll]
  | savepoint n =>
    cases txn with
    | none => simp [step, abs, sstep]
    | some t =>
      obtain ⟨log, sps⟩ := t
      simp [step, abs, sstep, absSps, snapAt, fundoAll]
  | rollbackTo n =>
    cases txn with
    | none => simp [step, abs, sstep]
    | some t =>
      obtain ⟨log, sps⟩ := t
      have hle : ∀ p ∈ sps, p.2 ≤ log.length := hwf.spLe ⟨log, sps⟩ rfl
      have hmono : sps.Pairwise (fun p q => p.2 ≤ q.2) := hwf.spMono ⟨log, sps⟩ rfl
      cases hf : findSp sps n with
      | none => simp [step, abs, sstep, findSnap_abs, hf]
      | some q =>
        obtain ⟨i, idx⟩ := q
        obtain ⟨hi, hget⟩ := findSp_mem sps n i idx hf
        have hmem : (n, idx) ∈ sps := List.mem_of_getElem? hget
        have hidx : idx ≤ log.length := hle _ hmem
        have hsi : sps[i] = (n, idx) := by
          have := List.getElem?_eq_getElem hi
          rw [hget] at this; exact (Option.some.inj this).symm
        have e1 : fundoAll (fundoAll (Undo.get m) (log.take (log.length - idx)))
            (log.drop (log.length - idx)) = fundoAll (Undo.get m) log := by
          rw [← fundoAll_append, List.take_append_drop]
        have e2 : absSps (fundoAll (Undo.get m) (log.take (log.length - idx)))
            (log.drop (log.length - idx)) (sps.take (i + 1))
            = (absSps (Undo.get m) log sps).take (i + 1) := by
          unfold absSps
          rw [← List.map_take]
          apply List.map_congr_left
          intro p hp
          have hp2 : p.2 ≤ idx := by
            obtain ⟨j, hj, hjp⟩ := List.mem_iff_getElem.mp hp
            have hj2 : j < i + 1 := by
              have := hj; simp only [List.length_take] at this; omega
            have hj3 : j < sps.length := by omega
            rw [List.getElem_take] at hjp
            by_cases hji : j = i
            · subst hji
              rw [hsi] at hjp; rw [← hjp]; exact Nat.le_refl _
            · have hlt : j < i := by omega
              have := List.pairwise_iff_getElem.mp hmono j i hj3 hi hlt
              rw [hjp, hsi] at this
              exact this
          rw [snapAt_after_rollbackTo (Undo.get m) log idx p.2 hp2 hidx]
        simp only [step, hf, abs, sstep, Option.map_some, findSnap_abs, get_undoAll, e1, e2,
          snapAt, and_self]
  | release n =>
    cases txn with
    | none => simp [step, abs, sstep]
    | some t =>
      obtain ⟨log, sps⟩ := t
      cases hf : findSp sps n with
      | none => simp [step, abs, sstep, findSnap_abs, hf]
      | some q =>
        obtain ⟨i, idx⟩ := q
        simp only [step, hf, abs, sstep, Option.map_some, findSnap_abs, and_self]
        simp [absSps, map_eraseIdx]

theorem wf_mk (m : List (TKey × α)) (nr : Nat) (txn : Option (Txn α))
    (h1 : ∀ k : TKey, nr ≤ k.2 → Undo.get m k = none)
    (h2 : ∀ log sps, txn = some ⟨log, sps⟩ →
      (∀ e ∈ log, e.key.2 < nr) ∧ (∀ p ∈ sps, p.2 ≤ log.length) ∧
        sps.Pairwise (fun p q => p.2 ≤ q.2)) : WF (⟨m, nr, txn⟩ : St α) :=
  ⟨h1, fun t ht => by obtain ⟨log, sps⟩ := t; exact (h2 log sps ht).1,
    fun t ht => by obtain ⟨log, sps⟩ := t; exact (h2 log sps ht).2.1,
    fun t ht => by obtain ⟨log, sps⟩ := t; exact (h2 log sps ht).2.2⟩

theorem wf_elim (m : List (TKey × α)) (nr : Nat) (log : List (Entry α)) (sps : List (String × Nat))
    (h : WF (⟨m, nr, some ⟨log, sps⟩⟩ : St α)) :
    (∀ e ∈ log, e.key.2 < nr) ∧ (∀ p ∈ sps, p.2 ≤ log.length) ∧
      sps.Pairwise (fun p q => p.2 ≤ q.2) :=
  ⟨h.logKeys ⟨log, sps⟩ rfl, h.spLe ⟨log, sps⟩ rfl, h.spMono ⟨log, sps⟩ rfl⟩

/-- the invariant is preserved by every statement -/
theorem step_wf (c : St α) (hwf : WF c) (op : Op α) : WF (step c op).1 := by
  obtain ⟨m, nr, txn⟩ := c
  have hfr : ∀ k : TKey, nr ≤ k.2 → Undo.get m k = none := hwf.fresh
  cases op with
  | insert tb v =>
    have hfresh' : ∀ k : TKey, nr + 1 ≤ k.2 → Undo.get (put m (tb, nr) v) k = none := by
      intro k hk
      have hne : ¬ k = (tb, nr) := fun h => by rw [h] at hk; simp only at hk; omega
      rw [get_put]; simp only [fput, hne, if_false]
      exact hfr k (by omega)
    cases txn with
    | none =>
      simp only [step, logEntry]
      exact wf_mk _ _ _ hfresh' (fun log sps h => by cases h)
    | some t =>
      obtain ⟨log, sps⟩ := t
      obtain ⟨h1, h2, h3⟩ := wf_elim m nr log sps hwf
      simp only [step, logEntry]
      apply wf_mk _ _ _ hfresh'
      intro log' sps' h
      simp only [Option.some.injEq, Txn.mk.injEq] at h
      obtain ⟨hl, hs⟩ := h
      subst hl; subst hs
      refine ⟨?_, ?_, h3⟩
      · intro e he
        simp only [List.mem_cons] at he
        cases he with
        | inl h => subst h; exact Nat.lt_succ_self _
        | inr h => exact Nat.lt_succ_of_lt (h1 e h)
      · intro p hp
        have := h2 p hp
        simp only [List.length_cons]; omega
  | modify k f =>
    cases hg : Undo.get m k with
    | none => simpa [step, hg] using hwf
    | some old =>
      have hklt : k.2 < nr := by
        apply Nat.lt_of_not_le
        intro h
        have := hfr k h
        rw [hg] at this; cases this
      have hfresh' : ∀ k' : TKey, nr ≤ k'.2 → Undo.get (put m k (f old)) k' = none := by
        intro k' hk'
        have hne : ¬ k' = k := fun h => by rw [h] at hk'; omega
        rw [get_put]; simp only [fput, hne, if_false]
        exact hfr k' hk'
      cases txn with
      | none =>
        simp only [step, hg, logEntry]
        exact wf_mk _ _ _ hfresh' (fun log sps h => by cases h)
      | some t =>
        obtain ⟨log, sps⟩ := t
        obtain ⟨h1, h2, h3⟩ := wf_elim m nr log sps hwf
        simp only [step, hg, logEntry]
        apply wf_mk _ _ _ hfresh'
        intro log' sps' h
        simp only [Option.some.injEq, Txn.mk.injEq] at h
        obtain ⟨hl, hs⟩ := h
        subst hl; subst hs
        refine ⟨?_, ?_, h3⟩
        · intro e he
          simp only [List.mem_cons] at he
          cases he with
          | inl h => subst h; exact hklt
          | inr h => exact h1 e h
        · intro p hp
          have := h2 p hp
          simp only [List.length_cons]; omega
  | begin =>
    cases txn with
    | none =>
      simp only [step]
      apply wf_mk _ _ _ hfr
      intro log sps h
      simp only [Option.some.injEq, Txn.mk.injEq] at h
      obtain ⟨hl, hs⟩ := h
      subst hl; subst hs
      exact ⟨by simp, by simp, List.Pairwise.nil⟩
    | some t => simpa [step] using hwf
  | commit =>
    cases txn with
    | none => simpa [step] using hwf
    | some t =>
      simp only [step]
      exact wf_mk _ _ _ hfr (fun log sps h => by cases h)
  | rollback =>
    cases txn with
    | none => simpa [step] using hwf
    | some t =>
      obtain ⟨log, sps⟩ := t
      obtain ⟨h1, _, _⟩ := wf_elim m nr log sps hwf
      simp only [step]
      apply wf_mk
      · intro k hk
        rw [get_undoAll]
        exact fundoAll_fresh _ _ nr k h1 hk (hfr k hk)
      · intro log' sps' h; cases h
  | savepoint n =>
    cases txn with
    | none => simpa [step] using hwf
    | some t =>
      obtain ⟨log, sps⟩ := t
      obtain ⟨h1, h2, h3⟩ := wf_elim m nr log sps hwf
      simp only [step]
      apply wf_mk _ _ _ hfr
      intro log' sps' h
      simp only [Option.some.injEq, Txn.mk.injEq] at h
      obtain ⟨hl, hs⟩ := h
      subst hl; subst hs
      refine ⟨h1, ?_, ?_⟩
      · intro p hp
        simp only [List.mem_append, List.mem_singleton] at hp
        cases hp with
        | inl h => exact h2 p h
        | inr h => subst h; exact Nat.le_refl _
      · rw [List.pairwise_append]
        refine ⟨h3, List.pairwise_singleton _ _, ?_⟩
        intro a ha b hb
        simp only [List.mem_singleton] at hb
        subst hb
        exact h2 a ha
  | rollbackTo n =>
    cases txn with
    | none => simpa [step] using hwf
    | some t =>
      obtain ⟨log, sps⟩ := t
      obtain ⟨h1, h2, h3⟩ := wf_elim m nr log sps hwf
      cases hf : findSp sps n with
      | none => simpa [step, hf] using hwf
      | some q =>
        obtain ⟨i, idx⟩ := q
        obtain ⟨hi, hget⟩ := findSp_mem sps n i idx hf
        have hmem : (n, idx) ∈ sps := List.mem_of_getElem? hget
        have hidx : idx ≤ log.length := h2 _ hmem
        have hsi : sps[i] = (n, idx) := by
          have := List.getElem?_eq_getElem hi
          rw [hget] at this; exact (Option.some.inj this).symm
        simp only [step, hf]
        apply wf_mk
        · intro k hk
          rw [get_undoAll]
          exact fundoAll_fresh _ _ nr k (fun e he => h1 e (List.mem_of_mem_take he)) hk (hfr k hk)
        · intro log' sps' h
          simp only [Option.some.injEq, Txn.mk.injEq] at h
          obtain ⟨hl, hs⟩ := h
          subst hl; subst hs
          refine ⟨fun e he => h1 e (List.mem_of_mem_drop he), ?_, h3.sublist (List.take_sublist _ _)⟩
          intro p hp
          have := sp_le_of_take sps i (n, idx) hi hsi h3 p hp
          simp only [List.length_drop]
          simp only at this
          omega
  | release n =>
    cases txn with
    | none => simpa [step] using hwf
    | some t =>
      obtain ⟨log, sps⟩ := t
      obtain ⟨h1, h2, h3⟩ := wf_elim m nr log sps hwf
      cases hf : findSp sps n with
      | none => simpa [step, hf] using hwf
      | some q =>
        obtain ⟨i, idx⟩ := q
        simp only [step, hf]
        apply wf_mk _ _ _ hfr
        intro log' sps' h
        simp only [Option.some.injEq, Txn.mk.injEq] at h
        obtain ⟨hl, hs⟩ := h
        subst hl; subst hs
        exact ⟨h1, fun p hp => h2 p (List.mem_of_mem_eraseIdx hp), h3.sublist (List.eraseIdx_sublist _ _)⟩

end Spec

/-! ### property theorems: the undo log (M-code) -/
section Headline
variable {α : Type}

theorem wf_init : WF ({} : St α) :=
  wf_mk _ _ _ (fun _ _ => rfl) (fun _ _ h => by cases h)

/-- **Undo logging refines snapshot restore**, any statement sequence -/
theorem run_refines (c : St α) (hwf : WF c) (ops : List (Op α)) :
    abs (run c ops) = srun (abs c) ops ∧ WF (run c ops) := by
  induction ops generalizing c with
  | nil => exact ⟨rfl, hwf⟩
  | cons op ops ih =>
    have h1 := undo_refines_snapshot c hwf op
    have h2 := step_wf c hwf op
    have := ih (step c op).1 h2
    simp only [run, srun]
    rw [← h1.1]
    exact this

/-- every state reachable from the empty database satisfies the invariant -/
theorem reachable_wf (ops : List (Op α)) : WF (run ({} : St α) ops) :=
  (run_refines _ wf_init ops).2

/-- statements that end a transaction -/
def Op.ends : Op α → Bool
  | .commit => true
  | .rollback => true
  | _ => false

def Op.isDml : Op α → Bool
  | .insert .. => true
  | .modify .. => true
  | _ => false

/-- in the snapshot semantics the BEGIN snapshot is never touched before the transaction ends -/
theorem sstep_keeps_begin (s : Snap α) (b : FMap α) (sps : List (String × FMap α))
    (h : s.txn = some (b, sps)) (op : Op α) (hop : Op.ends op = false) :
    ∃ sps', (sstep s op).1.txn = some (b, sps') := by
  obtain ⟨m, nr, txn⟩ := s
  simp only at h
  subst h
  cases op with
  | insert tb v => exact ⟨sps, rfl⟩
  | modify k f =>
    simp only [sstep]
    cases m k with
    | none => exact ⟨sps, rfl⟩
    | some old => exact ⟨sps, rfl⟩
  | begin => exact ⟨sps, rfl⟩
  | commit => simp [Op.ends] at hop
  | rollback => simp [Op.ends] at hop
  | savepoint n => exact ⟨_, rfl⟩
  | rollbackTo n =>
    simp only [sstep]
    cases findSnap sps n with
    | none => exact ⟨sps, rfl⟩
    | some q => exact ⟨_, rfl⟩
  | release n =>
    simp only [sstep]
    cases findSnap sps n with
    | none => exact ⟨sps, rfl⟩
    | some q => exact ⟨_, rfl⟩

theorem srun_keeps_begin (s : Snap α) (b : FMap α) (sps : List (String × FMap α))
    (h : s.txn = some (b, sps)) (ops : List (Op α)) (hops : ∀ op ∈ ops, Op.ends op = false) :
    ∃ sps', (srun s ops).txn = some (b, sps') := by
  induction ops generalizing s sps with
  | nil => exact ⟨sps, h⟩
  | cons op ops ih =>
    obtain ⟨sps1, h1⟩ := sstep_keeps_begin s b sps h op (hops op (List.mem_cons_self ..))
    exact ih (sstep s op).1 sps1 h1 (fun o ho => hops o (List.mem_cons_of_mem _ ho))

theorem run_append (c : St α) (l1 l2 : List (Op α)) : run c (l1 ++ l2) = run (run c l1) l2 := by
  induction l1 generalizing c with
  | nil => rfl
  | cons x xs ih => simp only [List.cons_append, run, ih]

theorem srun_append (c : Snap α) (l1 l2 : List (Op α)) : srun c (l1 ++ l2) = srun (srun c l1) l2 := by
  induction l1 generalizing c with
  | nil => rfl
  | cons x xs ih => simp only [List.cons_append, srun, ih]

/-- **Headline: ROLLBACK by reverse replay of the write-entry log restores the key → value map
exactly.**  From any reachable state without an open transaction: BEGIN, then any statements
(inserts, updates/deletes, savepoints, ROLLBACK TO, RELEASE, failing nested BEGINs -- anything
that does not end the transaction), then ROLLBACK: every key maps to exactly what it mapped to
at BEGIN (present keys to the same value, absent keys absent). -/
theorem undo_restores_map (c : St α) (hwf : WF c) (hno : c.txn = none) (ops : List (Op α))
    (hops : ∀ op ∈ ops, Op.ends op = false) :
    Undo.get (run c (.begin :: (ops ++ [.rollback]))).map = Undo.get c.map := by
  have href := (run_refines c hwf (.begin :: (ops ++ [.rollback]))).1
  have hmap : (abs (run c (.begin :: (ops ++ [.rollback])))).map
      = Undo.get (run c (.begin :: (ops ++ [.rollback]))).map := rfl
  rw [← hmap, href]
  -- spec side
  have hb : (sstep (abs c) .begin).1.txn = some (Undo.get c.map, []) := by
    simp [abs, hno, sstep]
  obtain ⟨sps', h2⟩ := srun_keeps_begin _ _ _ hb ops hops
  simp only [srun, srun_append]
  generalize srun (sstep (abs c) Op.begin).1 ops = s2 at h2
  obtain ⟨m2, nr2, txn2⟩ := s2
  simp only at h2
  subst h2
  rfl

theorem sstep_dml_txn (s : Snap α) (op : Op α) (h : Op.isDml op = true) :
    (sstep s op).1.txn = s.txn := by
  cases op with
  | insert tb v => rfl
  | modify k f =>
    simp only [sstep]
    cases s.map k with
    | none => rfl
    | some old => rfl
  | _ => simp [Op.isDml] at h

theorem srun_dml_txn (s : Snap α) (ops : List (Op α)) (h : ∀ op ∈ ops, Op.isDml op = true) :
    (srun s ops).txn = s.txn := by
  induction ops generalizing s with
  | nil => rfl
  | cons op ops ih =>
    simp only [srun]
    rw [ih _ (fun o ho => h o (List.mem_cons_of_mem _ ho)),
      sstep_dml_txn s op (h op (List.mem_cons_self ..))]

theorem findSnap_append_new (sps : List (String × FMap α)) (n : String) (f : FMap α)
    (h : findSnap sps n = none) : findSnap (sps ++ [(n, f)]) n = some (sps.length, f) := by
  induction sps with
  | nil => simp [findSnap]
  | cons p rest ih =>
    obtain ⟨m, x⟩ := p
    simp only [findSnap] at h
    by_cases hm : m = n
    · simp [hm] at h
    · simp only [hm, if_false] at h
      cases hf : findSnap rest n with
      | some q => simp [hf] at h
      | none =>
        simp only [List.cons_append, findSnap, hm, if_false, ih hf, List.length_cons]

/-- **ROLLBACK TO SAVEPOINT by reverse replay of the log suffix restores the map exactly.**
Inside a transaction: SAVEPOINT n (a name not in use), any inserts / updates / deletes,
ROLLBACK TO n: every key maps to what it mapped to when the savepoint was created. -/
theorem rollback_to_restores_map (c : St α) (hwf : WF c) (t : Txn α) (ht : c.txn = some t)
    (n : String) (hn : findSp t.sps n = none) (ops : List (Op α))
    (hdml : ∀ op ∈ ops, Op.isDml op = true) :
    Undo.get (run c (.savepoint n :: (ops ++ [.rollbackTo n]))).map = Undo.get c.map := by
  have href := (run_refines c hwf (.savepoint n :: (ops ++ [.rollbackTo n]))).1
  have hmap : (abs (run c (.savepoint n :: (ops ++ [.rollbackTo n])))).map
      = Undo.get (run c (.savepoint n :: (ops ++ [.rollbackTo n]))).map := rfl
  rw [← hmap, href]
  obtain ⟨m, nr, txn⟩ := c
  simp only at ht
  subst ht
  obtain ⟨log, sps⟩ := t
  simp only at hn
  have hfs : findSnap (absSps (Undo.get m) log sps) n = none := by
    rw [findSnap_abs, hn]; rfl
  simp only [srun, srun_append]
  have h1 : (sstep (abs ⟨m, nr, some ⟨log, sps⟩⟩) (.savepoint n)).1
      = ⟨Undo.get m, nr, some (fundoAll (Undo.get m) log,
          absSps (Undo.get m) log sps ++ [(n, Undo.get m)])⟩ := rfl
  rw [h1]
  have h2 := srun_dml_txn (⟨Undo.get m, nr, some (fundoAll (Undo.get m) log,
          absSps (Undo.get m) log sps ++ [(n, Undo.get m)])⟩ : Snap α) ops hdml
  generalize srun (⟨Undo.get m, nr, some (fundoAll (Undo.get m) log,
          absSps (Undo.get m) log sps ++ [(n, Undo.get m)])⟩ : Snap α) ops = s2 at h2
  obtain ⟨m2, nr2, txn2⟩ := s2
  simp only at h2
  subst h2
  simp only [sstep, findSnap_append_new _ n _ hfs]

/-- non-vacuity: the hypotheses of the two theorems are satisfiable and the statements are not
about the empty history -/
example : Undo.get (run ({} : St Nat)
    [.insert 0 10, .begin, .insert 0 11, .modify (0, 1) (fun _ => 99), .savepoint "s",
     .modify (0, 2) (fun _ => 7), .rollbackTo "s", .rollback]).map (0, 1) = some 10 := by decide

end Headline

/-! ### property theorems: the snapshot-stack specification `TurVerif.SqlDb` -/
section SpecLevel
open TurVerif.SqlDb TurVerif.Sql

def isDml : Stmt → Bool
  | .insert .. => true
  | .update .. => true
  | .delete .. => true
  | .truncate .. => true
  | _ => false

theorem put_txn (s : DbState) (t : TableSt) : (s.put t).txn = s.txn := rfl

theorem foldl_inv {β γ : Type} (P : β → Prop) (f : β → γ → β) (l : List γ) (init : β)
    (h0 : P init) (hstep : ∀ acc x, P acc → P (f acc x)) : P (l.foldl f init) := by
  induction l generalizing init with
  | nil => exact h0
  | cons x xs ih => exact ih _ (hstep _ _ h0)

theorem cascadeDelete_txn (fuel : Nat) (s : DbState) (p : String) (g : List Row) :
    (cascadeDelete fuel s p g).txn = s.txn := by
  induction fuel generalizing s p g with
  | zero => rfl
  | succ fuel ih =>
    unfold cascadeDelete
    apply foldl_inv (fun (st : DbState) => st.txn = s.txn)
    · rfl
    · intro acc t hacc
      apply foldl_inv (fun (st : DbState) => st.txn = s.txn)
      · exact hacc
      · intro acc2 f hacc2
        dsimp only
        split
        · split
          · exact hacc2
          · split
            · exact hacc2
            · rw [ih]; exact hacc2
        · exact hacc2

theorem applyValid_txn (s s' : DbState) (r : Res) (h : s'.txn = s.txn) :
    (applyValid s s' r).1.txn = s.txn := by
  unfold applyValid
  split
  · rfl
  · exact h
  · rfl

/-- a DML statement (successful or failing) never touches the snapshot stack -/
theorem step_dml_txn (s : DbState) (st : Stmt) (h : isDml st = true) :
    (SqlDb.step s st).1.txn = s.txn := by
  cases st with
  | insert tn cols rows =>
    simp only [SqlDb.step]
    split
    · rfl
    · split
      · rfl
      · exact applyValid_txn _ _ _ rfl
  | update tn sets whr =>
    simp only [SqlDb.step]
    split
    · rfl
    · split
      · rfl
      · exact applyValid_txn _ _ _ rfl
  | delete tn whr =>
    simp only [SqlDb.step]
    split
    · rfl
    · split
      · rfl
      · exact applyValid_txn _ _ _ (by rw [cascadeDelete_txn]; rfl)
  | truncate tn =>
    simp only [SqlDb.step]
    split
    · rfl
    · exact applyValid_txn _ _ _ rfl
  | _ => simp [isDml] at h

theorem run_dml_txn (s : DbState) (sts : List Stmt) (h : ∀ st ∈ sts, isDml st = true) :
    (SqlDb.run s sts).1.txn = s.txn := by
  induction sts generalizing s with
  | nil => rfl
  | cons st sts ih =>
    simp only [SqlDb.run]
    rw [ih _ (fun x hx => h x (List.mem_cons_of_mem _ hx)), step_dml_txn s st (h st (List.mem_cons_self ..))]

theorem run_append' (s : DbState) (l1 l2 : List Stmt) :
    (SqlDb.run s (l1 ++ l2)).1 = (SqlDb.run (SqlDb.run s l1).1 l2).1 := by
  induction l1 generalizing s with
  | nil => rfl
  | cons x xs ih => simp only [List.cons_append, SqlDb.run, ih]

/-- **`begin; stmts; rollback` leaves `tables` equal to the state at BEGIN** -/
theorem rollback_restores (s : DbState) (hno : s.txn = []) (sts : List Stmt)
    (h : ∀ st ∈ sts, isDml st = true) :
    (SqlDb.run s (.begin :: (sts ++ [.rollback]))).1.tables = s.tables := by
  have hb : (SqlDb.step s .begin).1 = { s with txn := [("", s.tables)] } := by
    simp [SqlDb.step, hno]
  simp only [SqlDb.run, run_append', hb]
  have h2 := run_dml_txn { s with txn := [("", s.tables)] } sts h
  generalize (SqlDb.run { s with txn := [("", s.tables)] } sts).1 = s2 at h2
  simp only at h2
  simp [SqlDb.step, h2]

/-- **`savepoint n; stmts; rollback to n` leaves `tables` equal to the state at SAVEPOINT** -/
theorem rollback_to_restores (s : DbState) (hin : s.txn ≠ []) (n : String) (hn : n ≠ "")
    (sts : List Stmt) (h : ∀ st ∈ sts, isDml st = true) :
    (SqlDb.run s (.savepoint n :: (sts ++ [.rollbackTo n]))).1.tables = s.tables := by
  have hb : (SqlDb.step s (.savepoint n)).1 = { s with txn := (n, s.tables) :: s.txn } := by
    cases ht : s.txn with
    | nil => exact absurd ht hin
    | cons x xs => simp [SqlDb.step, ht]
  simp only [SqlDb.run, run_append', hb]
  have h2 := run_dml_txn { s with txn := (n, s.tables) :: s.txn } sts h
  generalize (SqlDb.run { s with txn := (n, s.tables) :: s.txn } sts).1 = s2 at h2
  simp only at h2
  simp [SqlDb.step, h2, List.dropWhile, hn]

/-- **nested savepoints with the same name: ROLLBACK TO n goes to the most recent one** -/
theorem rollback_to_most_recent (s : DbState) (hin : s.txn ≠ []) (n : String) (hn : n ≠ "")
    (sts1 sts2 : List Stmt) (h1 : ∀ st ∈ sts1, isDml st = true) (h2 : ∀ st ∈ sts2, isDml st = true) :
    (SqlDb.run s (.savepoint n :: (sts1 ++ (.savepoint n :: (sts2 ++ [.rollbackTo n]))))).1.tables
      = (SqlDb.run s (.savepoint n :: sts1)).1.tables := by
  have e : (SqlDb.run s (.savepoint n :: (sts1 ++ (.savepoint n :: (sts2 ++ [.rollbackTo n]))))).1
      = (SqlDb.run (SqlDb.run s (.savepoint n :: sts1)).1 (.savepoint n :: (sts2 ++ [.rollbackTo n]))).1 := by
    rw [← List.cons_append, run_append']
  rw [e]
  apply rollback_to_restores _ _ n hn sts2 h2
  have hb : (SqlDb.step s (.savepoint n)).1 = { s with txn := (n, s.tables) :: s.txn } := by
    cases ht : s.txn with
    | nil => exact absurd ht hin
    | cons x xs => simp [SqlDb.step, ht]
  simp only [SqlDb.run, hb]
  rw [run_dml_txn _ sts1 h1]
  simp

/-- **RELEASE keeps the state**: whatever the name, `tables` is unchanged -/
theorem release_keeps_state (s : DbState) (n : String) :
    (SqlDb.step s (.release n)).1.tables = s.tables := by
  simp only [SqlDb.step]
  split <;> rfl

/-- COMMIT keeps the state -/
theorem commit_keeps_state (s : DbState) : (SqlDb.step s .commit).1.tables = s.tables := by
  simp only [SqlDb.step]
  split <;> rfl

end SpecLevel

/-! ### where the engine's mechanism breaks the property: witnesses on the faithful model -/
section Counterexamples

/-- table with an INT primary key (column 0) and its `<col>_pkey` index -/
def engInt : Eng := { pkCol := some 0, uidx := [(0, [])] }
/-- table with a TEXT primary key -/
def engText : Eng := engInt

/-- one row (pk, x) committed, then `BEGIN; DELETE; ROLLBACK` -/
def delRollback (pk : Cell) : Eng :=
  let e1 := (engInt.insert [pk, .int 1]).1
  let a := (e1.txnOp .begin none false).1
  let b := (a.delete 0 pk).1
  (b.txnOp .rollback none true).1

/-- **header row_count drifts**: after an undone DELETE the row is back (one live row) but the
counter that `SELECT COUNT(*)` reads says 0 -/
theorem row_count_counterexample :
    (delRollback (.int 10)).live.length = 1 ∧ (delRollback (.int 10)).count = 0 := by decide

/-- **index entries restored with `pk as rowid`**: the row with primary key 10 lives at row key 1;
after the undone DELETE the primary-key index maps 10 to row id 10, so the lookup finds nothing -/
theorem index_rowid_counterexample :
    (delRollback (.int 10)).live.map (fun x => x.1) = [(0, 1)] ∧
    (delRollback (.int 10)).uidx.map (fun x => ixGet x.2 (.int 10)) = [some 10] := by decide

/-- **non-integer keys are not restored at all**: with a TEXT primary key the index entry is gone
after the undone DELETE, and a later INSERT of the same key is accepted (two live rows, same key) -/
theorem index_text_pk_counterexample :
    (delRollback (.text 7)).uidx.map (fun x => ixGet x.2 (.text 7)) = [none] ∧
    ((delRollback (.text 7)).insert [.text 7, .int 2]).2 = true ∧
    (((delRollback (.text 7)).insert [.text 7, .int 2]).1.live.map (fun x => cellAt x.2 0))
      = [.text 7, .text 7] := by decide

/-- the positive part: when the primary key is an integer equal to the row key and the entry was
removed (DELETE), the undo re-creates exactly the right entry -/
theorem index_restored_partial (p c : Nat) (ix : UIdx) (m : List (TKey × Rec)) (cnt : Nat)
    (key : TKey) (old : Rec) (pkv : Int) (v : Cell)
    (hpk : cellAt old p = .int pkv) (hrow : pkv.toNat = key.2)
    (hv : cellAt old c = v) (hnn : v ≠ .null) (habs : ixGet ix v = none) :
    (undoSide (some p) m (cnt, [(c, ix)]) { key := key, isInsert := false, undo := some old }).2
      = [(c, ix ++ [(v, key.2)])] := by
  simp only [undoSide, hpk, forUnique, List.map_cons, List.map_nil, hv]
  cases v with
  | null => exact absurd rfl hnn
  | int i => simp [ixIns, habs, hrow]
  | text t => simp [ixIns, habs, hrow]

example : ∃ old : Rec, cellAt old 0 = .int 3 ∧ cellAt old 0 ≠ .null := ⟨⟨false, false, [.int 3]⟩, by decide⟩

/-- **undo through page 1 after the root moved.**  Root has split: row keys ≥ 5 live outside
page 1.  A row inserted in a transaction gets key 7 (outside page 1); undoing the insert deletes
key 7 from page 1 only, so the row is still in the table. -/
theorem root_after_split_counterexample :
    let t0 : Tree Nat := { page1 := [((0, 1), 10)], rest := [((0, 5), 50)], sep := some 5 }
    let t1 := t0.put (0, 7) 70
    let t2 := t1.undoEntry { key := (0, 7), isInsert := true, undo := none }
    t2.get (0, 7) = some 70 ∧ t0.get (0, 7) = none := by decide

/-- same situation, undone UPDATE: the old value is inserted into page 1 while the new value
stays where the key really lives: the scan shows the key twice and the lookup the new value -/
theorem root_after_split_update_counterexample :
    let t0 : Tree Nat := { page1 := [((0, 1), 10)], rest := [((0, 5), 50)], sep := some 5 }
    let t1 := t0.put (0, 5) 51
    let t2 := t1.undoEntry { key := (0, 5), isInsert := false, undo := some 50 }
    t2.get (0, 5) = some 51 ∧ t2.scan.map (fun x => x.1) = [(0, 5), (0, 1), (0, 5)] := by decide

/-- as long as the root is page 1 the undo acts on the whole tree -/
theorem undo_root1_partial {α : Type} (t : Tree α) (h : t.sep = none) (e : Entry α) (k : TKey) :
    (t.undoEntry e).get k = fundo (fun k => t.get k) e k := by
  have h1 : ∀ k, t.inRest k = false := by intro k; simp [Tree.inRest, h]
  have h2 : ∀ k, (t.undoEntry e).inRest k = false := by intro k; simp [Tree.inRest, Tree.undoEntry, h]
  have h3 : (fun k => t.get k) = Undo.get t.page1 := by
    funext k; simp [Tree.get, h1]
  rw [h3]
  have h4 := h2 k
  simp only [Tree.undoEntry] at h4
  simp only [Tree.get, Tree.undoEntry, h4, Bool.false_eq_true, if_false, get_undoEntry]

/-- **savepoint names: the engine rolls back to the FIRST savepoint of a name** (the spec,
`rollback_to_most_recent`, and SQL go to the most recent one): after
`BEGIN; I1; SAVEPOINT s; I2; SAVEPOINT s; I3; ROLLBACK TO s` only the first insert is left. -/
theorem savepoint_shadow_counterexample :
    (run ({} : St Nat) [.begin, .insert 0 1, .savepoint "s", .insert 0 2, .savepoint "s",
      .insert 0 3, .rollbackTo "s"]).map.map (fun x => x.2) = [1] ∧
    (run ({} : St Nat) [.begin, .insert 0 1, .savepoint "s", .insert 0 2, .savepoint "s"]).map.length
      = 2 := by decide

def resIsErr : SqlDb.Res → Bool
  | .err _ => true
  | _ => false

/-- **RELEASE of an outer savepoint**: the spec (and SQL) destroy the later savepoints as well, the
engine removes one entry and keeps them: `ROLLBACK TO b` after `RELEASE a` is an error in the
spec and succeeds in the engine model. -/
theorem release_outer_counterexample :
    (step (run ({} : St Nat) [.begin, .savepoint "a", .insert 0 1, .savepoint "b", .insert 0 2,
      .release "a"]) (.rollbackTo "b")).2 = true ∧
    ((SqlDb.run {} [.begin, .savepoint "a", .savepoint "b", .release "a", .rollbackTo "b"]).2.map
      resIsErr) = [false, false, false, false, true] := by decide

end Counterexamples

end TurVerif.C07
