import TurVerif.Model.GroupCommit
import TurVerif.Lemmas.GroupCommitLive
import TurVerif.Lemmas.GroupCommitAck
/-!
C37  Group commit completes every commit exactly once.
M-code LTS model `TurVerif.GroupCommit` of GroupCommitQueue + the caller protocol of
`execute_small_commit`.

General theorems (every number of committers, every fault pattern `fails`, every schedule) are
proved from the inductive invariant `GroupCommit.Inv` (Lemmas/GroupCommit{,Inv,Live,Ack}.lean).
Notation: `pcAt s i = (s.threads[i]?).map (·.pc)`, `comp s i` / `err s i` = the completed / error
flag of commit `i` (default false).
-/
namespace TurVerif.C37
open TurVerif.GroupCommit

/-- A and B form the first batch (A leads). C submits while A is flushing. When A completes,
C elects itself leader and returns from `submit_and_wait`; B — a non-leader whose commit was
completed by A — also returns Ok and, like every committer, calls `take_pending()`: it drains
C's commit. C's own `take_pending()` then finds nothing and C reports success although its
payload has not been written (B is still holding it). -/
def cexSched : List Nat := [0, 1, 0, 1, 0, 0, 2, 2, 0, 0, 2, 1, 2]

theorem premature_ack_counterexample :
    let s := run (init [false, false, false]) cexSched
    (s.threads.map (·.pc))[2]? = some (.done true) ∧ s.log = [0, 1] ∧ ackImpliesLogged s = false := by
  decide

/-- same schedule, B's write then fails: B and nobody else learns of it; C keeps its success
and its payload is never logged -/
theorem failure_not_reported_counterexample :
    let s := run (init [false, true, false]) (cexSched ++ [1, 1, 1])
    quiescent s = true ∧ (s.threads.map (·.pc)) = [.done true, .done false, .done true] ∧
    s.log = [0, 1] := by
  decide

/-- the same three committers without the overlap (C arrives after B has finished): everything
is logged exactly once and acknowledged -/
theorem sequential_is_fine :
    let s := run (init [false, false, false]) [0, 1, 0, 1, 0, 0, 0, 0, 1, 2, 2, 2, 2, 2, 2]
    quiescent s = true ∧ ackImpliesLogged s = true ∧ logNodup s = true ∧ s.log = [0, 1, 2] ∧
    s.flushInProgress = false := by
  decide

/-! ### general theorems: all committer counts, all fault patterns, all schedules -/

/-- (1) EXACTLY-ONCE, upper half: no payload is written to the log twice. -/
theorem written_at_most_once (fails : List Bool) (sched : List Nat) :
    (run (init fails) sched).log.Nodup :=
  (inv_reachable fails sched).j2

/-- (1') a commit id is in at most one place: `pending` is duplicate-free and disjoint from the log
and from every owned batch; the batches about to be written are duplicate-free, disjoint from the
log and pairwise disjoint; an unsubmitted commit is nowhere. -/
theorem commit_in_one_place (fails : List Bool) (sched : List Nat) :
    let s := run (init fails) sched
    s.pending.Nodup ∧ (∀ a, a ∈ s.pending → a ∉ s.log) ∧
    (∀ j b a, (pcAt s j = some (.write b) ∨ (∃ ok, pcAt s j = some (.mark b ok)) ∨
        (∃ ok, pcAt s j = some (.clear b ok))) → a ∈ b → a ∉ s.pending) ∧
    (∀ j b, pcAt s j = some (.write b) → b.Nodup ∧ ∀ a, a ∈ b → a ∉ s.log) ∧
    (∀ i j bi bj, i ≠ j → pcAt s i = some (.write bi) → pcAt s j = some (.write bj) →
        ∀ a, a ∈ bi → a ∉ bj) ∧
    (∀ a, pcAt s a = some .start → a ∉ s.pending ∧ a ∉ s.log) := by
  intro s
  have i := inv_reachable fails sched
  refine ⟨i.j1, i.j4, ?_, i.j3, i.j5, fun a ha => ⟨(i.u a ha).1, (i.u a ha).2.1⟩⟩
  intro j b a hj ha
  rcases hj with h | ⟨ok, h⟩ | ⟨ok, h⟩
  · exact i.k.1 j b a h ha
  · exact i.k.2.1 j b ok a h ha
  · exact i.k.2.2 j b ok a h ha

/-- (2) NO STUCK FLAG: when every committer has returned, `flush_in_progress` is clear and nothing
is left pending. -/
theorem no_stuck_flag (fails : List Bool) (sched : List Nat) :
    let s := run (init fails) sched
    quiescent s = true → s.flushInProgress = false ∧ s.pending = [] := by
  intro s hq
  have i := inv_reachable fails sched
  have hd := (quiescent_iff s).mp hq
  have hp : s.pending = [] := by
    cases hpe : s.pending with
    | nil => rfl
    | cons a rest =>
      have ha : a ∈ s.pending := by rw [hpe]; exact List.mem_cons_self
      rcases i.g a ha with h | h | h <;> (obtain ⟨ok, e⟩ := hd a _ h; cases e)
  refine ⟨?_, hp⟩
  cases hf : s.flushInProgress with
  | false => rfl
  | true =>
    rcases i.f hf with ⟨j, pc, hj, ho⟩ | ⟨hne, _⟩
    · obtain ⟨ok, e⟩ := hd j pc hj
      subst e
      cases ho
    · exact (hne hp).elim

/-- (3a) NO LOST WAKE-UP: whenever a committer is blocked on the condition variable, some OTHER
thread owns a batch or is about to call `take_pending` — i.e. is on its way to `notify_all`.
(Stronger than required: threads at `start` / at the loop head are not needed as witnesses.) -/
theorem no_lost_wakeup (fails : List Bool) (sched : List Nat) (a : Nat) :
    let s := run (init fails) sched
    pcAt s a = some .condWait →
      ∃ j pc, j ≠ a ∧ pcAt s j = some pc ∧ willNotify pc = true :=
  fun ha => no_lost_wakeup_of_inv (inv_reachable fails sched) ha

/-- (3a') why a committer is blocked: its commit is pending while a flush is in progress, or it is
in a batch whose owner has not yet run `notify_all`. -/
theorem blocked_only_behind_a_flush (fails : List Bool) (sched : List Nat) (a : Nat) :
    let s := run (init fails) sched
    pcAt s a = some .condWait →
      (a ∈ s.pending ∧ s.flushInProgress = true) ∨
      (∃ j b, pcAt s j = some (.write b) ∧ a ∈ b) ∨
      (∃ j b ok, pcAt s j = some (.mark b ok) ∧ a ∈ b) ∨
      (∃ j b ok, pcAt s j = some (.clear b ok) ∧ a ∈ b) :=
  fun ha => blocked_cases (inv_reachable fails sched) ha

/-- (3b) NO DEADLOCK: in every reachable state in which some committer has not returned, some
thread has an enabled step. -/
theorem no_deadlock (fails : List Bool) (sched : List Nat) :
    let s := run (init fails) sched
    quiescent s = false → ∃ tid, (step s tid).isSome = true :=
  fun hq => progress_of_inv (inv_reachable fails sched) hq

/-- (3c) every enabled step strictly decreases the work measure (`n + k` per thread, `k` = rank of
its pc, `n` = number of threads: a `clear` step is worth `n + 1` and pays for the at most `n`
threads it sends back to the head of the wait loop). -/
theorem step_decreases_work (s s' : State) (tid : Nat) (hs : step s tid = some s') :
    workLeft s' < workLeft s := GroupCommit.step_decreases_work hs

/-- (3d) EVERY COMMIT COMPLETES: every reachable state can be extended (by at most `workLeft`
steps) to a state where every committer has returned, the flag is clear and nothing is pending.
With (3b) and (3c): EVERY maximal execution ends in such a state after at most `workLeft` steps. -/
theorem all_commits_complete (fails : List Bool) (sched : List Nat) :
    ∃ sched', let s := run (init fails) (sched ++ sched')
      quiescent s = true ∧ s.flushInProgress = false ∧ s.pending = [] ∧
      sched'.length ≤ workLeft (run (init fails) sched) := by
  obtain ⟨sched', h1, h2⟩ := completes_of_inv _ (inv_reachable fails sched) (Nat.le_refl _)
  refine ⟨sched', ?_, ?_, ?_, h2⟩
  · rw [run_append]; exact h1
  · have := no_stuck_flag fails (sched ++ sched')
    rw [run_append] at this ⊢
    exact (this h1).1
  · have := no_stuck_flag fails (sched ++ sched')
    rw [run_append] at this ⊢
    exact (this h1).2

/-- (4) FAILURE REACHES THE WAITING MEMBERS: when the owner `tid` of a batch whose write failed
marks it (`pc = mark b false`), every member `a` of the batch that is still inside the wait loop
(`waitLock` / `condWait`) — and the owner itself — can from then on only be in the wait loop, at the
owner's `clear` step, or returned with an ERROR; in particular it has returned the error whenever
the system is quiescent.
THE EXCEPTION (made explicit by the hypothesis): a member that is neither in the wait loop nor the
owner is a self-elected leader that already left `submit_and_wait` with `Ok(())` (`pc` = take /
write / mark / clear / done, see `fail_member_cases`); it never looks at its error flag again:
`failure_not_reported_counterexample`, `parked_leader_failure_not_reported_counterexample`. -/
theorem fail_reaches_waiting_members (fails : List Bool) (sched : List Nat) (tid : Nat)
    (b : List Nat) (a : Nat) (ext : List Nat) :
    let s := run (init fails) sched
    pcAt s tid = some (.mark b false) → a ∈ b →
    (pcAt s a = some .waitLock ∨ pcAt s a = some .condWait ∨ a = tid) →
    let s' := run s (tid :: ext)
    (pcAt s' a = some .waitLock ∨ pcAt s' a = some .condWait ∨
      (∃ b', pcAt s' a = some (.clear b' false)) ∨ pcAt s' a = some (.done false)) ∧
    (quiescent s' = true → pcAt s' a = some (.done false)) := by
  intro s hm ha hw s'
  have i := inv_reachable fails sched
  have hen : (step s tid).isSome = true := willNotify_enabled hm rfl
  cases hs : step s tid with
  | none => rw [hs] at hen; cases hen
  | some s1 =>
    have t1 : Told s1 a := told_of_mark i.len hs hm ha hw
    have t2 : Told s' a := by
      show Told (run s (tid :: ext)) a
      simp only [run, hs, Option.getD_some]
      exact told_run t1 ext
    refine ⟨t2.2.2, ?_⟩
    intro hq
    have hd := (quiescent_iff s').mp hq
    rcases t2.2.2 with h | h | ⟨b', h⟩ | h
    · obtain ⟨ok, e⟩ := hd a _ h; cases e
    · obtain ⟨ok, e⟩ := hd a _ h; cases e
    · obtain ⟨ok, e⟩ := hd a _ h; cases e
    · exact h

/-- (4') the members of a batch that is being marked: inside the wait loop, the owner itself, or
past the loop (self-elected leaders: take / write / mark / clear of ANOTHER batch / returned). -/
theorem fail_member_cases (fails : List Bool) (sched : List Nat) (tid : Nat) (b : List Nat)
    (ok : Bool) (a : Nat) (pc : Pc) :
    let s := run (init fails) sched
    pcAt s tid = some (.mark b ok) → a ∈ b → pcAt s a = some pc →
    pc = .waitLock ∨ pc = .condWait ∨ a = tid ∨
      (a ≠ tid ∧ (pc = .take ∨ isOwner pc = true ∨ ∃ r, pc = .done r)) := by
  intro s hm ha hp
  have i := inv_reachable fails sched
  by_cases e : a = tid
  · exact Or.inr (Or.inr (Or.inl e))
  · cases pc with
    | start => exact ((i.u a hp).2.2.2.2.1 tid b ok hm ha).elim
    | waitLock => exact Or.inl rfl
    | condWait => exact Or.inr (Or.inl rfl)
    | take => exact Or.inr (Or.inr (Or.inr ⟨e, Or.inl rfl⟩))
    | write _ => exact Or.inr (Or.inr (Or.inr ⟨e, Or.inr (Or.inl rfl)⟩))
    | mark _ _ => exact Or.inr (Or.inr (Or.inr ⟨e, Or.inr (Or.inl rfl)⟩))
    | clear _ _ => exact Or.inr (Or.inr (Or.inr ⟨e, Or.inr (Or.inl rfl)⟩))
    | done r => exact Or.inr (Or.inr (Or.inr ⟨e, Or.inr (Or.inr ⟨r, rfl⟩)⟩))

/-- (5) ACK IMPLIES LOGGED, exact characterisation of the exceptions.  If committer `a` has been
told "success" and its payload is not in the log, then
  (i)  `a` ELECTED ITSELF leader: at some point of the schedule it was at the head of the wait loop
       with its commit not completed, no flush in progress and something pending, and so left
       `submit_and_wait` with `Ok(())` without its commit having been completed, and
  (ii) its commit is held, still unwritten, in the batch of ANOTHER thread `j ≠ a` (`write b` or
       `mark b false`), or has been failed (`err`).
Every other path is safe: a committer released by completion (`completed ∧ ¬error`) is in the log
(`ack_logged_unless_self_elected`), and so is a leader that drains its own commit.
NOTE: the conjectured sharper form "…its commit was drained by another thread's `take` WHILE IT WAS
ITSELF AT `take`" is FALSE of the model and of the code: `ack_drained_while_parked_counterexample`
(the commit can be drained while its committer is parked on the condition variable; the committer
then elects itself when a third thread clears `flush_in_progress`). -/
theorem ack_implies_logged_partial (fails : List Bool) (sched : List Nat) (a : Nat) :
    let s := run (init fails) sched
    pcAt s a = some (.done true) → a ∉ s.log →
    (∃ pre post, sched = pre ++ a :: post ∧ electsAt (run (init fails) pre) a = true) ∧
    ((∃ j b, j ≠ a ∧ pcAt s j = some (.write b) ∧ a ∈ b) ∨
     (∃ j b, j ≠ a ∧ pcAt s j = some (.mark b false) ∧ a ∈ b) ∨ err s a = true) := by
  intro s hd hl
  exact ⟨(mem_elected_iff _ _ _).mp (ack_unlogged_elected fails sched a hd hl),
    ack_unlogged_held (inv_reachable fails sched) hd hl⟩

/-- (5') contrapositive: a committer that never elected itself and is told "success" is logged. -/
theorem ack_logged_unless_self_elected (fails : List Bool) (sched : List Nat) (a : Nat) :
    let s := run (init fails) sched
    (∀ pre post, sched = pre ++ a :: post → electsAt (run (init fails) pre) a = false) →
    pcAt s a = some (.done true) → a ∈ s.log := by
  intro s hne hd
  apply Classical.byContradiction
  intro hl
  obtain ⟨⟨pre, post, h1, h2⟩, _⟩ := ack_implies_logged_partial fails sched a hd hl
  rw [hne pre post h1] at h2
  cases h2

/-- (5'') completed without error means logged (the path of every non-leader). -/
theorem completed_ok_is_logged (fails : List Bool) (sched : List Nat) (a : Nat) :
    let s := run (init fails) sched
    comp s a = true → err s a = false → a ∈ s.log :=
  (inv_reachable fails sched).l a

/-- (6) NO COMMIT IS LOST: when every committer has returned, every commit is in the log or has
its error flag set. -/
theorem no_commit_lost (fails : List Bool) (sched : List Nat) (a : Nat) :
    let s := run (init fails) sched
    quiescent s = true → a < fails.length → a ∈ s.log ∨ err s a = true := by
  intro s hq ha
  have i := inv_reachable fails sched
  have hd := (quiescent_iff s).mp hq
  have hp := (no_stuck_flag fails sched hq).2
  cases hpc : pcAt s a with
  | none =>
    have := (pcAt_none_run (init fails) sched a).mp hpc
    rw [pcAt_init_none] at this
    omega
  | some pc =>
    obtain ⟨ok, rfl⟩ := hd a pc hpc
    rcases i.life a _ hpc (fun e => nomatch e) with h | ⟨j, b, hj, _⟩ | ⟨j, b, hj, _⟩ | h | h
    · rw [hp] at h; cases h
    · obtain ⟨ok', e⟩ := hd j _ hj; cases e
    · obtain ⟨ok', e⟩ := hd j _ hj; cases e
    · exact Or.inl h
    · exact Or.inr h

/-- (7) EXACTLY ONCE when no write fails: when every committer has returned, the log is a
permutation of the committed ids `0 … n-1` — every payload was written, and written once (even
though individual acknowledgements may have been premature). -/
theorem exactly_once_without_failures (fails : List Bool) (sched : List Nat)
    (hnf : ∀ f ∈ fails, f = false) :
    let s := run (init fails) sched
    quiescent s = true → s.log.Perm (List.range fails.length) := by
  intro s hq
  have i := inv_reachable fails sched
  rw [List.perm_ext_iff_of_nodup i.j2 List.nodup_range]
  intro a
  rw [List.mem_range]
  constructor
  · intro ha
    have h1 := i.v.2.1 a ha
    have h2 : ¬ pcAt (init fails) a = none := fun h => h1 ((pcAt_none_run _ sched a).mpr h)
    rw [pcAt_init_none] at h2
    omega
  · intro ha
    rcases no_commit_lost fails sched a hq ha with h | h
    · exact h
    · obtain ⟨j, hj⟩ := i.er a h
      rw [fw_run, fw_init] at hj
      have hlt : j < fails.length := by
        rcases Nat.lt_or_ge j fails.length with hl | hl
        · exact hl
        · simp [List.getD_eq_getElem?_getD, List.getElem?_eq_none hl] at hj
      have hm : fails[j] ∈ fails := List.getElem_mem hlt
      have hz := hnf _ hm
      rw [List.getD_eq_getElem?_getD, List.getElem?_eq_getElem hlt, Option.getD_some, hz] at hj
      cases hj

/-! ### a second route to the premature acknowledgement (new counterexample) -/

/-- five committers A..E = 0..4.  A leads {A,B}; C submits and parks; A finishes: B (completed) goes
on to `take_pending`, C is back at the loop head.  C elects itself and drains {C}; D submits and
PARKS on the condition variable (C's flush is in progress).  B — a non-leader — now runs its
`take_pending` and drains D's commit.  C finishes: `flush_in_progress := false`, D is woken, not
completed.  E submits.  D, at the loop head, sees no flush in progress and a pending commit (E's):
it elects itself, drains {E}, writes it and reports SUCCESS — while its own commit is still sitting
unwritten in B's batch. -/
def parkedSched : List Nat :=
  [0, 1, 0, 1, 0, 0, 2, 2, 0, 0, 2, 2, 3, 3, 1, 2, 2, 2, 4, 3, 3, 3, 3, 3]

/-- D's commit is drained by B while D is blocked on the condition variable (not at `take`), and D
is nevertheless told "success" without being in the log. -/
theorem ack_drained_while_parked_counterexample :
    let s0 := run (init [false, false, false, false, false]) (parkedSched.take 14)
    let s1 := run s0 [1]
    let s := run (init [false, false, false, false, false]) parkedSched
    s0.pending = [3] ∧ pcAt s0 3 = some .condWait ∧ pcAt s0 1 = some .take ∧
    pcAt s1 1 = some (.write [3]) ∧ pcAt s1 3 = some .condWait ∧
    pcAt s 3 = some (.done true) ∧ s.log = [0, 1, 2, 4] ∧ pcAt s 1 = some (.write [3]) ∧
    ackImpliesLogged s = false := by
  decide

/-- same schedule, B's write then fails: D keeps its success, is never logged, and everybody has
returned. -/
theorem parked_leader_failure_not_reported_counterexample :
    let s := run (init [false, true, false, false, false]) (parkedSched ++ [1, 1, 1, 4, 4])
    quiescent s = true ∧
    (s.threads.map (·.pc)) = [.done true, .done false, .done true, .done true, .done true] ∧
    s.log = [0, 1, 2, 4] ∧ err s 3 = true := by
  decide

/-! ### sanity: hypotheses are satisfiable -/

/-- non-vacuity of `fail_reaches_waiting_members`: B parked behind leader A whose write fails -/
example :
    let s := run (init [true, false]) [0, 1, 0, 1, 0, 0]
    pcAt s 0 = some (.mark [0, 1] false) ∧ pcAt s 1 = some .condWait ∧
    (run s [0, 0]).threads.map (·.pc) = [.done false, .done false] := by decide

/-- non-vacuity of `no_lost_wakeup` / `blocked_only_behind_a_flush` -/
example :
    let s := run (init [false, false]) [0, 1, 0, 1]
    pcAt s 1 = some .condWait ∧ pcAt s 0 = some .take ∧ s.flushInProgress = true := by decide

/-- non-vacuity of `ack_implies_logged_partial` (i): C elects itself at step 10 of `cexSched` -/
example : electsAt (run (init [false, false, false]) (cexSched.take 10)) 2 = true := by decide

end TurVerif.C37
