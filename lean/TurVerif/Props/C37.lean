import TurVerif.Model.GroupCommit
/-!
C37  Group commit completes every commit exactly once.
M-code LTS model `TurVerif.GroupCommit` of GroupCommitQueue + the caller protocol of
`execute_small_commit`.
-/
namespace TurVerif.C37
open TurVerif.GroupCommit

/-- A and B form the first batch (A leads). C submits while A is flushing. When A completes,
C elects itself leader and returns from `submit_and_wait`; B — a non-leader whose commit was
completed by A — also returns Ok and, like every committer, calls `take_pending()`: it drains
C's commit. C's own `take_pending()` then finds nothing and C reports success although its
payload has not been written (B is still holding it). -/
def cexSched : List Nat := [0, 1, 0, 1, 0, 0, 2, 2, 0, 0, 2, 1, 2]

theorem premature_ack_counterexample :
    let s := run (init [false, false, false]) cexSched
    (s.threads.map (·.pc))[2]? = some (.done true) ∧ s.log = [0, 1] ∧ ackImpliesLogged s = false := by
  decide

/-- same schedule, B's write then fails: B and nobody else learns of it; C keeps its success
and its payload is never logged -/
theorem failure_not_reported_counterexample :
    let s := run (init [false, true, false]) (cexSched ++ [1, 1, 1])
    quiescent s = true ∧ (s.threads.map (·.pc)) = [.done true, .done false, .done true] ∧
    s.log = [0, 1] := by
  decide

/-- the same three committers without the overlap (C arrives after B has finished): everything
is logged exactly once and acknowledged -/
theorem sequential_is_fine :
    let s := run (init [false, false, false]) [0, 1, 0, 1, 0, 0, 0, 0, 1, 2, 2, 2, 2, 2, 2]
    quiescent s = true ∧ ackImpliesLogged s = true ∧ logNodup s = true ∧ s.log = [0, 1, 2] ∧
    s.flushInProgress = false := by
  decide

end TurVerif.C37
