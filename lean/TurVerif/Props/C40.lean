import TurVerif.Model.Catalog
import TurVerif.Lemmas.Catalog
/-!
C40  Catalog persistence round-trips and survives crashes during DDL.

Theorems about `TurVerif.Catalog` (transcribed from src/schema/persistence.rs).
* `deserialize_serialize`: for every well-formed catalog (names/defaults/CHECK texts shorter than
  2^16 bytes, list lengths within their count fields, ids within their widths, a data-type byte the
  decoder knows, referential-action codes ≤ 5) `deserialize (serialize c) = some c`.
* `load_fileOf`: the file written by `save` (header + body) loads back to the same catalog.
* `save_crash_counterexample`: the pinned `save` rewrites the file in place; two of its four
  intermediate file contents (after the truncate, after the header) do not load although the old file
  did — reproduced on the real code (`crash:(kill|power):ddl:cat_(create|header):open-error`).
* `save_atomic`: with the temp-file + rename protocol of fix_catalog_save.patch every intermediate
  content of `turdb.catalog` is the old or the new file, hence loads to the old or the new catalog.
-/
namespace TurVerif.C40
open TurVerif.Catalog

/-! ### well-formedness (the ranges the format can represent) -/

def wfStr (s : Bytes) : Prop := s.length < 65536

def wfConstraint : Constraint → Prop
  | .foreignKey t c od ou => wfStr t ∧ wfStr c ∧ od ≤ 5 ∧ ou ≤ 5
  | .check e => wfStr e
  | _ => True

structure wfColumn (c : Column) : Prop where
  name : wfStr c.name
  ty : validType c.dataType = true
  ncons : c.constraints.length < 65536
  cons : ∀ k ∈ c.constraints, wfConstraint k
  dflt : ∀ d, c.dflt = some d → wfStr d
  maxLen : ∀ m, c.maxLen = some m → m < 256 ^ 4

structure wfIndex (i : Index) : Prop where
  name : wfStr i.name
  ncols : i.cols.length < 65536
  cols : ∀ c ∈ i.cols, wfStr c.name ∧ c.isExpr = false
  noWhere : i.whereClause = none

structure wfTable (t : Table) : Prop where
  id : t.id < 256 ^ 8
  name : wfStr t.name
  ncols : t.columns.length < 256 ^ 4
  cols : ∀ c ∈ t.columns, wfColumn c
  pk : ∀ l, t.pk = some l → l.length < 65536 ∧ ∀ s ∈ l, wfStr s
  nidx : t.indexes.length < 256 ^ 4
  idx : ∀ i ∈ t.indexes, wfIndex i
  toast : ∀ x, t.toast = some x → x < 256 ^ 8

structure wfSchema (s : Schema) : Prop where
  id : s.id < 256 ^ 4
  name : wfStr s.name
  ntab : s.tables.length < 256 ^ 4
  tabs : ∀ t ∈ s.tables, wfTable t

/-! ### helper lemmas: one round trip per level -/

theorem rd_constraint (k : Constraint) (r : Bytes) (h : wfConstraint k) :
    rdConstraint (encConstraint k ++ r) = some (k, r) := by
  cases k with
  | foreignKey t c od ou =>
    obtain ⟨h1, h2, h3, h4⟩ := h
    simp [rdConstraint, encConstraint, rdByte, List.append_assoc, rdStr_enc _ _ h1, rdStr_enc _ _ h2,
      decAction, h3, h4]
  | check e =>
    simp [rdConstraint, encConstraint, rdByte, List.append_assoc, rdStr_enc _ _ h]
  | _ => simp [rdConstraint, encConstraint, rdByte]

theorem rd_column (c : Column) (r : Bytes) (h : wfColumn c) :
    rdColumn (encColumn c ++ r) = some (c, r) := by
  obtain ⟨name, ty, constraints, dflt, maxLen⟩ := c
  have hn : constraints.length < 256 ^ 2 := by simpa using h.ncons
  have hm := rdMany_flatMap rdConstraint encConstraint constraints
    (fun k hk r => rd_constraint k r (h.cons k hk))
  cases dflt with
  | none =>
    cases maxLen with
    | none =>
      simp [rdColumn, encColumn, rdByte, List.append_assoc, rdStr_enc _ _ h.name, h.ty, rdLe_le 2 _ _ hn, hm]
    | some m =>
      have hml := h.maxLen m rfl
      simp [rdColumn, encColumn, rdByte, List.append_assoc, rdStr_enc _ _ h.name, h.ty, rdLe_le 2 _ _ hn, hm,
        rdLe_le 4 m _ hml]
  | some d =>
    have hd := h.dflt d rfl
    cases maxLen with
    | none =>
      simp [rdColumn, encColumn, rdByte, List.append_assoc, rdStr_enc _ _ h.name, h.ty, rdLe_le 2 _ _ hn, hm,
        rdStr_enc _ _ hd]
    | some m =>
      have hml := h.maxLen m rfl
      simp [rdColumn, encColumn, rdByte, List.append_assoc, rdStr_enc _ _ h.name, h.ty, rdLe_le 2 _ _ hn, hm,
        rdStr_enc _ _ hd, rdLe_le 4 m _ hml]

theorem rd_indexCol (c : IndexCol) (r : Bytes) (h : wfStr c.name ∧ c.isExpr = false) :
    rdIndexCol (encIndexCol c ++ r) = some (c, r) := by
  obtain ⟨name, isExpr, desc⟩ := c
  obtain ⟨h1, h2⟩ := h
  simp only at h2
  subst h2
  cases desc <;> simp [rdIndexCol, encIndexCol, rdByte, List.append_assoc, rdStr_enc _ _ h1, flag]

theorem rd_index (i : Index) (r : Bytes) (h : wfIndex i) : rdIndex (encIndex i ++ r) = some (i, r) := by
  obtain ⟨name, cols, unique, hnsw, whereClause⟩ := i
  have hw := h.noWhere
  simp only at hw
  subst hw
  have hn : cols.length < 256 ^ 2 := by simpa using h.ncols
  have hm := rdMany_flatMap rdIndexCol encIndexCol cols (fun c hc r => rd_indexCol c r (h.cols c hc))
  cases unique <;> cases hnsw <;>
    simp [rdIndex, encIndex, rdByte, List.append_assoc, rdStr_enc _ _ h.name, rdLe_le 2 _ _ hn, hm, flag]

theorem rd_table (t : Table) (r : Bytes) (h : wfTable t) : rdTable (encTable t ++ r) = some (t, r) := by
  obtain ⟨id, name, columns, pk, indexes, toast⟩ := t
  have hc := rdMany_flatMap rdColumn encColumn columns (fun c hc r => rd_column c r (h.cols c hc))
  have hi := rdMany_flatMap rdIndex encIndex indexes (fun i hi r => rd_index i r (h.idx i hi))
  have hnc := h.ncols
  have hni := h.nidx
  have hid := h.id
  have toastCase : ∀ (r8 : Bytes),
      (match r8 = (match toast with | some x => [1] ++ le x 8 | none => [0]) ++ r with | _ => True) := by
    intro _; trivial
  cases pk with
  | none =>
    cases toast with
    | none =>
      simp [rdTable, encTable, rdByte, List.append_assoc, rdLe_le 8 _ _ hid, rdStr_enc _ _ h.name,
        rdLe_le 4 _ _ hnc, hc, rdLe_le 4 _ _ hni, hi]
    | some x =>
      have hx := h.toast x rfl
      simp [rdTable, encTable, rdByte, List.append_assoc, rdLe_le 8 _ _ hid, rdStr_enc _ _ h.name,
        rdLe_le 4 _ _ hnc, hc, rdLe_le 4 _ _ hni, hi, length_le, leVal_le 8 x hx,
        take_app (le x 8) r, drop_app (le x 8) r]
  | some l =>
    obtain ⟨hl, hls⟩ := h.pk l rfl
    have hl2 : l.length < 256 ^ 2 := by simpa using hl
    have hp := rdMany_flatMap rdStr encStr l (fun s hs r => rdStr_enc s r (hls s hs))
    cases toast with
    | none =>
      simp [rdTable, encTable, rdByte, List.append_assoc, rdLe_le 8 _ _ hid, rdStr_enc _ _ h.name,
        rdLe_le 4 _ _ hnc, hc, rdLe_le 4 _ _ hni, hi, rdLe_le 2 _ _ hl2, hp]
    | some x =>
      have hx := h.toast x rfl
      simp [rdTable, encTable, rdByte, List.append_assoc, rdLe_le 8 _ _ hid, rdStr_enc _ _ h.name,
        rdLe_le 4 _ _ hnc, hc, rdLe_le 4 _ _ hni, hi, rdLe_le 2 _ _ hl2, hp, length_le]
      have h8 := take_app (le x 8) r
      have d8 := drop_app (le x 8) r
      rw [length_le] at h8 d8
      simp [h8, d8, leVal_le 8 x hx]

theorem rd_schema (s : Schema) (r : Bytes) (h : wfSchema s) : rdSchema (encSchema s ++ r) = some (s, r) := by
  obtain ⟨id, name, tables⟩ := s
  have ht := rdMany_flatMap rdTable encTable tables (fun t ht r => rd_table t r (h.tabs t ht))
  simp [rdSchema, encSchema, List.append_assoc, rdLe_le 4 _ _ h.id, rdStr_enc _ _ h.name,
    rdLe_le 4 _ _ h.ntab, ht]

theorem encSchema_ne_nil (s : Schema) : encSchema s ≠ [] := by
  simp [encSchema, le]

theorem deserializeAux_serialize (c : List Schema) (h : ∀ s ∈ c, wfSchema s) :
    ∀ fuel, c.length ≤ fuel → deserializeAux fuel (serialize c) = some c := by
  induction c with
  | nil => intro fuel _; cases fuel <;> simp [deserializeAux, serialize]
  | cons s c ih =>
    intro fuel hf
    cases fuel with
    | zero => simp at hf
    | succ fuel =>
      have hs := rd_schema s (serialize c) (h s (by simp))
      have hne : (serialize (s :: c)).isEmpty = false := by
        simp [serialize, List.flatMap_cons, encSchema_ne_nil]
      have ih' := ih (fun x hx => h x (by simp [hx])) fuel (by simpa using hf)
      simp only [deserializeAux, hne]
      simp only [serialize, List.flatMap_cons] at hs ih' ⊢
      simp [hs, ih']

theorem serialize_length_ge (c : List Schema) : c.length ≤ (serialize c).length := by
  induction c with
  | nil => simp [serialize]
  | cons s c ih =>
    have : 1 ≤ (encSchema s).length := by
      cases hs : encSchema s with
      | nil => exact absurd hs (encSchema_ne_nil s)
      | cons _ _ => simp
    simp only [serialize, List.flatMap_cons, List.length_append, List.length_cons] at ih ⊢
    omega

/-! ### property theorems -/

/-- the catalog codec round-trips every catalog the format can represent -/
theorem deserialize_serialize (c : List Schema) (h : ∀ s ∈ c, wfSchema s) :
    deserialize (serialize c) = some c :=
  deserializeAux_serialize c h _ (serialize_length_ge c)

/-- non-vacuity: a catalog with a table using every construct is well formed and round-trips -/
def sample : List Schema :=
  [{ id := 1, name := [114], tables :=
      [{ id := 3, name := [116], pk := some [[105]], toast := some 4,
         columns := [{ name := [105], dataType := 2, constraints := [.primaryKey, .notNull], dflt := none, maxLen := none },
                     { name := [118], dataType := 24, constraints := [.check [62], .foreignKey [117] [107] 1 0],
                       dflt := some [100], maxLen := some 20 }],
         indexes := [{ name := [120], cols := [{ name := [118], desc := true }], unique := true, hnsw := false }] }] }]

example : deserialize (serialize sample) = some sample := by decide

/-- the format has no room for expression index columns (written as the empty column name) nor for
the predicate of a partial index: such catalogs do NOT round-trip (reproduced on the real code:
`catalog-rt:expression-index-column-lost`, `catalog-rt:partial-index-predicate-lost`) -/
theorem expression_index_counterexample :
    let ix : Index := { name := [120], cols := [{ name := [97, 43, 49], isExpr := true, desc := false }],
                        unique := false, hnsw := false }
    let c : List Schema := [{ id := 0, name := [114], tables :=
      [{ id := 3, name := [116], columns := [], pk := none, indexes := [ix], toast := none }] }]
    deserialize (serialize c) ≠ some c ∧ (deserialize (serialize c)).isSome = true := by decide

theorem partial_index_counterexample :
    let ix : Index := { name := [120], cols := [{ name := [97], desc := false }], unique := false, hnsw := false,
                        whereClause := some [97, 62, 48] }
    let c : List Schema := [{ id := 0, name := [114], tables :=
      [{ id := 3, name := [116], columns := [], pk := none, indexes := [ix], toast := none }] }]
    deserialize (serialize c) ≠ some c ∧ (deserialize (serialize c)).isSome = true := by decide

/-- the file `save` writes loads back to the catalog it was written from -/
theorem load_fileOf (c : List Schema) (dflt : Nat) (h : ∀ s ∈ c, wfSchema s)
    (hlen : (serialize c).length < 256 ^ 8) : load (fileOf c dflt) = some c := by
  have hhdr : (header c.length dflt (serialize c).length).length = 128 := by
    simp [header, magic, length_le, zeros]
  have e1 : (fileOf c dflt).take 16 = magic := by simp [fileOf, header, magic]
  have e2 : leVal (((fileOf c dflt).drop 16).take 4) = 1 := by
    simp [fileOf, header, magic, le, leVal]
  have split : fileOf c dflt =
      (magic ++ le 1 4 ++ le 16384 4 ++ le c.length 8 ++ le dflt 8 ++ zeros 24) ++
        (le 128 8 ++ (le (serialize c).length 8 ++ (zeros 48 ++ serialize c))) := by
    simp [fileOf, header, List.append_assoc]
  have l64 : (magic ++ le 1 4 ++ le 16384 4 ++ le c.length 8 ++ le dflt 8 ++ zeros 24).length = 64 := by
    simp [magic, length_le, zeros]
  have e3 : leVal (((fileOf c dflt).drop 64).take 8) = 128 := by
    rw [split, ← l64, drop_app]
    have := take_app (le 128 8) (le (serialize c).length 8 ++ (zeros 48 ++ serialize c))
    rw [length_le] at this
    rw [this]; decide
  have split2 : fileOf c dflt =
      (magic ++ le 1 4 ++ le 16384 4 ++ le c.length 8 ++ le dflt 8 ++ zeros 24 ++ le 128 8) ++
        (le (serialize c).length 8 ++ (zeros 48 ++ serialize c)) := by
    simp [fileOf, header, List.append_assoc]
  have l72 : (magic ++ le 1 4 ++ le 16384 4 ++ le c.length 8 ++ le dflt 8 ++ zeros 24 ++ le 128 8).length = 72 := by
    simp [magic, length_le, zeros]
  have e4 : leVal (((fileOf c dflt).drop 72).take 8) = (serialize c).length := by
    rw [split2, ← l72, drop_app]
    have := take_app (le (serialize c).length 8) (zeros 48 ++ serialize c)
    rw [length_le] at this
    rw [this, leVal_le 8 _ hlen]
  have e5 : (fileOf c dflt).drop 128 = serialize c := by
    have := drop_app (header c.length dflt (serialize c).length) (serialize c)
    rw [hhdr] at this
    simpa [fileOf] using this
  have hl : ¬ (fileOf c dflt).length < 128 := by
    simp [fileOf, List.length_append, hhdr]
  have hrd : rdN (serialize c).length (serialize c) = some (serialize c, []) := by
    have := rdN_app (serialize c) []
    simpa using this
  simp only [load, hl, if_false, e1, e2, e3, e4, e5, hrd, ne_eq, not_true_eq_false]
  exact deserialize_serialize c h

set_option maxRecDepth 100000 in
/-- the pinned in-place `save`: a crash after the truncate or after the header write leaves a file
that does not load — every table of the old catalog is lost although the old file loaded fine. -/
theorem save_crash_counterexample :
    let old := fileOf sample 1
    let newc := sample ++ [{ id := 2, name := [115], tables := [] }]
    load old = some sample ∧
    (∃ st ∈ saveStates old newc 1, load st = none) ∧
    load ((saveStates old newc 1)[1]!) = none ∧ load ((saveStates old newc 1)[2]!) = none := by
  refine ⟨by decide, ⟨[], by simp [saveStates], by decide⟩, by decide, by decide⟩

/-- temp-file + rename: whatever the crash point, `turdb.catalog` is the complete old or the complete
new file, so `load` gives the old or the new catalog -/
theorem save_atomic (old : Bytes) (c : List Schema) (dflt : Nat) :
    ∀ st ∈ saveStatesFixed old c dflt, load st = load old ∨ load st = load (fileOf c dflt) := by
  intro st hst
  simp only [saveStatesFixed, List.mem_cons, List.not_mem_nil, or_false] at hst
  rcases hst with h | h | h | h | h <;> simp [h]

/-- two different representable catalogs never share an encoding (no information is merged by
`serialize`) -/
theorem serialize_injective (c1 c2 : List Schema) (h1 : ∀ s ∈ c1, wfSchema s)
    (h2 : ∀ s ∈ c2, wfSchema s) (h : serialize c1 = serialize c2) : c1 = c2 := by
  have e1 := deserialize_serialize c1 h1
  have e2 := deserialize_serialize c2 h2
  rw [h, e2] at e1
  exact (Option.some.inj e1).symm

/-- end-to-end crash statement for the repaired `save`: starting from a file written for a
representable catalog `c0`, a crash at any step of saving a representable `c` leaves a file that
loads to exactly `c0` or exactly `c` — no table or index of `c0` is ever lost -/
theorem save_crash_safe (c0 c : List Schema) (d0 dflt : Nat)
    (h0 : ∀ s ∈ c0, wfSchema s) (hc : ∀ s ∈ c, wfSchema s)
    (hl0 : (serialize c0).length < 256 ^ 8) (hlc : (serialize c).length < 256 ^ 8) :
    ∀ st ∈ saveStatesFixed (fileOf c0 d0) c dflt, load st = some c0 ∨ load st = some c := by
  intro st hst
  rcases save_atomic (fileOf c0 d0) c dflt st hst with h | h
  · left; rw [h]; exact load_fileOf c0 d0 h0 hl0
  · right; rw [h]; exact load_fileOf c dflt hc hlc

end TurVerif.C40
