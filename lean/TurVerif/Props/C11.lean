import TurVerif.Model.Toast
/-!
C11  Every stored value reads back unchanged — the TOAST link of the chain.
Theorems about the M-code model `TurVerif.Toast` (src/storage/toast.rs, src/database/toast.rs,
the toasting loop of src/database/dml/insert.rs, `OwnedValue::from_record_column`,
`Database::detoast_rows`).
-/
namespace TurVerif.C11
open TurVerif.Toast

/-! ### helper lemmas: chunking -/

theorem chunksF_flatten (n : Nat) (hn : 0 < n) :
    ∀ (f : Nat) (l : List Nat), l.length ≤ f → (chunksF n f l).flatten = l := by
  intro f
  induction f with
  | zero => intro l h; have : l = [] := List.length_eq_zero_iff.mp (by omega); subst this; simp [chunksF]
  | succ f ih =>
    intro l h
    unfold chunksF
    by_cases he : l.isEmpty
    · simp [he, List.isEmpty_iff.mp he]
    · simp only [he, Bool.false_eq_true, if_false, List.flatten_cons]
      have hl : 0 < l.length := by
        cases l with
        | nil => simp at he
        | cons a t => simp
      rw [ih (l.drop n) (by simp [List.length_drop]; omega)]
      exact List.take_append_drop n l

theorem chunksF_length (n : Nat) (hn : 0 < n) :
    ∀ (f : Nat) (l : List Nat), l.length ≤ f → (chunksF n f l).length = (l.length + (n - 1)) / n := by
  intro f
  induction f with
  | zero =>
    intro l h
    have : l = [] := List.length_eq_zero_iff.mp (by omega)
    subst this
    simp [chunksF]
    exact (Nat.div_eq_of_lt (by omega)).symm
  | succ f ih =>
    intro l h
    unfold chunksF
    by_cases he : l.isEmpty
    · have : l = [] := List.isEmpty_iff.mp he
      subst this
      simp
      exact (Nat.div_eq_of_lt (by omega)).symm
    · simp only [he, Bool.false_eq_true, if_false, List.length_cons]
      have hl : 0 < l.length := by
        cases l with
        | nil => simp at he
        | cons a t => simp
      rw [ih (l.drop n) (by simp [List.length_drop]; omega)]
      simp only [List.length_drop]
      by_cases hle : l.length ≤ n
      · have h0 : l.length - n = 0 := by omega
        rw [h0]
        have e1 : (0 + (n - 1)) / n = 0 := Nat.div_eq_of_lt (by omega)
        have e2 : (l.length + (n - 1)) / n = 1 := by
          apply Nat.div_eq_of_lt_le <;> omega
        omega
      · have e : l.length + (n - 1) = (l.length - n + (n - 1)) + n := by omega
        rw [e, Nat.add_div_right _ hn]

theorem chunksF_all_le (n : Nat) (hn : 0 < n) :
    ∀ (f : Nat) (l : List Nat), ∀ c ∈ chunksF n f l, c.length ≤ n ∧ c ≠ [] := by
  intro f
  induction f with
  | zero => intro l c hc; simp [chunksF] at hc
  | succ f ih =>
    intro l c hc
    unfold chunksF at hc
    by_cases he : l.isEmpty
    · simp [he] at hc
    · simp only [he, Bool.false_eq_true, if_false, List.mem_cons] at hc
      rcases hc with rfl | hc
      · constructor
        · simp [List.length_take]; omega
        · intro h
          have hl : l ≠ [] := by intro h'; simp [h'] at he
          cases l with
          | nil => exact hl rfl
          | cons a t =>
            cases n with
            | zero => omega
            | succ m => simp at h
      · exact ih _ c hc

/-! ### helper lemmas: byte codecs -/

theorem leVal_leBytes (k : Nat) : ∀ v : Nat, leVal (leBytes k v) = v % 256 ^ k := by
  induction k with
  | zero => intro v; simp [leBytes, leVal, Nat.mod_one]
  | succ k ih =>
    intro v
    simp only [leBytes, leVal, ih]
    rw [Nat.pow_succ', Nat.mod_mul]

theorem leBytes_length (k : Nat) : ∀ v : Nat, (leBytes k v).length = k := by
  induction k with
  | zero => intro v; simp [leBytes]
  | succ k ih => intro v; simp [leBytes, ih]

theorem leBytes_injective (k : Nat) (a b : Nat) (ha : a < 256 ^ k) (hb : b < 256 ^ k)
    (h : leBytes k a = leBytes k b) : a = b := by
  have := congrArg leVal h
  rw [leVal_leBytes, leVal_leBytes, Nat.mod_eq_of_lt ha, Nat.mod_eq_of_lt hb] at this
  exact this

/-! ### helper lemmas: the chunk store -/

theorem get_insertChunks_lt (cid : Nat) :
    ∀ (cs : List (List Nat)) (j : Nat) (st st' : Store) (i : Nat),
      insertChunks cid j cs st = some st' → i < j → st'.get (cid, i) = st.get (cid, i) := by
  intro cs
  induction cs with
  | nil => intro j st st' i h _; simp [insertChunks] at h; subst h; rfl
  | cons c cs ih =>
    intro j st st' i h hij
    simp only [insertChunks, Store.insert] at h
    cases hg : st.get (cid, j) with
    | some x => simp [hg] at h
    | none =>
      simp only [hg] at h
      rw [ih (j + 1) _ st' i h (by omega)]
      have : ¬ ((cid, j) = (cid, i)) := by
        intro e; have := congrArg Prod.snd e; simp at this; omega
      simp [Store.get, this]

theorem collect_insertChunks (cid : Nat) :
    ∀ (cs : List (List Nat)) (i : Nat) (st st' : Store),
      insertChunks cid i cs st = some st' → collect st' cid i cs.length = some cs.flatten := by
  intro cs
  induction cs with
  | nil => intro i st st' _; simp [collect]
  | cons c cs ih =>
    intro i st st' h
    have h0 := h
    simp only [insertChunks, Store.insert] at h
    cases hg : st.get (cid, i) with
    | some x => simp [hg] at h
    | none =>
      simp only [hg] at h
      have hget : st'.get (cid, i) = some c := by
        rw [get_insertChunks_lt cid cs (i + 1) _ st' i h (by omega)]
        simp [Store.get]
      simp only [List.length_cons, collect, hget, ih (i + 1) _ st' h, Option.map_some,
        List.flatten_cons]

theorem insertChunks_fresh (cid : Nat) :
    ∀ (cs : List (List Nat)) (i : Nat) (st : Store),
      (∀ j, i ≤ j → st.get (cid, j) = none) → ∃ st', insertChunks cid i cs st = some st' := by
  intro cs
  induction cs with
  | nil => intro i st _; exact ⟨st, rfl⟩
  | cons c cs ih =>
    intro i st hfresh
    simp only [insertChunks, Store.insert, hfresh i (Nat.le_refl i)]
    apply ih
    intro j hj
    have : ¬ ((cid, i) = (cid, j)) := by
      intro e; have := congrArg Prod.snd e; simp at this; omega
    simp [Store.get, this, hfresh j (by omega)]

/-- `take`/`drop` of the encoded pointer body -/
theorem decode_encode (p : Pointer) (hs : p.totalSize < 256 ^ 8) (hc : p.chunkId < 256 ^ 8) :
    Pointer.decode p.encode = some p := by
  have l1 := leBytes_length 8 p.totalSize
  have l2 := leBytes_length 8 p.chunkId
  have ht : List.take 8 (leBytes 8 p.totalSize ++ leBytes 8 p.chunkId) = leBytes 8 p.totalSize := by
    rw [List.take_append_of_le_length (by omega), List.take_of_length_le (by omega)]
  have hd : List.drop 8 (leBytes 8 p.totalSize ++ leBytes 8 p.chunkId) = leBytes 8 p.chunkId := by
    rw [List.drop_append_of_le_length (by omega), List.drop_of_length_le (by omega), List.nil_append]
  have hlen : ¬ (Pointer.encode p).length < TOAST_POINTER_SIZE := by
    simp [Pointer.encode, TOAST_POINTER_SIZE, l1, l2]
  unfold Pointer.decode
  rw [if_neg hlen]
  simp only [Pointer.encode, if_true, ht, hd, List.take_of_length_le (Nat.le_of_eq l2),
    leVal_leBytes, Nat.mod_eq_of_lt hs, Nat.mod_eq_of_lt hc]

/-! ## property theorems -/

/-- `data.chunks(n)` concatenates back to `data` (every length, every chunk size > 0). -/
theorem chunks_flatten (n : Nat) (hn : 0 < n) (l : List Nat) : (chunks n l).flatten = l :=
  chunksF_flatten n hn l.length l (Nat.le_refl _)

/-- chunk count formula: the number of chunks written is `chunk_count(len)` = ⌈len / 4000⌉, the
number `detoast_value` reads. -/
theorem chunk_count_formula (l : List Nat) :
    (chunks TOAST_CHUNK_SIZE l).length = chunkCount l.length := by
  unfold chunks chunkCount
  exact chunksF_length TOAST_CHUNK_SIZE (by decide) l.length l (Nat.le_refl _)

/-- every chunk is non-empty and at most `TOAST_CHUNK_SIZE` bytes -/
theorem chunks_bounded (l : List Nat) :
    ∀ c ∈ chunks TOAST_CHUNK_SIZE l, c.length ≤ TOAST_CHUNK_SIZE ∧ c ≠ [] :=
  chunksF_all_le TOAST_CHUNK_SIZE (by decide) l.length l

/-- the 17-byte pointer decodes to what was encoded (sizes and ids below 2^64) -/
theorem pointer_roundtrip (p : Pointer) (hs : p.totalSize < 256 ^ 8) (hc : p.chunkId < 256 ^ 8) :
    Pointer.decode p.encode = some p := decode_encode p hs hc

/-- the 12-byte chunk key is injective on (u64 chunk id, u32 sequence number) -/
theorem chunkKey_injective (c1 s1 c2 s2 : Nat) (h1 : c1 < 256 ^ 8) (h2 : c2 < 256 ^ 8)
    (h3 : s1 < 256 ^ 4) (h4 : s2 < 256 ^ 4) (h : chunkKey c1 s1 = chunkKey c2 s2) :
    c1 = c2 ∧ s1 = s2 := by
  unfold chunkKey beBytes at h
  have hl : (leBytes 8 c1).reverse.length = (leBytes 8 c2).reverse.length := by
    simp [leBytes_length]
  have := List.append_inj h hl
  constructor
  · exact leBytes_injective 8 c1 c2 h1 h2 (List.reverse_inj.mp this.1)
  · exact leBytes_injective 4 s1 s2 h3 h4 (List.reverse_inj.mp this.2)

/-- HEADLINE `detoast_toast = id`: toasting `data` (any length below 2^64) into a TOAST store that
holds no chunk of this (row, column) succeeds, and detoasting the returned pointer in the
resulting store gives back exactly `data`. -/
theorem detoast_toast (st : Store) (rowId colIdx : Nat) (data : List Nat)
    (hlen : data.length < 256 ^ 8) (hid : chunkId rowId colIdx < 256 ^ 8)
    (hfresh : ∀ j, st.get (chunkId rowId colIdx, j) = none) :
    ∃ p st', toastValue st rowId colIdx data = some (p, st') ∧
      detoastValue st' p.encode = some data := by
  obtain ⟨st', hst⟩ := insertChunks_fresh (chunkId rowId colIdx) (chunks TOAST_CHUNK_SIZE data) 0 st
    (fun j _ => hfresh j)
  refine ⟨⟨data.length, chunkId rowId colIdx⟩, st', ?_, ?_⟩
  · simp [toastValue, hst]
  · unfold detoastValue
    rw [decode_encode ⟨data.length, chunkId rowId colIdx⟩ hlen hid]
    have hc := collect_insertChunks (chunkId rowId colIdx) (chunks TOAST_CHUNK_SIZE data) 0 st st' hst
    rw [chunk_count_formula] at hc
    simp only [hc, Option.map_some, chunks_flatten TOAST_CHUNK_SIZE (by decide) data,
      List.take_length]

/-- a second toast under the same chunk id fails ("key already exists"): the M-code reason why
UPDATE (chunk id from the primary-key value) and INSERT (chunk id from the internal row id)
must not share numbers. -/
theorem toast_collision (st : Store) (rowId colIdx : Nat) (data : List Nat) (c : List Nat)
    (hne : data ≠ []) (hold : st.get (chunkId rowId colIdx, 0) = some c) :
    toastValue st rowId colIdx data = none := by
  have hch : ∃ x xs, chunks TOAST_CHUNK_SIZE data = x :: xs := by
    cases data with
    | nil => exact absurd rfl hne
    | cons a t =>
      refine ⟨List.take TOAST_CHUNK_SIZE (a :: t),
        chunksF TOAST_CHUNK_SIZE t.length (List.drop TOAST_CHUNK_SIZE (a :: t)), ?_⟩
      simp [chunks, chunksF]
  obtain ⟨x, xs, hx⟩ := hch
  simp [toastValue, hx, insertChunks, Store.insert, hold]


/-! ### the TEXT / BLOB write-read chain -/

theorem isToastPointer_encode (p : Pointer) : isToastPointer p.encode = true := by
  simp [isToastPointer, Pointer.encode, leBytes_length, TOAST_POINTER_SIZE]

theorem validUtf8_marker (t : List Nat) : validUtf8 (254 :: t) = false := by
  match t with
  | [] => simp [validUtf8]
  | [b1] => simp [validUtf8]
  | [b1, b2] => simp [validUtf8]
  | b1 :: b2 :: b3 :: t' => simp [validUtf8]

theorem not_pointer_of_validUtf8 (s : List Nat) (h : validUtf8 s = true) : isToastPointer s = false := by
  cases s with
  | nil => simp [isToastPointer, TOAST_POINTER_SIZE]
  | cons a t =>
    by_cases ha : a = 254
    · subst ha; rw [validUtf8_marker] at h; exact absurd h (by simp)
    · simp [isToastPointer, TOAST_MARKER, ha]

/-- what the chain returns for a value above the threshold: the bytes, typed by UTF-8 validity -/
theorem roundTrip_toasted (st : Store) (rowId colIdx : Nat) (ty : ColTy) (v : Val)
    (hbig : v.bytes.length > TOAST_THRESHOLD)
    (hlen : v.bytes.length < 256 ^ 8) (hid : chunkId rowId colIdx < 256 ^ 8)
    (hfresh : ∀ j, st.get (chunkId rowId colIdx, j) = none) :
    roundTripIn st rowId colIdx ty v =
      some (if validUtf8 v.bytes then Val.text v.bytes else Val.blob v.bytes) := by
  obtain ⟨p, st', h1, h2⟩ := detoast_toast st rowId colIdx v.bytes hlen hid hfresh
  have hp : p = ⟨v.bytes.length, chunkId rowId colIdx⟩ := by
    simp only [toastValue] at h1
    cases hi : insertChunks (chunkId rowId colIdx) 0 (chunks TOAST_CHUNK_SIZE v.bytes) st with
    | none => simp [hi] at h1
    | some s' => simp [hi] at h1; exact h1.1.symm
  have hn : needsToast v.bytes = true := by simp [needsToast]; exact hbig
  simp only [roundTripIn, writeCol, hn, if_true, h1, Option.map_some, readCol, isToastPointer_encode, h2]
  split <;> rfl

/-- what the chain returns for a value at or below the threshold that does not look like a pointer -/
theorem roundTrip_inline (st : Store) (rowId colIdx : Nat) (ty : ColTy) (v : Val)
    (hsmall : v.bytes.length ≤ TOAST_THRESHOLD) (hnp : isToastPointer v.bytes = false) :
    roundTripIn st rowId colIdx ty v =
      some (match ty with | .text => Val.text v.bytes | .blob => Val.blob v.bytes) := by
  have hn : needsToast v.bytes = false := by simp [needsToast]; exact hsmall
  simp only [roundTripIn, writeCol, hn, readCol]
  cases ty <;> simp [hnp]

/-- `chain_roundtrip_partial`, TEXT: every valid-UTF-8 text of every length (< 2^64) written to a
TEXT column reads back as the same TEXT. -/
theorem text_roundtrip (st : Store) (rowId colIdx : Nat) (s : List Nat)
    (hutf : validUtf8 s = true) (hlen : s.length < 256 ^ 8) (hid : chunkId rowId colIdx < 256 ^ 8)
    (hfresh : ∀ j, st.get (chunkId rowId colIdx, j) = none) :
    roundTripIn st rowId colIdx .text (.text s) = some (.text s) := by
  by_cases hbig : s.length > TOAST_THRESHOLD
  · rw [roundTrip_toasted st rowId colIdx .text (.text s) hbig hlen hid hfresh]
    simp [Val.bytes, hutf]
  · rw [roundTrip_inline st rowId colIdx .text (.text s) (by simp [Val.bytes]; omega)
      (not_pointer_of_validUtf8 s hutf)]
    rfl

/-- `chain_roundtrip_partial`, BLOB: a blob reads back as the same BLOB when it is inline and does
not have the shape of a TOAST pointer, or is toasted and is not valid UTF-8. -/
theorem blob_roundtrip_partial (st : Store) (rowId colIdx : Nat) (b : List Nat)
    (hdom : (b.length ≤ TOAST_THRESHOLD ∧ isToastPointer b = false) ∨
            (b.length > TOAST_THRESHOLD ∧ validUtf8 b = false))
    (hlen : b.length < 256 ^ 8) (hid : chunkId rowId colIdx < 256 ^ 8)
    (hfresh : ∀ j, st.get (chunkId rowId colIdx, j) = none) :
    roundTripIn st rowId colIdx .blob (.blob b) = some (.blob b) := by
  rcases hdom with ⟨h1, h2⟩ | ⟨h1, h2⟩
  · rw [roundTrip_inline st rowId colIdx .blob (.blob b) (by simpa [Val.bytes] using h1) h2]
    rfl
  · rw [roundTrip_toasted st rowId colIdx .blob (.blob b) (by simpa [Val.bytes] using h1) hlen hid hfresh]
    simp [Val.bytes, h2]

/-- the full statement is false for BLOB: EVERY blob above the threshold whose bytes are valid
UTF-8 comes back as TEXT (`detoast_rows` re-derives the type from UTF-8 validity). -/
theorem blob_utf8_returns_text (st : Store) (rowId colIdx : Nat) (b : List Nat)
    (hbig : b.length > TOAST_THRESHOLD) (hutf : validUtf8 b = true)
    (hlen : b.length < 256 ^ 8) (hid : chunkId rowId colIdx < 256 ^ 8)
    (hfresh : ∀ j, st.get (chunkId rowId colIdx, j) = none) :
    roundTripIn st rowId colIdx .blob (.blob b) = some (.text b) := by
  rw [roundTrip_toasted st rowId colIdx .blob (.blob b) (by simpa [Val.bytes] using hbig) hlen hid hfresh]
  simp [Val.bytes, hutf]

/-- concrete witness: 1001 bytes 'a' written as BLOB read back as TEXT -/
theorem blob_utf8_counterexample :
    roundTrip 1 1 .blob (.blob (List.replicate 1001 97)) = some (.text (List.replicate 1001 97)) ∧
    roundTrip 1 1 .blob (.blob (List.replicate 1001 97)) ≠ some (.blob (List.replicate 1001 97)) := by
  have h : roundTrip 1 1 .blob (.blob (List.replicate 1001 97)) = some (.text (List.replicate 1001 97)) := by
    apply blob_utf8_returns_text [] 1 1 (List.replicate 1001 97)
    · show TOAST_THRESHOLD < (List.replicate 1001 97).length
      rw [List.length_replicate]; decide
    · decide +kernel
    · rw [List.length_replicate]; decide
    · decide
    · intro j; rfl
  refine ⟨h, ?_⟩
  rw [h]
  intro e
  injection e with e'
  cases e'

/-- concrete witness: an inline 17-byte blob starting with 0xFE is read as a TOAST pointer; with a
zero size field it comes back as the empty TEXT, with a non-zero size field the read fails. -/
theorem fake_pointer_counterexample :
    roundTrip 1 1 .blob (.blob (254 :: List.replicate 16 0)) = some (.text []) ∧
    roundTrip 1 1 .blob (.blob (254 :: 5 :: List.replicate 15 0)) = none := by
  constructor <;> decide

/-- non-vacuity of the partial theorems' hypotheses -/
example : validUtf8 [104, 105] = true ∧ ([104, 105] : List Nat).length < 256 ^ 8 ∧
    chunkId 1 1 < 256 ^ 8 ∧ (∀ j, Store.get [] (chunkId 1 1, j) = none) :=
  ⟨by decide, by decide, by decide, fun _ => rfl⟩

end TurVerif.C11
