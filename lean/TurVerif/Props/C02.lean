import TurVerif.Model.Commit
import TurVerif.Lemmas.Commit
import TurVerif.Props.C01
/-!
C02  Crash recovery yields a prefix-consistent database (page-level protocol model `TurVerif.Commit`).

* `recovery_paths_equal`: `recover_all_tables` (automatic, at open) and `streaming_recovery`
  (degraded open + `PRAGMA recover_wal`, any batch size) compute the same pages from the same disk:
  both are folds of the same frame list.  Hypothesis: the WAL holds no before-image ("undo") frames —
  true of every WAL the pinned engine can write, because the writer of such frames
  (`write_wal_undo_frame_if_needed`) is dead code.
* `power_prefix_consistent`: for protocol traces, a power loss recovers to the state after a prefix of
  the statements — all acknowledged ones plus at most the in-flight one, completely or not at all.
* `recovery_idempotent`: a crash during recovery followed by another recovery is harmless.
* `kill_atomicity_counterexample`: the same protocol is **not** atomic under a process kill: pages are
  written in place before anything is logged and there are no before-images, so a page first touched
  by the in-flight statement keeps its uncommitted image while an already-logged page is redone to
  its committed image (reproduced on the real code: `crash:kill:*:page_mut:(partial-stmt|phantom-rows)`).
* `index_disagrees_counterexample`: index pages bypass the log, so after a kill in mid-statement the
  table page is reverted by redo and the index page is not (reproduced:
  `crash:kill:dml-pk:page_mut:index-disagrees`).
-/
namespace TurVerif.C02
open TurVerif.Commit

/-! ### helper lemmas -/

theorem streaming_fst (known : Nat → Bool) (batch : Nat) (w : List Frame) : ∀ (pg : Pages) (n : Nat),
    (w.foldl (fun (acc : Pages × Nat) fr =>
      if !fr.undo && known fr.file then
        (setPg acc.1 fr.file fr.page fr.img, if acc.2 + 1 ≥ batch then 0 else acc.2 + 1)
      else acc) (pg, n)).1 = redo pg (w.filter (fun fr => !fr.undo && known fr.file)) := by
  induction w with
  | nil => intro pg n; rfl
  | cons fr w ih =>
    intro pg n
    simp only [List.foldl_cons, List.filter_cons]
    by_cases h : (!fr.undo && known fr.file) = true
    · simp only [h, if_true]
      rw [ih, redo_cons]
    · simp only [h, if_false, Bool.false_eq_true]
      rw [ih]

/-! ### property theorems -/

/-- both recovery procedures are folds of the same frame list -/
theorem recovery_paths_equal (known : Nat → Bool) (batch : Nat) (pg : Pages) (w : List Frame)
    (hnoUndo : ∀ fr ∈ w, fr.undo = false) :
    recoverAll known pg w = (recoverStreaming known batch pg w).1 := by
  unfold recoverAll recoverStreaming
  rw [streaming_fst]
  have : w.filter (fun fr => fr.undo && known fr.file &&
      !w.any (fun fr' => !fr'.undo && fr'.file == fr.file && fr'.page == fr.page)) = [] := by
    rw [List.filter_eq_nil_iff]
    intro fr hfr
    simp [hnoUndo fr hfr]
  simp only [this, List.reverse_nil]
  rfl

/-- the streaming path does not depend on the batch size -/
theorem streaming_batch_irrelevant (known : Nat → Bool) (b1 b2 : Nat) (pg : Pages) (w : List Frame) :
    (recoverStreaming known b1 pg w).1 = (recoverStreaming known b2 pg w).1 := by
  unfold recoverStreaming
  rw [streaming_fst, streaming_fst]

/-- recovering an already recovered disk (crash during recovery, WAL not yet truncated) is a no-op -/
theorem recovery_idempotent (d : Disk) : recover { pages := recover d, wal := d.wal } = recover d :=
  C01.redo_idempotent d.pages d.wal

/-- recovery is restartable: a second crash after recovery has redone only the first `j` frames
(for ANY `j`; the WAL is truncated only after the whole replay), followed by a full recovery,
gives the same pages as one uninterrupted recovery -/
theorem recovery_restartable (d : Disk) (j : Nat) :
    recover { pages := redo d.pages (d.wal.take j), wal := d.wal } = recover d := by
  unfold recover
  show redo (redo d.pages (d.wal.take j)) d.wal = redo d.pages d.wal
  calc redo (redo d.pages (d.wal.take j)) d.wal
      = redo (redo d.pages (d.wal.take j)) (d.wal.take j ++ d.wal.drop j) := by
          rw [List.take_append_drop]
    _ = redo (redo (redo d.pages (d.wal.take j)) (d.wal.take j)) (d.wal.drop j) :=
          redo_append _ _ _
    _ = redo (redo d.pages (d.wal.take j)) (d.wal.drop j) := by rw [C01.redo_idempotent]
    _ = redo d.pages (d.wal.take j ++ d.wal.drop j) := (redo_append _ _ _).symm
    _ = redo d.pages d.wal := by rw [List.take_append_drop]

/-- prefix consistency under power loss, for every protocol trace and crash index: the recovered
pages are those after a prefix of the statements — the acknowledged ones, or those plus the whole
in-flight statement; never a part of a statement. -/
theorem power_prefix_consistent (stmts : List Stmt) (k : Nat) :
    ∃ n, (n = acked (protocolTrace stmts) k ∨ n = acked (protocolTrace stmts) k + 1) ∧
      recover (crashPower (protocolTrace stmts) k) = pagesAfter (stmts.take n) := by
  rcases C01.durable_power stmts k with h | h
  · exact ⟨_, Or.inl rfl, h⟩
  · exact ⟨_, Or.inr rfl, h⟩

/-- under a process kill the protocol is not atomic: statement 2 rewrites page (1,1) and first
touches page (1,2); killed after its in-place writes, recovery puts (1,1) back to the committed image
7 but keeps the uncommitted image 9 of (1,2): neither the state after statement 1 nor after
statement 2. -/
theorem kill_atomicity_counterexample :
    let stmts : List Stmt := [[⟨1, 1, 7⟩], [⟨1, 1, 8⟩, ⟨1, 2, 9⟩]]
    let r := recover (crashKill (protocolTrace stmts) 6)
    acked (protocolTrace stmts) 6 = 1 ∧
    (r 1 1 = 7 ∧ r 1 2 = 9) ∧
    (pagesAfter (stmts.take 1) 1 2 = 0) ∧ (pagesAfter (stmts.take 2) 1 1 = 8) := by decide

/-- index pages are not logged (trace of a DELETE on a table, file 1, with an index, file 2, after an
acknowledged INSERT): killed after the in-place writes, redo reverts the table page to the committed
image while the index page keeps the uncommitted one — lookups through the index disagree with
the scan. -/
theorem index_disagrees_counterexample :
    let es := [Event.mut 1 1 10, Event.mut 2 1 20, Event.walWrite 1 1 10, Event.walSync, Event.ack,
               Event.mut 2 1 21, Event.mut 1 1 11]
    let r := recover (crashKill es 7)
    r 1 1 = 10 ∧ r 2 1 = 21 := by decide

end TurVerif.C02
