import TurVerif.Model.SqlIdx
import TurVerif.Props.C10
/-!
C43  Bulk-load APIs equal row-at-a-time INSERT.

Spec-level theorems on the relational state machine `TurVerif.SqlDb` (M-spec):
* `batch_eq_fold`: when every row is accepted in turn by a single-row INSERT (the row-at-a-time
  loader `loadSeq` reports no error), one multi-row INSERT (`insertBatch`) ends in exactly the
  state of folding the single-row INSERT over the rows (`foldl insertOne`), including the
  AUTO_INCREMENT counter and the generated ids, and reports the same number of rows;
* the failing case, made precise: a failing statement changes nothing (`insert_fail_noop`,
  `batch_all_or_nothing`), and the row-at-a-time loader the property refers to keeps exactly the
  rows before the first rejected row (`loadSeq_append`, `loadSeq_stops_at_first_error`);
* the `insert_append` precondition made explicit on the index model of C10: appending at the right
  end keeps an index only if the new key is ≥ every key present (`append_refines`), and a smaller
  key breaks the index so that a lookup misses the row (`append_unsorted_counterexample`).
The bulk APIs themselves (batch.rs, fast_load.rs) are not modelled; they are tied to these
statements by the twin-database differential run `sql_bulk` (props/C43.json), which finds nine
independent violations on the pinned tree (known_findings.json).
-/
namespace TurVerif.C43
open TurVerif.Sql TurVerif.SqlDb TurVerif.SqlIdx

/-! ### find / put -/
theorem find_name (s : DbState) (tn : String) (t : TableSt) (h : s.find tn = some t) : t.name = tn := by
  have := List.find?_some h
  simpa using this

theorem find_put (s : DbState) (tn : String) (t t' : TableSt) (h : s.find tn = some t)
    (hn : t'.name = tn) : (s.put t').find tn = some t' := by
  cases s with
  | mk tables txn =>
    simp only [DbState.find, DbState.put] at h ⊢
    induction tables with
    | nil => simp at h
    | cons x xs ih =>
      by_cases hx : (x.name == tn) = true
      · have hxe : x.name = tn := by simpa using hx
        simp [List.find?_cons, hn, hxe]
      · have hxne : ¬ x.name = tn := by simpa using hx
        have h' : xs.find? (fun x => x.name == tn) = some t := by
          simpa [List.find?_cons, hxne] using h
        have := ih h'
        simpa [List.find?_cons, hn, hxne] using this

theorem put_put (s : DbState) (a b : TableSt) (h : a.name = b.name) : (s.put a).put b = s.put b := by
  cases s with
  | mk tables txn =>
    simp only [DbState.put, List.map_map]
    congr 1
    apply List.map_congr_left
    intro x _
    simp only [Function.comp]
    by_cases hx : (x.name == a.name) = true
    · have hb : (x.name == b.name) = true := by rw [← h]; exact hx
      have hab : (a.name == b.name) = true := by simp [h]
      simp [hx, hb, hab]
    · have hx' : (x.name == a.name) = false := by simpa using hx
      have hb : (x.name == b.name) = false := by rw [← h]; exact hx'
      simp [hx', hb]

/-! ### the INSERT step, unfolded -/
theorem step_insert (s : DbState) (tn : String) (cols : List Nat) (rows : List (List Expr))
    (t : TableSt) (hf : s.find tn = some t) :
    step s (.insert tn cols rows) =
      match buildInsertRows t cols rows t.nextAuto with
      | .error e => (s, .err e)
      | .ok (newRows, next) =>
        applyValid s (s.put { t with rows := t.rows ++ newRows, nextAuto := next })
          (.affected newRows.length newRows) := by
  simp only [step, hf]
  split <;> simp_all

theorem applyValid_cases (s s' : DbState) (res : Res) :
    (dbValid s' = .ok true ∧ applyValid s s' res = (s', res)) ∨
    (∃ e, applyValid s s' res = (s, .err e)) := by
  unfold applyValid
  split
  · right; exact ⟨_, rfl⟩
  · left; rename_i h; exact ⟨h, rfl⟩
  · right; exact ⟨_, rfl⟩

/-- `buildInsertRows` reads only the column definitions of the table -/
theorem buildInsertRows_cols (t t' : TableSt) (h : t'.cols = t.cols) (cols : List Nat)
    (rows : List (List Expr)) (n : Int) :
    buildInsertRows t' cols rows n = buildInsertRows t cols rows n := by
  induction rows generalizing n with
  | nil => rfl
  | cons r rest ih =>
    simp only [buildInsertRows, h]
    split
    · rfl
    · simp only [ih]

/-- a batch is the first row followed by the rest, with the counter threaded through -/
theorem buildInsertRows_cons (t : TableSt) (cols : List Nat) (r : List Expr)
    (rest : List (List Expr)) (n : Int) (r1 : Row) (n1 : Int)
    (h1 : buildInsertRows t cols [r] n = .ok ([r1], n1)) :
    buildInsertRows t cols (r :: rest) n =
      match buildInsertRows t cols rest n1 with
      | .error e => .error e
      | .ok (rs, nf) => .ok (r1 :: rs, nf) := by
  simp only [buildInsertRows] at h1 ⊢
  split at h1
  · simp at h1
  · rename_i vs hv
    simp only [Except.ok.injEq, Prod.mk.injEq, List.cons.injEq, and_true] at h1
    obtain ⟨hr, hn⟩ := h1
    simp only [hr, hn]
    cases buildInsertRows t cols rest n1 with
    | error e => rfl
    | ok p => rfl

theorem buildInsertRows_single_shape (t : TableSt) (cols : List Nat) (r : List Expr) (n : Int)
    (rs : List Row) (n1 : Int) (h : buildInsertRows t cols [r] n = .ok (rs, n1)) :
    ∃ r1, rs = [r1] := by
  simp only [buildInsertRows] at h
  split at h
  · simp at h
  · simp only [Except.ok.injEq, Prod.mk.injEq] at h
    exact ⟨_, h.1.symm⟩

theorem loadSeq_cons (tn : String) (cols : List Nat) (r : List Expr) (rest : List (List Expr))
    (s : DbState) :
    loadSeq tn cols (r :: rest) s =
      match step s (.insert tn cols [r]) with
      | (_, .err e) => (s, 0, some e)
      | (s1, _) => ((loadSeq tn cols rest s1).1, (loadSeq tn cols rest s1).2.1 + 1,
                    (loadSeq tn cols rest s1).2.2) := by
  simp only [loadSeq]
  rfl

/-! ## property theorems -/

/-- a failing single-row INSERT changes nothing -/
theorem insert_fail_noop (s : DbState) (tn : String) (cols : List Nat) (rows : List (List Expr))
    (e : Err) (h : (step s (.insert tn cols rows)).2 = .err e) :
    (step s (.insert tn cols rows)).1 = s := by
  cases hf : s.find tn with
  | none => simp [step, hf]
  | some t =>
    rw [step_insert s tn cols rows t hf] at h ⊢
    cases hb : buildInsertRows t cols rows t.nextAuto with
    | error e' => simp only [hb]
    | ok p =>
      obtain ⟨newRows, next⟩ := p
      simp only [hb] at h ⊢
      rcases applyValid_cases s (s.put { t with rows := t.rows ++ newRows, nextAuto := next })
        (.affected newRows.length newRows) with ⟨_, h2⟩ | ⟨e', h2⟩
      · rw [h2] at h; simp at h
      · rw [h2]

/-- the multi-row statement is all-or-nothing -/
theorem batch_all_or_nothing (s : DbState) (tn : String) (cols : List Nat)
    (rows : List (List Expr)) (e : Err) (h : (insertBatch tn cols rows s).2 = .err e) :
    (insertBatch tn cols rows s).1 = s :=
  insert_fail_noop s tn cols rows e h

/-- result of a successful single-row INSERT, in terms of the table found -/
theorem single_ok (s : DbState) (tn : String) (cols : List Nat) (r : List Expr) (t : TableSt)
    (hf : s.find tn = some t) (s1 : DbState) (res : Res)
    (h : step s (.insert tn cols [r]) = (s1, res)) (hok : isErr res = false) :
    ∃ r1 n1, buildInsertRows t cols [r] t.nextAuto = .ok ([r1], n1) ∧
      s1 = s.put { t with rows := t.rows ++ [r1], nextAuto := n1 } ∧ dbValid s1 = .ok true := by
  rw [step_insert s tn cols [r] t hf] at h
  split at h
  · simp only [Prod.mk.injEq] at h
    rw [← h.2] at hok; simp [isErr] at hok
  · rename_i newRows next hb
    obtain ⟨r1, hr1⟩ := buildInsertRows_single_shape t cols r t.nextAuto newRows next hb
    subst hr1
    rcases applyValid_cases s (s.put { t with rows := t.rows ++ [r1], nextAuto := next })
      (.affected [r1].length [r1]) with ⟨hv, h2⟩ | ⟨e', h2⟩
    · rw [h2] at h
      simp only [Prod.mk.injEq] at h
      exact ⟨r1, next, hb, h.1.symm, by rw [← h.1]; exact hv⟩
    · rw [h2] at h
      simp only [Prod.mk.injEq] at h
      rw [← h.2] at hok; simp [isErr] at hok

/-- **C43 core**: if the row-at-a-time loader accepts every row, the one-statement batch ends in
the same state (rows, generated ids, AUTO_INCREMENT counter) and reports all rows -/
theorem batch_eq_loadSeq (tn : String) (cols : List Nat) (r : List Expr) (rest : List (List Expr))
    (s s' : DbState) (n : Nat) (t : TableSt) (hf : s.find tn = some t)
    (h : loadSeq tn cols (r :: rest) s = (s', n, none)) :
    (insertBatch tn cols (r :: rest) s).1 = s' ∧ isErr (insertBatch tn cols (r :: rest) s).2 = false := by
  induction rest generalizing s t r n with
  | nil =>
    simp only [loadSeq] at h
    simp only [insertBatch]
    split at h
    · simp at h
    · rename_i s1 res hres hne
      simp only [Prod.mk.injEq] at h
      rw [hne]
      refine ⟨h.1, ?_⟩
      cases res with
      | err e => exact absurd rfl (hres e)
      | affected _ _ => rfl
      | done => rfl
  | cons r2 rest' ih =>
    rw [loadSeq_cons] at h
    split at h
    · simp at h
    · rename_i s1 res hres hne
      have hok : isErr res = false := by
        cases res with
        | err e => exact absurd rfl (hres e)
        | affected _ _ => rfl
        | done => rfl
      obtain ⟨r1, n1, hb1, hs1, _⟩ := single_ok s tn cols r t hf s1 res hne hok
      have hname : t.name = tn := find_name s tn t hf
      let t1 : TableSt := { t with rows := t.rows ++ [r1], nextAuto := n1 }
      have hf1 : s1.find tn = some t1 := by rw [hs1]; exact find_put s tn t t1 hf hname
      -- the rest, loaded from s1
      cases hl : loadSeq tn cols (r2 :: rest') s1 with
      | mk s2 ne =>
        cases ne with
        | mk n2 e2 =>
          rw [hl] at h
          simp only [Prod.mk.injEq] at h
          obtain ⟨hs2, _, he2⟩ := h
          subst he2
          subst hs2
          obtain ⟨ih1, ih2⟩ := ih r2 s1 n2 t1 hf1 hl
          -- unfold the batch from s1
          simp only [insertBatch] at ih1 ih2 ⊢
          rw [step_insert s1 tn cols (r2 :: rest') t1 hf1] at ih1 ih2
          rw [step_insert s tn cols (r :: r2 :: rest') t hf]
          rw [buildInsertRows_cons t cols r (r2 :: rest') t.nextAuto r1 n1 hb1]
          have hcols : buildInsertRows t1 cols (r2 :: rest') n1 = buildInsertRows t cols (r2 :: rest') n1 :=
            buildInsertRows_cols t t1 rfl cols _ _
          have hn1 : t1.nextAuto = n1 := rfl
          rw [hn1, hcols] at ih1 ih2
          cases hb : buildInsertRows t cols (r2 :: rest') n1 with
          | error e => rw [hb] at ih2; simp [isErr] at ih2
          | ok p =>
            obtain ⟨rs, nf⟩ := p
            rw [hb] at ih1 ih2
            simp only at ih1 ih2 ⊢
            have hput : s.put { t with rows := t.rows ++ (r1 :: rs), nextAuto := nf }
                = s1.put { t1 with rows := t1.rows ++ rs, nextAuto := nf } := by
              rw [hs1, put_put s t1 { t1 with rows := t1.rows ++ rs, nextAuto := nf } rfl]
              simp [t1, List.append_assoc]
            rcases applyValid_cases s1 (s1.put { t1 with rows := t1.rows ++ rs, nextAuto := nf })
              (.affected rs.length rs) with ⟨hv, h2⟩ | ⟨e', h2⟩
            · rw [h2] at ih1
              simp only at ih1
              have : applyValid s (s.put { t with rows := t.rows ++ (r1 :: rs), nextAuto := nf })
                  (.affected (r1 :: rs).length (r1 :: rs))
                  = (s.put { t with rows := t.rows ++ (r1 :: rs), nextAuto := nf },
                     .affected (r1 :: rs).length (r1 :: rs)) := by
                unfold applyValid
                rw [hput, hv]
              rw [this]
              exact ⟨by rw [hput, ih1], rfl⟩
            · rw [h2] at ih2; simp [isErr] at ih2

/-- the loader's state is the fold of the single-row INSERT over the rows it accepted -/
theorem loadSeq_ok_fold (tn : String) (cols : List Nat) (rows : List (List Expr))
    (s s' : DbState) (n : Nat) (h : loadSeq tn cols rows s = (s', n, none)) :
    s' = rows.foldl (insertOne tn cols) s ∧ n = rows.length := by
  induction rows generalizing s n with
  | nil => simp only [loadSeq, Prod.mk.injEq] at h; exact ⟨h.1.symm, h.2.1.symm⟩
  | cons r rest ih =>
    simp only [loadSeq] at h
    split at h
    · simp at h
    · rename_i s1 res _ hne
      cases hl : loadSeq tn cols rest s1 with
      | mk s2 ne =>
        cases ne with
        | mk n2 e2 =>
          rw [hl] at h
          simp only [Prod.mk.injEq] at h
          obtain ⟨hs2, hn, he2⟩ := h
          subst he2
          subst hs2
          obtain ⟨i1, i2⟩ := ih s1 n2 hl
          refine ⟨?_, ?_⟩
          · simp only [List.foldl_cons, insertOne, hne]
            exact i1
          · simp only [List.length_cons]; omega

/-- `batch_eq_fold : insertBatch rows s = foldl insertOne s rows` for a non-empty batch in which
every row is valid when its turn comes -/
theorem batch_eq_fold (tn : String) (cols : List Nat) (r : List Expr) (rest : List (List Expr))
    (s s' : DbState) (n : Nat) (t : TableSt) (hf : s.find tn = some t)
    (h : loadSeq tn cols (r :: rest) s = (s', n, none)) :
    (insertBatch tn cols (r :: rest) s).1 = (r :: rest).foldl (insertOne tn cols) s := by
  rw [(batch_eq_loadSeq tn cols r rest s s' n t hf h).1]
  exact (loadSeq_ok_fold tn cols (r :: rest) s s' n h).1

/-- what the property demands when some row is rejected: the loader processes a concatenation
left to right and stops at the first error -/
theorem loadSeq_append (tn : String) (cols : List Nat) (xs ys : List (List Expr)) (s : DbState) :
    loadSeq tn cols (xs ++ ys) s =
      match loadSeq tn cols xs s with
      | (s1, n1, none) => let (s2, n2, e) := loadSeq tn cols ys s1; (s2, n1 + n2, e)
      | (s1, n1, some e) => (s1, n1, some e) := by
  induction xs generalizing s with
  | nil =>
    simp only [List.nil_append, loadSeq]
    cases loadSeq tn cols ys s with
    | mk a b => cases b with | mk c d => simp
  | cons x xs ih =>
    simp only [List.cons_append, loadSeq]
    split
    · rfl
    · rename_i s1 res _ _
      rw [ih s1]
      cases h1 : loadSeq tn cols xs s1 with
      | mk a b =>
        cases b with
        | mk c d =>
          cases d with
          | none =>
            simp only
            cases loadSeq tn cols ys a with
            | mk a2 b2 => cases b2 with | mk c2 d2 => simp only [Nat.add_assoc, Nat.add_comm c2 1]
          | some e => rfl

/-- rows before the first rejected row are loaded, that row and everything after it is not, and
the error is reported: the state is the fold over the accepted prefix -/
theorem loadSeq_stops_at_first_error (tn : String) (cols : List Nat)
    (good : List (List Expr)) (bad : List Expr) (rest : List (List Expr)) (s s1 : DbState) (n : Nat) (e : Err)
    (hgood : loadSeq tn cols good s = (s1, n, none))
    (hbad : (step s1 (.insert tn cols [bad])).2 = .err e) :
    loadSeq tn cols (good ++ bad :: rest) s = (good.foldl (insertOne tn cols) s, good.length, some e) := by
  rw [loadSeq_append, hgood]
  obtain ⟨h1, h2⟩ := loadSeq_ok_fold tn cols good s s1 n hgood
  have : loadSeq tn cols (bad :: rest) s1 = (s1, 0, some e) := by
    simp only [loadSeq]
    split
    · rename_i s2 e2 heq
      rw [heq] at hbad
      simp only [Res.err.injEq] at hbad
      rw [hbad]
    · rename_i s2 res hres heq
      rw [heq] at hbad
      exact absurd hbad (hres e)
  simp only [this, ← h1, h2, Nat.add_zero]

/-! ### the append fast path (`BTree::insert_append`) on the index model -/
open TurVerif.C10 in
/-- within its precondition (new key ≥ every key present) appending at the right end maintains
the index exactly like the ordered insert -/
theorem append_refines {κ : Type} {le : κ → κ → Bool} (keyOf : Row → κ)
    (idx : List (Entry κ)) (tbl : RTable) (h : IsIndex le keyOf idx tbl) (r : Nat × Row)
    (hpre : ∀ x ∈ idx, le x.key (keyOf r.2) = true) :
    IsIndex le keyOf (idx ++ [entryOf keyOf r]) (tbl ++ [r]) := by
  obtain ⟨hs, hp⟩ := h
  refine ⟨?_, ?_⟩
  · refine List.pairwise_append.mpr ⟨hs, List.pairwise_singleton _ _, ?_⟩
    intro a ha b hb
    have : b = entryOf keyOf r := by simpa using hb
    subst this
    exact hpre a ha
  · rw [List.map_append]
    exact List.Perm.append hp (List.Perm.refl _)

/-- outside the precondition the appended entry is out of order and a point lookup through the
"index" misses the row although the table holds it (confirmed on the real code for
`insert_cached`, finding C43-insert-cached-index-append) -/
theorem append_unsorted_counterexample :
    let tbl : RTable := [(1, [.int 5]), (2, [.int 9]), (3, [.int 3])]
    let keyOf : Row → Nat := fun r => match r with | [.int i] => i.toNat | _ => 0
    let idx : List (Entry Nat) := [⟨5, 1⟩, ⟨9, 2⟩] ++ [⟨3, 3⟩]
    (indexLookup Nat.ble (.incl 3) (.incl 3) tbl idx).map (·.1) = [] ∧
    (fullScan Nat.ble keyOf (.incl 3) (.incl 3) tbl).map (·.1) = [3] := by decide

/-! ### non-vacuity -/
/-- a table with PRIMARY KEY + AUTO_INCREMENT, three rows (explicit id, NULL id, NULL id): the
loader accepts all, batch and fold agree, ids 7, 8, 9 are generated after the explicit 7 -/
example :
    let t : TableSt := { name := "t", cols := [{ name := "a", pk := true, autoInc := true }, { name := "b" }] }
    let s : DbState := { tables := [t] }
    let rows : List (List Expr) := [[.lit (.int 7), .lit (.text "x")], [.lit .null, .lit (.text "y")], [.lit .null, .lit .null]]
    ((loadSeq "t" [0, 1] rows s).2 = (3, none)) ∧
    (((insertBatch "t" [0, 1] rows s).1.find "t").map (·.rows) =
      some [[.int 7, .text "x"], [.int 8, .text "y"], [.int 9, .null]]) ∧
    (((rows.foldl (insertOne "t" [0, 1]) s).find "t").map (fun t => (t.rows, t.nextAuto)) =
      some ([[.int 7, .text "x"], [.int 8, .text "y"], [.int 9, .null]], 10)) := by
  decide

end TurVerif.C43
