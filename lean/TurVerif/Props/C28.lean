import TurVerif.Lemmas.Leaf
import TurVerif.Lemmas.OMap
import TurVerif.Props.C29
/-!
C28  The B-tree behaves as an ordered map.

Leaf level: the M-code leaf model (`TurVerif.Leaf`, src/btree/leaf.rs + the single-leaf parts of
tree.rs) refines the sorted-association-list specification `TurVerif.OMap` under the abstraction
`abs l = [(key, value) of each slot, in slot order]`.
Tree level: see the second half of this file.
-/
namespace TurVerif.C28
open TurVerif.Leaf TurVerif.OMap
open TurVerif.Simd (cmpBytes SearchResult)
open TurVerif.C30 (cmp_eq_iff cmp_gt_iff cmp_lt_trans)

/-! ### helper lemmas -/

def kv (c : Cell) : Entry := (c.key, c.val)

theorem abs_eq (l : Leaf) : abs l = l.cells.map kv := rfl

theorem sorted_abs {l : Leaf} (w : WF l) : Sorted (abs l) := by
  rw [abs_eq]; unfold Sorted; rw [List.pairwise_map]; exact w.sorted

theorem find_notFound_lookup {k : List Nat} {cs : List Cell} {i p : Nat}
    (h : findFrom k cs i = .notFound p) : lookup (cs.map kv) k = none := by
  induction cs generalizing i with
  | nil => rfl
  | cons c cs ih =>
    simp only [findFrom] at h
    simp only [List.map_cons, kv, lookup]
    split at h
    · rename_i hc; simp only [hc]; exact ih h
    · simp at h
    · rename_i hc; simp only [hc]

theorem find_found_lookup {k : List Nat} {cs : List Cell} {i j : Nat}
    (h : findFrom k cs i = .found (i + j)) :
    ∃ c, cs[j]? = some c ∧ c.key = k ∧ lookup (cs.map kv) k = some c.val := by
  induction cs generalizing i j with
  | nil => simp [findFrom] at h
  | cons c cs ih =>
    simp only [findFrom] at h
    simp only [List.map_cons, kv, lookup]
    split at h
    · rename_i hc
      have hb := findFrom_found_lt h
      cases j with
      | zero => omega
      | succ j =>
        have h' : findFrom k cs (i + 1) = .found ((i + 1) + j) := by rw [h]; congr 1; omega
        simp only [hc]
        simpa using ih h'
    · rename_i hc
      simp at h
      have : j = 0 := by omega
      subst this
      simp only [hc]
      exact ⟨c, by simp, (cmp_eq_iff _ _).mp hc, rfl⟩
    · simp at h

theorem abs_insertAt {k v pre : List Nat} {off : Nat} {cs : List Cell} {i p : Nat}
    (h : findFrom k cs i = .notFound (i + p)) :
    (insertAt cs p ⟨pre, off, k, v⟩).map kv = insertNew (cs.map kv) k v := by
  induction cs generalizing i p with
  | nil => cases p <;> simp [insertAt, insertNew, kv]
  | cons c cs ih =>
    simp only [findFrom] at h
    simp only [List.map_cons, kv, insertNew]
    split at h
    · rename_i hc
      have := findFrom_ge h
      cases p with
      | zero => omega
      | succ p =>
        have h' : findFrom k cs (i + 1) = .notFound ((i + 1) + p) := by rw [h]; congr 1; omega
        simp only [hc, insertAt, List.map_cons]
        rw [ih h']; rfl
    · simp at h
    · rename_i hc
      simp at h
      have : p = 0 := by omega
      subst this
      simp [hc, insertAt, kv]

theorem abs_removeAt {k : List Nat} {cs : List Cell} {i j : Nat}
    (h : findFrom k cs i = .found (i + j)) :
    (removeAt cs j).map kv = erase (cs.map kv) k := by
  induction cs generalizing i j with
  | nil => simp [findFrom] at h
  | cons c cs ih =>
    simp only [findFrom] at h
    simp only [List.map_cons, kv, erase]
    split at h
    · rename_i hc
      have hb := findFrom_found_lt h
      cases j with
      | zero => omega
      | succ j =>
        have h' : findFrom k cs (i + 1) = .found ((i + 1) + j) := by rw [h]; congr 1; omega
        simp only [hc, removeAt, List.map_cons]
        rw [ih h']; rfl
    · rename_i hc
      simp at h
      have : j = 0 := by omega
      subst this
      simp [hc, removeAt]
    · simp at h

theorem abs_modifyAt {k v : List Nat} {cs : List Cell} {i j : Nat}
    (h : findFrom k cs i = .found (i + j)) :
    (modifyAt (fun c => { c with val := v }) cs j).map kv = replace (cs.map kv) k v := by
  induction cs generalizing i j with
  | nil => simp [findFrom] at h
  | cons c cs ih =>
    simp only [findFrom] at h
    simp only [List.map_cons, kv, replace]
    split at h
    · rename_i hc
      have hb := findFrom_found_lt h
      cases j with
      | zero => omega
      | succ j =>
        have h' : findFrom k cs (i + 1) = .found ((i + 1) + j) := by rw [h]; congr 1; omega
        simp only [hc, modifyAt, List.map_cons]
        rw [ih h']; rfl
    · rename_i hc
      simp at h
      have : j = 0 := by omega
      subst this
      simp [hc, modifyAt, kv]
    · simp at h

theorem find_all_lt {k : List Nat} {cs : List Cell} (i : Nat)
    (h : ∀ c ∈ cs, cmpBytes c.key k = .lt) : findFrom k cs i = .notFound (i + cs.length) := by
  induction cs generalizing i with
  | nil => simp [findFrom]
  | cons c cs ih =>
    simp only [findFrom, h c (List.mem_cons_self ..)]
    rw [ih (i + 1) (fun x hx => h x (List.mem_cons_of_mem _ hx))]
    simp; omega

theorem erase_of_lookup_none {m : List Entry} {k : List Nat} (h : lookup m k = none) :
    erase m k = m := by
  induction m with
  | nil => rfl
  | cons x m ih =>
    obtain ⟨k', v'⟩ := x
    simp only [lookup] at h
    simp only [erase]
    split
    · rename_i hc; simp only [hc] at h; rw [ih h]
    · rename_i hc; simp [hc] at h
    · rfl

theorem insertNew_erase {m : List Entry} (hs : Sorted m) {k old : List Nat} (v : List Nat)
    (h : lookup m k = some old) : insertNew (erase m k) k v = replace m k v := by
  induction m with
  | nil => simp [lookup] at h
  | cons x m ih =>
    obtain ⟨k', v'⟩ := x
    have hp := List.pairwise_cons.mp hs
    simp only [lookup] at h
    simp only [erase, replace]
    cases hc : cmpBytes k' k with
    | lt => simp only [hc] at h; simp only [insertNew, hc]; rw [ih hp.2 h]
    | gt => simp [hc] at h
    | eq =>
      have hk : k' = k := (cmp_eq_iff _ _).mp hc
      subst hk
      simp only
      cases m with
      | nil => simp [insertNew]
      | cons y m =>
        obtain ⟨k2, v2⟩ := y
        have : cmpBytes k' k2 = .lt := hp.1 (k2, v2) (List.mem_cons_self ..)
        have hgt : cmpBytes k2 k' = .gt := (cmp_gt_iff _ _).mpr this
        simp [insertNew, hgt]

theorem abs_compact (l : Leaf) (w : WF l) : abs (compact l) = abs l := by
  unfold compact
  split
  · rfl
  · have hlive := w.live; have hfe := w.fe
    obtain ⟨_, _, _, _, _, h6⟩ := compact_facts l.cells 16384 (by omega)
    show (compactCells l.cells 16384).1.map kv = l.cells.map kv
    have := congrArg (List.map (fun t : List Nat × List Nat × List Nat => (t.2.1, t.2.2))) h6
    simp only [List.map_map, Function.comp_def] at this
    unfold kv; exact this

/-- the page after `delete_cell i` (no compaction, see `C29.compact_unreachable`) -/
def afterDelete (l : Leaf) (i : Nat) (c : Cell) : Leaf :=
  { l with cells := removeAt l.cells i, freeStart := l.freeStart - 8, frag := satAddU8 l.frag (c.size % 256) }

theorem deleteCell_eq {l : Leaf} {i : Nat} {c : Cell} (hc : l.cells[i]? = some c) :
    deleteCell l i = .ok (afterDelete l i c) := by
  unfold deleteCell
  simp only [hc]
  rw [C29.shouldCompact_false (C29.satAddU8_lt _ _)]
  simp [afterDelete]

/-! ### property theorems (leaf level) -/

/-- search: `find_key` answers exactly like the ordered map -/
theorem leaf_search_refines (l : Leaf) (k : List Nat) :
    match findKey l k with
    | .found i => ∃ c, l.cells[i]? = some c ∧ c.key = k ∧ lookup (abs l) k = some c.val
    | .notFound _ => lookup (abs l) k = none := by
  cases h : findKey l k with
  | found i => exact find_found_lookup (i := 0) (by simpa [findKey] using h)
  | notFound p => exact find_notFound_lookup h

/-- insert_cell: succeeds only for an absent key and then is the ordered-map insertion;
`key already exists` is answered only for a present key -/
theorem leaf_insert_refines {l : Leaf} {k v : List Nat} :
    (∀ l', insertCell l k v = .ok l' → lookup (abs l) k = none ∧ abs l' = insertNew (abs l) k v) ∧
    (insertCell l k v = .error .keyExists → lookup (abs l) k ≠ none) := by
  unfold insertCell
  constructor
  · intro l' h
    split at h
    · simp at h
    · split at h
      · simp at h
      · rename_i pos hf
        simp only [Except.ok.injEq] at h
        subst h
        exact ⟨find_notFound_lookup hf, abs_insertAt (i := 0) (by simpa [findKey] using hf)⟩
  · intro h
    split at h
    · simp at h
    · split at h
      · rename_i i hf
        obtain ⟨c, _, _, hl⟩ := find_found_lookup (i := 0) (j := i) (by simpa [findKey] using hf)
        rw [abs_eq, hl]; simp
      · simp at h

/-- insert_cell_at with the position returned by find_key -/
theorem leaf_insertAt_refines {l l' : Leaf} {k v : List Nat} {pos : Nat}
    (hpos : findKey l k = .notFound pos) (h : insertCellAt l k v pos = .ok l') :
    abs l' = insertNew (abs l) k v := by
  unfold insertCellAt at h
  split at h
  · simp at h
  · split at h
    · simp at h
    · simp only [Except.ok.injEq] at h
      subst h
      exact abs_insertAt (i := 0) (by simpa [findKey] using hpos)

/-- insert_at_end under its contract (key greater than every key of the page) -/
theorem leaf_append_refines {l l' : Leaf} {k v : List Nat}
    (hmax : ∀ c ∈ l.cells, cmpBytes c.key k = .lt) (h : insertAtEnd l k v = .ok l') :
    abs l' = insertNew (abs l) k v := by
  unfold insertAtEnd at h
  split at h
  · simp at h
  · simp only [Except.ok.injEq] at h
    subst h
    exact abs_insertAt (i := 0) (by simpa using find_all_lt 0 hmax)

/-- `BTree::delete` on the reached leaf: returns whether the key was present and erases it -/
theorem leaf_delete_refines {l : Leaf} (w : WF l) (k : List Nat) :
    (delete l k).res = .ok (lookup (abs l) k).isSome ∧ abs (delete l k).leaf = erase (abs l) k := by
  unfold delete
  cases hf : findKey l k with
  | notFound p =>
    have hn := find_notFound_lookup hf
    rw [abs_eq, hn, ← abs_eq]
    exact ⟨rfl, (erase_of_lookup_none (by rw [abs_eq]; exact hn)).symm⟩
  | found i =>
    have hf' : findFrom k l.cells 0 = .found (0 + i) := by simpa [findKey] using hf
    obtain ⟨c, hc, _, hl⟩ := find_found_lookup hf'
    have hd := deleteCell_eq hc
    simp only [hd]
    rw [abs_eq, hl]
    exact ⟨rfl, abs_removeAt hf'⟩

/-- `BTree::update` on the reached leaf, PARTIAL: whenever the call returns `Ok(true)` the page
content is the ordered-map replacement (all three branches: in place, shrink, delete+insert);
`Ok(false)` leaves the page untouched; an absent key always yields `Ok(false)`.
The full statement ("a call on a present key never loses it") is false, see
`update_grow_counterexample`. -/
theorem leaf_updateG_refines_partial (fixed : Bool) {l : Leaf} (w : WF l) (k v : List Nat) :
    ((updateG fixed l k v).res = .ok true →
        lookup (abs l) k ≠ none ∧ abs (updateG fixed l k v).leaf = replace (abs l) k v) ∧
    ((updateG fixed l k v).res = .ok false → (updateG fixed l k v).leaf = l) ∧
    (lookup (abs l) k = none → (updateG fixed l k v).res = .ok false) := by
  unfold updateG
  cases hf : findKey l k with
  | notFound p =>
    have hn := find_notFound_lookup hf
    refine ⟨by intro h; simp at h, fun _ => rfl, fun _ => rfl⟩
  | found i =>
    have hf' : findFrom k l.cells 0 = .found (0 + i) := by simpa [findKey] using hf
    obtain ⟨c, hc, hck, hl⟩ := find_found_lookup hf'
    have hpres : lookup (abs l) k ≠ none := by rw [abs_eq, hl]; simp
    dsimp only
    simp only [hc]
    by_cases h1 : v.length = c.val.length
    · rw [if_pos h1]
      have hu : updateInPlace l i v = .ok { l with cells := modifyAt (fun c => { c with val := v }) l.cells i } := by
        unfold updateInPlace; simp [hc, h1]
      simp only [hu]
      exact ⟨fun _ => ⟨hpres, abs_modifyAt hf'⟩, by intro h; simp at h, fun h => absurd h hpres⟩
    · rw [if_neg h1]
      by_cases h2 : v.length < c.val.length
      · rw [if_pos h2]
        have hu : updateShrink l i v = .ok { l with
            cells := modifyAt (fun c => { c with val := v }) l.cells i
            frag := satAddU8 l.frag (((Varint.len c.val.length + c.val.length) - (Varint.len v.length + v.length)) % 256) } := by
          unfold updateShrink; simp [hc, h2]
        simp only [hu]
        exact ⟨fun _ => ⟨hpres, abs_modifyAt hf'⟩, by intro h; simp at h, fun h => absurd h hpres⟩
      · rw [if_neg h2]
        split
        · have hd := deleteCell_eq hc
          simp only [hd]
          cases hi : insertCell (afterDelete l i c) k v with
          | error e => exact ⟨by intro h; simp at h, by intro h; simp at h, fun h => absurd h hpres⟩
          | ok l2 =>
            refine ⟨fun _ => ⟨hpres, ?_⟩, by intro h; simp at h, fun h => absurd h hpres⟩
            have := (leaf_insert_refines.1 l2 hi).2
            rw [this]
            show insertNew ((removeAt l.cells i).map kv) k v = replace (l.cells.map kv) k v
            rw [abs_removeAt hf']
            exact insertNew_erase (by simpa [abs_eq] using sorted_abs w) v hl
        · exact ⟨by intro h; simp at h, fun _ => rfl, fun h => absurd h hpres⟩

/-- `BTree::update` on the reached leaf (pinned tree), PARTIAL: whenever the call returns `Ok(true)`
the page content is the ordered-map replacement (all three branches: in place, shrink,
delete+insert); `Ok(false)` leaves the page untouched; an absent key always yields `Ok(false)`.
The full statement ("a call on a present key never loses it") is false, see
`update_grow_counterexample`. -/
theorem leaf_update_refines_partial {l : Leaf} (w : WF l) (k v : List Nat) :
    ((update l k v).res = .ok true →
        lookup (abs l) k ≠ none ∧ abs (update l k v).leaf = replace (abs l) k v) ∧
    ((update l k v).res = .ok false → (update l k v).leaf = l) ∧
    (lookup (abs l) k = none → (update l k v).res = .ok false) :=
  leaf_updateG_refines_partial false w k v

theorem lookup_erase_self {m : List Entry} (hs : Sorted m) (k : List Nat) : lookup (erase m k) k = none := by
  cases h : lookup (erase m k) k with
  | none => rfl
  | some v =>
    have hm := (lookup_iff_mem (sorted_erase hs k) k v).mp h
    exact absurd rfl ((mem_erase hs k (k, v)).mp hm).2

/-- `BTree::update` after fix_update_grow.patch, FULL: the call never fails and never loses the
key: it returns `Ok(true)` with the ordered-map replacement as content, or `Ok(false)` with the page
untouched (key absent, or the grown cell does not fit the page's free space). -/
theorem leaf_update_refines_fixed {l : Leaf} (w : WF l) (k v : List Nat) :
    ((updateFixed l k v).res = .ok true ∧ lookup (abs l) k ≠ none ∧
        abs (updateFixed l k v).leaf = replace (abs l) k v) ∨
    ((updateFixed l k v).res = .ok false ∧ (updateFixed l k v).leaf = l) := by
  have hp := leaf_updateG_refines_partial true w k v
  -- it suffices to show that the result is never an error
  suffices hne : ∀ e, (updateFixed l k v).res ≠ .error e by
    cases hr : (updateFixed l k v).res with
    | error e => exact absurd hr (hne e)
    | ok b =>
      cases b with
      | true => exact Or.inl ⟨rfl, hp.1 hr⟩
      | false => exact Or.inr ⟨rfl, hp.2.1 hr⟩
  intro e
  unfold updateFixed updateG
  cases hf : findKey l k with
  | notFound p => simp
  | found i =>
    have hf' : findFrom k l.cells 0 = .found (0 + i) := by simpa [findKey] using hf
    obtain ⟨c, hc, hck, hl⟩ := find_found_lookup hf'
    dsimp only
    simp only [hc]
    by_cases h1 : v.length = c.val.length
    · rw [if_pos h1]
      have hu : updateInPlace l i v = .ok { l with cells := modifyAt (fun c => { c with val := v }) l.cells i } := by
        unfold updateInPlace; simp [hc, h1]
      simp [hu]
    · rw [if_neg h1]
      by_cases h2 : v.length < c.val.length
      · rw [if_pos h2]
        have hu : updateShrink l i v = .ok { l with
            cells := modifyAt (fun c => { c with val := v }) l.cells i
            frag := satAddU8 l.frag (((Varint.len c.val.length + c.val.length) - (Varint.len v.length + v.length)) % 256) } := by
          unfold updateShrink; simp [hc, h2]
        simp [hu]
      · rw [if_neg h2]
        split
        · rename_i hg
          have hd := deleteCell_eq hc
          simp only [hd]
          -- after delete_cell: room for the new cell + its slot, and the key is gone
          have hlen : 0 < l.cells.length := (C29.getElem?_mem_lt hc).2 |> Nat.zero_lt_of_lt
          have hfs := w.fs; have hfse := w.fse
          have hroom : cellSize k v + 8 ≤ freeSpace (afterDelete l i c) := by
            have : cellSize k v ≤ freeSpace l := by simpa [growGuard] using hg
            unfold freeSpace afterDelete at *
            simp only
            omega
          have hgone : findKey (afterDelete l i c) k = .notFound
              (match findKey (afterDelete l i c) k with | .found j => j | .notFound j => j) := by
            cases hk : findKey (afterDelete l i c) k with
            | notFound j => rfl
            | found j =>
              obtain ⟨c2, _, _, hl2⟩ := find_found_lookup (i := 0) (j := j) (by simpa [findKey] using hk)
              have habs : (afterDelete l i c).cells.map kv = erase (l.cells.map kv) k := abs_removeAt hf'
              rw [habs, lookup_erase_self (by simpa [abs_eq] using sorted_abs w)] at hl2
              cases hl2
          unfold insertCell
          rw [if_neg (by omega), hgone]
          simp
        · simp

/-- the witness: one 12-byte cell (key `01`, 10-byte value) on a page whose free space is 25
bytes (the rest of the cell area is occupied by deleted cells that `delete_cell` never reclaims) -/
def growLeaf : Leaf :=
  { cells := [{ pre := [1, 0, 0, 0], off := 16000, key := [1], val := List.replicate 10 0 }]
    freeStart := 32, freeEnd := 57, frag := 0, next := 0 }

theorem growLeaf_wf : WF growLeaf := by
  refine ⟨rfl, by decide, by decide, by decide, ?_, ?_, ?_, ?_, ?_⟩
  · intro c hc; simp [growLeaf] at hc; subst hc; decide
  · simp [growLeaf]
  · decide
  · intro c hc; simp [growLeaf] at hc; subst hc; rfl
  · simp [growLeaf]

/-- COUNTEREXAMPLE to "update of a present key keeps the key" (reproduced on the real code by the
harness, signature `btree:update-grow:key-lost`): growing the 10-byte value to 30 bytes passes the
guard `free_space (25) ≥ size_increase (20)`, `delete_cell` succeeds, `insert_cell` then needs
40 bytes but only 33 are free (the old cell's bytes are not reclaimed) and fails: the call
returns an error and the key is gone. -/
theorem update_grow_counterexample :
    WF growLeaf ∧ lookup (abs growLeaf) [1] = some (List.replicate 10 0) ∧
    (update growLeaf [1] (List.replicate 30 7)).res = .error .noSpace ∧
    lookup (abs (update growLeaf [1] (List.replicate 30 7)).leaf) [1] = none ∧
    -- with fix_update_grow.patch the same call answers Ok(false) and leaves the page alone
    (updateFixed growLeaf [1] (List.replicate 30 7)).res = .ok false :=
  ⟨growLeaf_wf, by decide, rfl, by decide, rfl⟩


/-! ### rightmost-leaf fastpath (`try_fastpath_insert` / `try_append_fastpath`) -/

theorem all_lt_of_last {cs : List Cell} {c : Cell} {k : List Nat} (hs : cs.Pairwise KLt)
    (hlast : cs.getLast? = some c) (hk : cmpBytes c.key k = .lt) : ∀ x ∈ cs, cmpBytes x.key k = .lt := by
  obtain ⟨ys, rfl⟩ := List.getLast?_eq_some_iff.mp hlast
  rw [List.pairwise_append] at hs
  intro x hx
  rcases List.mem_append.mp hx with hx | hx
  · exact cmp_lt_trans _ _ _ (hs.2.2 x hx c (by simp)) hk
  · simp only [List.mem_singleton] at hx; subst hx; exact hk

/-- fastpath, PARTIAL (pinned tree) / FULL (after fix_fastpath_empty_leaf.patch, where a non-empty
leaf is guaranteed): when the hinted leaf is NOT empty and the fastpath accepts, the key is greater
than every key of the leaf, the page stays well formed and the content is the ordered-map insertion. -/
theorem fastpath_refines_partial (fixed : Bool) {l l' : Leaf} {k v : List Nat} (w : WF l)
    (hne : l.cells ≠ []) (h : fastpathInsertG fixed l k v = some l') :
    (∀ c ∈ l.cells, cmpBytes c.key k = .lt) ∧ WF l' ∧ abs l' = insertNew (abs l) k v := by
  unfold fastpathInsertG at h
  split at h
  · simp at h
  · cases hlast : l.cells.getLast? with
    | none => exact absurd (List.getLast?_eq_none_iff.mp hlast) hne
    | some c =>
      simp only [hlast] at h
      split at h
      · simp at h
      · rename_i hbad
        have hgt : cmpBytes k c.key = .gt := by
          cases hc : cmpBytes k c.key <;> simp_all
        have hlt : cmpBytes c.key k = .lt := (cmp_gt_iff _ _).mp hgt
        have hall := all_lt_of_last w.sorted hlast hlt
        split at h
        · simp at h
        · cases hi : insertAtEnd l k v with
          | error e => simp [hi] at h
          | ok l2 =>
            simp only [hi, Option.some.injEq] at h
            subst h
            exact ⟨hall, C29.wf_insertAtEnd w hall hi, leaf_append_refines hall hi⟩

/-- after fix_fastpath_empty_leaf.patch the fastpath never accepts an empty leaf -/
theorem fastpath_fixed_nonempty {l l' : Leaf} {k v : List Nat}
    (h : fastpathInsertFixed l k v = some l') : l.cells ≠ [] := by
  intro he
  unfold fastpathInsertFixed fastpathInsertG at h
  simp [he] at h

theorem fastpath_refines_fixed {l l' : Leaf} {k v : List Nat} (w : WF l)
    (h : fastpathInsertFixed l k v = some l') :
    (∀ c ∈ l.cells, cmpBytes c.key k = .lt) ∧ WF l' ∧ abs l' = insertNew (abs l) k v :=
  fastpath_refines_partial true w (fastpath_fixed_nonempty h) h

/-! ## Tree level (M-spec model `TurVerif.BTree`), for every split policy -/
namespace Tree
open TurVerif.BTree
open TurVerif.C29.Tree (WF wf_tree_empty wf_tree_insert wf_tree_delete TOp run wf_tree_reachable)

/-- search = ordered-map lookup on the in-order content -/
theorem tree_search_refines (t : BTree.Tree) (k : Key) (w : WF t) : t.search k = lookup t.abs k :=
  search_level t.height t.root none none k w ⟨trivial, trivial⟩

/-- insert / insert_if_not_exists = ordered-map insertion of an absent key (a present key leaves the
content unchanged; the code answers `key already exists` / `Duplicate`), whatever splits happen -/
theorem tree_insert_refines (p : Policy) (t : BTree.Tree) (k : Key) (v : List Nat) (w : WF t) :
    (t.insert p k v).abs = insertNew t.abs k v := by
  have h := (insert_level p k v t.height t.root none none w ⟨trivial, trivial⟩).2
  unfold BTree.Tree.insert BTree.Tree.abs
  cases hi : insertT p k v t.height t.root with
  | one r => rw [hi] at h; exact h
  | two l s r =>
    rw [hi] at h
    show Node.abs (absT t.height) ⟨[(l, s)], r⟩ = _
    rw [← h]; simp [Node.abs, Ins.abs]

/-- delete = ordered-map erase -/
theorem tree_delete_refines (t : BTree.Tree) (k : Key) (w : WF t) : (t.delete k).abs = erase t.abs k :=
  (delete_level k t.height t.root none none w ⟨trivial, trivial⟩).2

def runSpec : List Entry → List TOp → List Entry
  | m, [] => m
  | m, .insert k v :: ops => runSpec (insertNew m k v) ops
  | m, .delete k :: ops => runSpec (erase m k) ops

/-- C28 (tree level, histories): after any sequence of inserts and deletes, with any split policy, the
tree's in-order content is what the ordered map holds, and every lookup agrees -/
theorem tree_refines_omap (p : Policy) (ops : List TOp) :
    (run p BTree.Tree.empty ops).abs = runSpec [] ops ∧
    ∀ k, (run p BTree.Tree.empty ops).search k = lookup (runSpec [] ops) k := by
  suffices h : ∀ (t : BTree.Tree) (m : List Entry), C29.Tree.WF t → t.abs = m →
      (run p t ops).abs = runSpec m ops ∧ C29.Tree.WF (run p t ops) by
    obtain ⟨h1, h2⟩ := h BTree.Tree.empty [] wf_tree_empty rfl
    exact ⟨h1, fun k => by rw [tree_search_refines _ k h2, h1]⟩
  induction ops with
  | nil => intro t m w h; exact ⟨h, w⟩
  | cons op ops ih =>
    intro t m w h
    cases op with
    | insert k v => exact ih _ _ (wf_tree_insert p t k v w) (by rw [tree_insert_refines p t k v w, h])
    | delete k => exact ih _ _ (wf_tree_delete t k w).1 (by rw [tree_delete_refines t k w, h])

/-! ### cursors -/

/-- the leaf chain concatenated is the in-order content -/
theorem leaves_flatten_abs (t : BTree.Tree) : t.leaves.flatten = t.abs := leaves_flatten t.height t.root

theorem enumFwd_single (es : List Entry) : enumFwd [es] = es := by
  simp only [enumFwd]
  split
  · rename_i he; simp at he; exact he.symm
  · simp

/-- forward cursor, PARTIAL: if no leaf is empty (or the tree is a single leaf) the enumeration from
`cursor_first` is exactly the content in key order -/
theorem cursor_forward_partial (t : BTree.Tree)
    (h : t.height = 0 ∨ ∀ l ∈ t.leaves, l ≠ []) : enumFwd t.leaves = t.abs := by
  rcases h with h | h
  · obtain ⟨n, r⟩ := t
    simp only at h
    subst h
    exact enumFwd_single r
  · rw [enumFwd_nonempty h, leaves_flatten_abs]

/-- backward cursor, PARTIAL: same hypothesis, enumeration from `cursor_last` with `prev` is the
content in reverse key order -/
theorem cursor_backward_partial (t : BTree.Tree)
    (h : t.height = 0 ∨ ∀ l ∈ t.leaves, l ≠ []) : enumBwd t.leaves = t.abs.reverse := by
  rcases h with h | h
  · obtain ⟨n, r⟩ := t
    simp only at h
    subst h
    exact enumFwd_single (List.reverse (show List Entry from r))
  · unfold enumBwd
    have hne : ∀ l ∈ t.leaves.reverse.map List.reverse, l ≠ [] := by
      intro l hl
      obtain ⟨x, hx, rfl⟩ := List.mem_map.mp hl
      have := h x (List.mem_reverse.mp hx)
      simpa using this
    rw [enumFwd_nonempty hne, ← leaves_flatten_abs, List.reverse_flatten, List.map_reverse]

/-- seek, PARTIAL: if the descent reaches a leaf `l` that holds an entry with key ≥ k, all earlier
leaves hold only keys < k and no later leaf is empty, the enumeration from `cursor_seek k` is exactly
the entries with key ≥ k -/
theorem cursor_seek_partial (pre : List (List Entry)) (l : List Entry) (rest : List (List Entry)) (k : Key)
    (hpre : ∀ e ∈ pre.flatten, lt e.1 k) (hl : fromKey l k ≠ []) (hrest : ∀ x ∈ rest, x ≠ []) :
    enumSeek (pre ++ l :: rest) pre.length k = fromKey (pre ++ l :: rest).flatten k := by
  unfold enumSeek
  have : (pre ++ l :: rest).drop pre.length = l :: rest := by simp
  rw [this]
  dsimp only
  have hne : (fromKey l k).isEmpty = false := by
    cases h : fromKey l k with
    | nil => exact absurd h hl
    | cons _ _ => rfl
  rw [hne]
  simp only [Bool.false_eq_true, if_false]
  rw [enumFwd_nonempty hrest, List.flatten_append, List.flatten_cons,
    fromKey_append_right hpre, fromKey_append_left hl]

/-- a policy that splits every leaf holding two entries in the middle (any page that can hold only
one cell of the given size behaves like this) -/
def cexPolicy : Policy := ⟨fun es => if es.length = 2 then some 1 else none, fun _ => none⟩

/-- keys 1, 2, 3 inserted, then 2 deleted: leaves `[1] → [] → [3]` -/
def cexTree : BTree.Tree :=
  ((((BTree.Tree.empty.insert cexPolicy [1] [10]).insert cexPolicy [2] [20]).insert cexPolicy [3] [30]).delete [2])

/-- COUNTEREXAMPLE (empty leaf): a well-formed tree reached by three inserts and one delete whose
forward and backward cursor enumerations stop at the emptied middle leaf. Reproduced on the real
code (signatures `btree:cursor-forward:stops-at-empty-leaf`, `btree:cursor-backward:stops-at-empty-leaf`). -/
theorem cursor_empty_leaf_counterexample :
    WF cexTree ∧ cexTree.abs = [([1], [10]), ([3], [30])] ∧
    cexTree.leaves = [[([1], [10])], [], [([3], [30])]] ∧
    enumFwd cexTree.leaves = [([1], [10])] ∧ enumBwd cexTree.leaves = [([3], [30])] := by
  refine ⟨?_, by decide, by decide, by decide, by decide⟩
  exact (wf_tree_delete _ _ (wf_tree_insert _ _ _ _ (wf_tree_insert _ _ _ _
    (wf_tree_insert _ _ _ _ wf_tree_empty)))).1

/-- keys 1 and 3 inserted: leaves `[1] → [3]`, separator 3 -/
def cexTree2 : BTree.Tree := (BTree.Tree.empty.insert cexPolicy [1] [10]).insert cexPolicy [3] [30]

/-- COUNTEREXAMPLE (seek at the end of a leaf): probe 2 is routed to the first leaf (2 < separator 3),
lies above its last key, and the cursor is exhausted although entry 3 ≥ 2 exists. Reproduced on the
real code (signature `btree:seek:gap-at-leaf-end:exhausted`). -/
theorem cursor_seek_end_of_leaf_counterexample :
    WF cexTree2 ∧ cexTree2.leaves = [[([1], [10])], [([3], [30])]] ∧
    enumSeek cexTree2.leaves 0 [2] = [] ∧ fromKey cexTree2.abs [2] = [([3], [30])] := by
  refine ⟨?_, by decide, by decide, by decide⟩
  exact wf_tree_insert _ _ _ _ (wf_tree_insert _ _ _ _ wf_tree_empty)

/-- keys 1 and 3 inserted, 3 deleted: leaves `[1] → []`, separator 3, the rightmost leaf (the hint) is empty -/
def cexTree3 : BTree.Tree := cexTree2.delete [3]

/-- `cexTree3` after the pinned fastpath has put key 2 into the (empty) hinted rightmost leaf -/
def cexTree3' : BTree.Tree := ⟨1, (⟨[(([([1], [10])] : List Entry), [3])], ([([2], [20])] : List Entry)⟩ : Node (T 0))⟩

/-- COUNTEREXAMPLE (fastpath into an emptied rightmost leaf; pinned tree): the M-code fastpath
accepts ANY key on an empty leaf with `next_leaf = 0` (no comparison is made) — here key 2 although
the leaf sits to the right of separator 3. The resulting tree violates "separators bound their
subtrees" and `search 2` misses the entry that was just stored. Reproduced on the real code
(signatures `btree:hint-fastpath:empty-rightmost-leaf:*`). -/
theorem hint_fastpath_empty_leaf_counterexample :
    WF cexTree3 ∧ cexTree3.leaves = [[([1], [10])], []] ∧
    (∃ l', fastpathInsert Leaf.init [2] [20] = some l' ∧ abs l' = [([2], [20])]) ∧
    fastpathInsertFixed Leaf.init [2] [20] = none ∧
    ¬ WF cexTree3' ∧ cexTree3'.abs = [([1], [10]), ([2], [20])] ∧ cexTree3'.search [2] = none := by
  refine ⟨(wf_tree_delete _ _ (wf_tree_insert _ _ _ _ (wf_tree_insert _ _ _ _ wf_tree_empty))).1,
    by decide, ⟨_, rfl, by decide⟩, rfl, ?_, by decide, by decide⟩
  intro h
  have h2 : WFb 0 ([([2], [20])] : List Entry) (some [3]) none := h.2.2
  have := (h2.2 ([2], [20]) (by simp)).1
  exact this (by decide)

end Tree

end TurVerif.C28
