import TurVerif.Model.CommitOrder
import TurVerif.Model.CommitCover
/-!
C38  Concurrent commits log page images in commit order.
-/
namespace TurVerif.C38
open TurVerif.CommitOrder

/-! ### helper lemmas: the invariant of the atomic-capture variant -/
def OrdInv (s : State) : Prop :=
  s.atomic = true ∧
  (s.wal ++ s.pending).Pairwise (· ≤ ·) ∧
  (∀ x ∈ s.wal ++ s.pending, x ≤ s.page) ∧
  (0 < s.page → (Pc.capture ∈ s.threads) ∨ (s.wal ++ s.pending).getLast? = some s.page) ∧
  (∀ pc ∈ s.threads, ∀ img, pc ≠ .submit img)

theorem inv_init (n : Nat) : OrdInv (init true n) := by
  refine ⟨rfl, by simp [init], by simp [init], by simp [init], ?_⟩
  intro pc hpc img
  simp [init] at hpc
  rw [hpc.2]; simp

theorem mem_set_of {α} (l : List α) (i : Nat) (a x : α) (h : x ∈ l.set i a) : x = a ∨ x ∈ l := by
  rcases List.mem_or_eq_of_mem_set h with h | h
  · exact Or.inr h
  · exact Or.inl h

theorem inv_step (s s' : State) (tid : Nat) (h : OrdInv s) (hs : step s tid = some s') : OrdInv s' := by
  obtain ⟨ha, hp, hle, hlast, hns⟩ := h
  unfold step at hs
  split at hs
  · cases hs
  · rename_i pc hpc
    have hmem : pc ∈ s.threads := List.mem_of_getElem? hpc
    have hlt : tid < s.threads.length := by
      rcases List.getElem?_eq_some_iff.mp hpc with ⟨h, _⟩; exact h
    split at hs
    · -- modify
      injection hs with hs; subst hs
      refine ⟨ha, hp, fun x hx => Nat.le_succ_of_le (hle x hx), fun _ => Or.inl ?_, ?_⟩
      · exact List.mem_iff_getElem.mpr ⟨tid, by simp [hlt], by simp⟩
      · intro pc' hpc' img
        rcases mem_set_of _ _ _ _ hpc' with h | h
        · rw [h]; simp
        · exact hns pc' h img
    · -- capture
      simp only [ha, if_true] at hs
      injection hs with hs; subst hs
      refine ⟨rfl, ?_, ?_, ?_, ?_⟩
      · show (s.wal ++ (s.pending ++ [s.page])).Pairwise (· ≤ ·)
        rw [← List.append_assoc]
        rw [List.pairwise_append]
        refine ⟨hp, by simp, ?_⟩
        intro a ha' b hb
        simp at hb; subst hb; exact hle a ha'
      · intro x hx
        show x ≤ s.page
        rw [← List.append_assoc] at hx
        rcases List.mem_append.mp hx with h | h
        · exact hle x h
        · simp at h; omega
      · intro _
        right
        show (s.wal ++ (s.pending ++ [s.page])).getLast? = some s.page
        rw [← List.append_assoc]; simp
      · intro pc' hpc' img
        rcases mem_set_of _ _ _ _ hpc' with h | h
        · rw [h]; simp
        · exact hns pc' h img
    · -- submit: impossible in atomic mode
      rename_i img
      exact absurd rfl (hns _ hmem img)
    · -- waitFlush
      injection hs with hs; subst hs
      have heq : (s.wal ++ s.pending) ++ ([] : List Nat) = s.wal ++ s.pending := by simp
      refine ⟨ha, by simpa using hp, by simpa using hle, ?_, ?_⟩
      · intro hpos
        rcases hlast hpos with h | h
        · left
          -- a thread in `capture` is untouched by the flush (tid is in waitFlush, map only rewrites waitFlush)
          rcases List.mem_iff_getElem.mp h with ⟨i, hi, hie⟩
          refine List.mem_map.mpr ⟨Pc.capture, ?_, by simp⟩
          refine List.mem_iff_getElem.mpr ⟨i, by simp [hi], ?_⟩
          rw [List.getElem_set]
          split
          · rename_i hti
            subst hti
            have : s.threads[tid]? = some Pc.capture := by rw [List.getElem?_eq_getElem hi, hie]
            rw [this] at hpc; cases hpc
          · exact hie
        · right; simpa using h
      · intro pc' hpc' img
        rcases List.mem_map.mp hpc' with ⟨q, hq, hqe⟩
        rcases mem_set_of _ _ _ _ hq with h | h
        · subst h; simp at hqe; subst hqe; simp
        · have := hns q h img
          split at hqe
          · subst hqe; simp
          · subst hqe; exact this
    · cases hs

theorem inv_run (s : State) (sched : List Nat) (h : OrdInv s) : OrdInv (run s sched) := by
  induction sched generalizing s with
  | nil => exact h
  | cons t rest ih =>
    simp only [run]
    cases hs : step s t with
    | none => simpa using ih s h
    | some s' => exact ih s' (inv_step s s' t h hs)

/-! ### property theorems -/

/-- If capture and submit are ONE atomic step, then for every number of committers and every
schedule the images reach the queue/WAL in non-decreasing version order and never exceed the
in-place version. -/
theorem atomic_wal_sorted (n : Nat) (sched : List Nat) :
    let s := run (init true n) sched
    (s.wal ++ s.pending).Pairwise (· ≤ ·) ∧ ∀ x ∈ s.wal ++ s.pending, x ≤ s.page :=
  let h := inv_run _ sched (inv_init n)
  ⟨h.2.1, h.2.2.1⟩

/-- … and once every committer is done, the last logged image is the latest committed version. -/
theorem atomic_replay_latest (n : Nat) (sched : List Nat)
    (hq : quiescent (run (init true n) sched) = true) (hpos : 0 < (run (init true n) sched).page) :
    ((run (init true n) sched).wal ++ (run (init true n) sched).pending).getLast?
      = some (run (init true n) sched).page := by
  have h := inv_run _ sched (inv_init n)
  rcases h.2.2.2.1 hpos with hc | hl
  · exfalso
    simp only [quiescent, List.all_eq_true] at hq
    have := hq _ hc
    simp at this
  · exact hl

/-- A modifies the page (v1) and captures v1; B modifies it (v2), captures v2 and submits first;
A submits its stale v1 afterwards; the leader writes [v2, v1]; replay ends with v1 although the
committed page is v2. -/
def cexSched : List Nat := [0, 0, 1, 1, 1, 0, 0]

theorem stale_image_counterexample :
    let s := run (init false 2) cexSched
    quiescent s = true ∧ s.page = 2 ∧ s.wal = [2, 1] ∧ replayed s = some 1 := by decide

/-- with capture and submit in one atomic step the same interleaving is fine -/
theorem atomic_same_schedule_fine :
    let s := run (init true 2) cexSched
    s.wal = [1, 2] ∧ replayed s = some 2 := by decide

end TurVerif.C38

/-! ## Second clause: which pages a commit covers (`TurVerif.CommitCover`) -/
namespace TurVerif.C38
open TurVerif.CommitCover

theorem getVer_setVer_same (m : List (PageId × Nat)) (pg : PageId) (v : Nat) :
    getVer (setVer m pg v) pg = v := by
  induction m with
  | nil => simp [setVer, getVer]
  | cons a rest ih =>
    obtain ⟨q, w⟩ := a
    by_cases h : q = pg
    · simp [setVer, getVer, h]
    · simp [setVer, getVer, h, ih]

theorem getVer_setVer_other (m : List (PageId × Nat)) (q pg : PageId) (v : Nat) (h : q ≠ pg) :
    getVer (setVer m q v) pg = getVer m pg := by
  induction m with
  | nil => simp [setVer, getVer, h]
  | cons a rest ih =>
    obtain ⟨r, w⟩ := a
    by_cases hr : r = q
    · subst hr; simp [setVer, getVer, h]
    · by_cases hp : r = pg
      · subst hp; simp [setVer, getVer, hr]
      · simp [setVer, getVer, hr, hp, ih]

theorem mem_markDirty_self (d : List PageId) (pg : PageId) : pg ∈ markDirty d pg := by
  unfold markDirty
  split
  · rename_i h; simpa using h
  · simp

theorem mem_markDirty_of_mem (d : List PageId) (pg q : PageId) (h : q ∈ d) : q ∈ markDirty d pg := by
  unfold markDirty
  split
  · exact h
  · simp [h]

def isWrite : Op → Bool
  | .write _ _ => true
  | _ => false

/-- writes never remove a page from the dirty tracker -/
theorem dirty_mono_writes (s : St) (ops : List Op) (hw : ∀ op ∈ ops, isWrite op = true) (q : PageId)
    (h : q ∈ s.dirty) : q ∈ (run s ops).dirty := by
  induction ops generalizing s with
  | nil => exact h
  | cons op rest ih =>
    simp only [run]
    apply ih
    · intro o ho; exact hw o (List.mem_cons_of_mem _ ho)
    · cases op with
      | write pg w =>
        cases w
        · simpa [step] using h
        · simpa [step] using mem_markDirty_of_mem _ _ _ h
      | drain f => have := hw (.drain f) (by simp); simp [isWrite] at this
      | clear f => have := hw (.clear f) (by simp); simp [isWrite] at this

/-- a page written through the wrapped storage is in the dirty tracker until the next drain -/
theorem wrapped_write_marks_dirty (s : St) (ops : List Op) (hw : ∀ op ∈ ops, isWrite op = true)
    (pg : PageId) (h : Op.write pg true ∈ ops) : pg ∈ (run s ops).dirty := by
  induction ops generalizing s with
  | nil => simp at h
  | cons op rest ih =>
    simp only [run]
    have hrest : ∀ o ∈ rest, isWrite o = true := fun o ho => hw o (List.mem_cons_of_mem _ ho)
    rcases List.mem_cons.mp h with h | h
    · subst h
      exact dirty_mono_writes _ rest hrest pg (by simpa [step] using mem_markDirty_self s.dirty pg)
    · exact ih _ hrest h

/-- draining a table logs the CURRENT image of each of its dirty pages -/
theorem drain_covers (s : St) (pg : PageId) (h : pg ∈ s.dirty) :
    covered (step s (.drain pg.1)) pg = true := by
  simp only [covered, step, drained, List.contains_eq_mem, List.mem_append, List.mem_map,
    List.mem_filter, decide_eq_true_eq]
  right
  exact ⟨pg, ⟨h, by simp⟩, rfl⟩

/-- later drains / clears do not touch page contents and only append to the log -/
theorem covered_mono (s : St) (op : Op) (hnw : isWrite op = false) (pg : PageId)
    (h : covered s pg = true) : covered (step s op) pg = true := by
  cases op with
  | write q w => simp [isWrite] at hnw
  | drain f =>
    simp only [covered, step, List.contains_eq_mem, List.mem_append, decide_eq_true_eq] at h ⊢
    exact Or.inl h
  | clear f => simpa [covered, step] using h

theorem covered_mono_run (s : St) (ops : List Op) (hnw : ∀ op ∈ ops, isWrite op = false) (pg : PageId)
    (h : covered s pg = true) : covered (run s ops) pg = true := by
  induction ops generalizing s with
  | nil => exact h
  | cons op rest ih =>
    simp only [run]
    exact ih _ (fun o ho => hnw o (List.mem_cons_of_mem _ ho)) (covered_mono s op (hnw op (by simp)) pg h)

/-- SECOND CLAUSE, the part the code's protocol guarantees: a unit of page writes followed by the
drain of a table covers every page of that table that was written through the WAL-wrapped storage,
whatever else was written and however the state looked before -/
theorem unit_then_drain_covers_wrapped (s : St) (writes : List Op)
    (hw : ∀ op ∈ writes, isWrite op = true) (pg : PageId) (h : Op.write pg true ∈ writes) :
    covered (run s (writes ++ [.drain pg.1])) pg = true := by
  have hrun : ∀ (s : St) (l1 l2 : List Op), run s (l1 ++ l2) = run (run s l1) l2 := by
    intro s l1; induction l1 generalizing s with
    | nil => intro l2; rfl
    | cons a r ih => intro l2; simp [run, ih]
  rw [hrun]
  simp only [run]
  exact drain_covers _ pg (wrapped_write_marks_dirty s writes hw pg h)

/-- a drain of table `f` covers a dirty page of `f` also when other drains follow (COMMIT drains
every dirty table, one after the other) -/
theorem drains_cover (s : St) (pg : PageId) (h : pg ∈ s.dirty) (before after : List Nat)
    (hb : pg.1 ∉ before) :
    covered (run s (before.map .drain ++ [.drain pg.1] ++ after.map .drain)) pg = true := by
  have hrun : ∀ (s : St) (l1 l2 : List Op), run s (l1 ++ l2) = run (run s l1) l2 := by
    intro s l1; induction l1 generalizing s with
    | nil => intro l2; rfl
    | cons a r ih => intro l2; simp [run, ih]
  rw [hrun, hrun]
  apply covered_mono_run
  · intro op hop
    rcases List.mem_map.mp hop with ⟨f, _, rfl⟩; rfl
  · simp only [run]
    apply drain_covers
    -- drains of other tables keep `pg` dirty
    clear hrun
    induction before generalizing s with
    | nil => exact h
    | cons f rest ih =>
      simp only [List.map_cons, run]
      apply ih
      · simp only [step, List.mem_filter]
        refine ⟨h, ?_⟩
        have : pg.1 ≠ f := fun e => hb (by simp [e])
        simpa using this
      · intro hm; exact hb (List.mem_cons_of_mem _ hm)

/-- draining a list of tables that contains the page's table covers a dirty page, wherever the
table stands in the list and whatever else is drained -/
theorem drain_list_covers (fs : List Nat) (s : St) (pg : PageId) (h : pg ∈ s.dirty) (hf : pg.1 ∈ fs) :
    covered (run s (fs.map .drain)) pg = true := by
  induction fs generalizing s with
  | nil => simp at hf
  | cons f rest ih =>
    simp only [List.map_cons, run]
    by_cases e : f = pg.1
    · subst e
      apply covered_mono_run
      · intro op hop
        rcases List.mem_map.mp hop with ⟨g, _, rfl⟩; rfl
      · exact drain_covers s pg h
    · apply ih
      · simp only [step, List.mem_filter]
        refine ⟨h, ?_⟩
        have : pg.1 ≠ f := fun x => e x.symm
        simpa using this
      · rcases List.mem_cons.mp hf with hh | hh
        · exact absurd hh.symm e
        · exact hh

/-- COMMIT of a transaction (`commitAll`: every table that has dirty pages is drained) covers every
page that is dirty at that moment, i.e. every page written through the wrapped storage since its
table was last drained -/
theorem commit_all_covers (s : St) (pg : PageId) (h : pg ∈ s.dirty) :
    covered (run s (commitAll s)) pg = true := by
  unfold commitAll
  apply drain_list_covers _ s pg h
  rw [List.mem_eraseDups]
  exact List.mem_map.mpr ⟨pg, h, rfl⟩

/-- invariant of every reachable state: no logged image is newer than the page -/
def WalLe (s : St) : Prop := ∀ x ∈ s.wal, x.2 ≤ getVer s.ver x.1

theorem walLe_step (s : St) (op : Op) (h : WalLe s) : WalLe (step s op) := by
  cases op with
  | write pg w =>
    intro x hx
    simp only [step] at hx ⊢
    by_cases e : pg = x.1
    · subst e; rw [getVer_setVer_same]; exact Nat.le_succ_of_le (h x hx)
    · rw [getVer_setVer_other _ _ _ _ e]; exact h x hx
  | drain f =>
    intro x hx
    simp only [step, List.mem_append, List.mem_map] at hx ⊢
    rcases hx with hx | ⟨q, _, rfl⟩
    · exact h x hx
    · exact Nat.le_refl _
  | clear f => intro x hx; exact h x (by simpa [step] using hx)

theorem walLe_run (s : St) (ops : List Op) (h : WalLe s) : WalLe (run s ops) := by
  induction ops generalizing s with
  | nil => exact h
  | cons op rest ih => exact ih _ (walLe_step s op h)

theorem walLe_reachable (ops : List Op) : WalLe (run {} ops) :=
  walLe_run _ ops (by intro x hx; simp at hx)

/-- SECOND CLAUSE, where the code falls short: a page written through an UNWRAPPED storage (index
file, header page) while it is not in the dirty tracker is not covered, however many drains the
commit performs -/
theorem unwrapped_write_not_covered (s : St) (hle : WalLe s) (pg : PageId) (hnd : pg ∉ s.dirty)
    (drains : List Op) (hd : ∀ op ∈ drains, isWrite op = false) :
    covered (run (step s (.write pg false)) drains) pg = false := by
  -- invariant along the drains: pg is not dirty, the version stays v+1, every logged image of pg is ≤ v
  have key : ∀ (t : St) (l : List Op), (∀ op ∈ l, isWrite op = false) → pg ∉ t.dirty →
      getVer t.ver pg = getVer s.ver pg + 1 → (∀ x ∈ t.wal, x.1 = pg → x.2 ≤ getVer s.ver pg) →
      covered (run t l) pg = false := by
    intro t l
    induction l generalizing t with
    | nil =>
      intro _ _ hv hw
      simp only [run, covered, List.contains_eq_mem, decide_eq_false_iff_not]
      intro hm
      have := hw _ hm rfl
      simp only at this
      omega
    | cons op rest ih =>
      intro hl hnd' hv hw
      simp only [run]
      have hop := hl op (by simp)
      apply ih _ (fun o ho => hl o (List.mem_cons_of_mem _ ho))
      · cases op with
        | write q w => simp [isWrite] at hop
        | drain f => simp only [step, List.mem_filter]; intro hm; exact hnd' hm.1
        | clear f => simp only [step, List.mem_filter]; intro hm; exact hnd' hm.1
      · cases op with
        | write q w => simp [isWrite] at hop
        | drain f => simpa [step] using hv
        | clear f => simpa [step] using hv
      · cases op with
        | write q w => simp [isWrite] at hop
        | drain f =>
          intro x hx hxp
          simp only [step, List.mem_append, List.mem_map, drained, List.mem_filter] at hx
          rcases hx with hx | ⟨q, ⟨hq, _⟩, rfl⟩
          · exact hw x hx hxp
          · simp only at hxp; subst hxp; exact absurd hq hnd'
        | clear f => intro x hx hxp; exact hw x (by simpa [step] using hx) hxp
  apply key _ drains hd
  · simpa [step] using hnd
  · simp [step, getVer_setVer_same]
  · intro x hx hxp
    have := hle x (by simpa [step] using hx)
    rw [hxp] at this; exact this

/-- index page written next to a table page; the statement drains the table: the index page's
image is in no frame (C01/C02 finding "index pages bypass the WAL", seen from the commit side) -/
theorem index_page_uncovered_counterexample :
    let s := run {} [.write (1, 1) true, .write (2, 1) false, .drain 1]
    covered s (1, 1) = true ∧ covered s (2, 1) = false := by decide

/-- autocommit UPDATE of a TOAST-sized value: the TOAST page IS marked dirty (table 4) but the
statement drains only its own table (1); the TOAST page stays uncovered until some later COMMIT
drains every dirty table -/
theorem toast_page_not_drained_counterexample :
    let s := run {} [.write (1, 1) true, .write (4, 1) true, .drain 1]
    covered s (4, 1) = false ∧ covered (run s (commitAll s)) (4, 1) = true := by decide

end TurVerif.C38
