import TurVerif.Model.CommitOrder
/-!
C38  Concurrent commits log page images in commit order.
-/
namespace TurVerif.C38
open TurVerif.CommitOrder

/-! ### helper lemmas: the invariant of the atomic-capture variant -/
def OrdInv (s : State) : Prop :=
  s.atomic = true ∧
  (s.wal ++ s.pending).Pairwise (· ≤ ·) ∧
  (∀ x ∈ s.wal ++ s.pending, x ≤ s.page) ∧
  (0 < s.page → (Pc.capture ∈ s.threads) ∨ (s.wal ++ s.pending).getLast? = some s.page) ∧
  (∀ pc ∈ s.threads, ∀ img, pc ≠ .submit img)

theorem inv_init (n : Nat) : OrdInv (init true n) := by
  refine ⟨rfl, by simp [init], by simp [init], by simp [init], ?_⟩
  intro pc hpc img
  simp [init] at hpc
  rw [hpc.2]; simp

theorem mem_set_of {α} (l : List α) (i : Nat) (a x : α) (h : x ∈ l.set i a) : x = a ∨ x ∈ l := by
  rcases List.mem_or_eq_of_mem_set h with h | h
  · exact Or.inr h
  · exact Or.inl h

theorem inv_step (s s' : State) (tid : Nat) (h : OrdInv s) (hs : step s tid = some s') : OrdInv s' := by
  obtain ⟨ha, hp, hle, hlast, hns⟩ := h
  unfold step at hs
  split at hs
  · cases hs
  · rename_i pc hpc
    have hmem : pc ∈ s.threads := List.mem_of_getElem? hpc
    have hlt : tid < s.threads.length := by
      rcases List.getElem?_eq_some_iff.mp hpc with ⟨h, _⟩; exact h
    split at hs
    · -- modify
      injection hs with hs; subst hs
      refine ⟨ha, hp, fun x hx => Nat.le_succ_of_le (hle x hx), fun _ => Or.inl ?_, ?_⟩
      · exact List.mem_iff_getElem.mpr ⟨tid, by simp [hlt], by simp⟩
      · intro pc' hpc' img
        rcases mem_set_of _ _ _ _ hpc' with h | h
        · rw [h]; simp
        · exact hns pc' h img
    · -- capture
      simp only [ha, if_true] at hs
      injection hs with hs; subst hs
      refine ⟨rfl, ?_, ?_, ?_, ?_⟩
      · show (s.wal ++ (s.pending ++ [s.page])).Pairwise (· ≤ ·)
        rw [← List.append_assoc]
        rw [List.pairwise_append]
        refine ⟨hp, by simp, ?_⟩
        intro a ha' b hb
        simp at hb; subst hb; exact hle a ha'
      · intro x hx
        show x ≤ s.page
        rw [← List.append_assoc] at hx
        rcases List.mem_append.mp hx with h | h
        · exact hle x h
        · simp at h; omega
      · intro _
        right
        show (s.wal ++ (s.pending ++ [s.page])).getLast? = some s.page
        rw [← List.append_assoc]; simp
      · intro pc' hpc' img
        rcases mem_set_of _ _ _ _ hpc' with h | h
        · rw [h]; simp
        · exact hns pc' h img
    · -- submit: impossible in atomic mode
      rename_i img
      exact absurd rfl (hns _ hmem img)
    · -- waitFlush
      injection hs with hs; subst hs
      have heq : (s.wal ++ s.pending) ++ ([] : List Nat) = s.wal ++ s.pending := by simp
      refine ⟨ha, by simpa using hp, by simpa using hle, ?_, ?_⟩
      · intro hpos
        rcases hlast hpos with h | h
        · left
          -- a thread in `capture` is untouched by the flush (tid is in waitFlush, map only rewrites waitFlush)
          rcases List.mem_iff_getElem.mp h with ⟨i, hi, hie⟩
          refine List.mem_map.mpr ⟨Pc.capture, ?_, by simp⟩
          refine List.mem_iff_getElem.mpr ⟨i, by simp [hi], ?_⟩
          rw [List.getElem_set]
          split
          · rename_i hti
            subst hti
            have : s.threads[tid]? = some Pc.capture := by rw [List.getElem?_eq_getElem hi, hie]
            rw [this] at hpc; cases hpc
          · exact hie
        · right; simpa using h
      · intro pc' hpc' img
        rcases List.mem_map.mp hpc' with ⟨q, hq, hqe⟩
        rcases mem_set_of _ _ _ _ hq with h | h
        · subst h; simp at hqe; subst hqe; simp
        · have := hns q h img
          split at hqe
          · subst hqe; simp
          · subst hqe; exact this
    · cases hs

theorem inv_run (s : State) (sched : List Nat) (h : OrdInv s) : OrdInv (run s sched) := by
  induction sched generalizing s with
  | nil => exact h
  | cons t rest ih =>
    simp only [run]
    cases hs : step s t with
    | none => simpa using ih s h
    | some s' => exact ih s' (inv_step s s' t h hs)

/-! ### property theorems -/

/-- If capture and submit are ONE atomic step, then for every number of committers and every
schedule the images reach the queue/WAL in non-decreasing version order and never exceed the
in-place version. -/
theorem atomic_wal_sorted (n : Nat) (sched : List Nat) :
    let s := run (init true n) sched
    (s.wal ++ s.pending).Pairwise (· ≤ ·) ∧ ∀ x ∈ s.wal ++ s.pending, x ≤ s.page :=
  let h := inv_run _ sched (inv_init n)
  ⟨h.2.1, h.2.2.1⟩

/-- … and once every committer is done, the last logged image is the latest committed version. -/
theorem atomic_replay_latest (n : Nat) (sched : List Nat)
    (hq : quiescent (run (init true n) sched) = true) (hpos : 0 < (run (init true n) sched).page) :
    ((run (init true n) sched).wal ++ (run (init true n) sched).pending).getLast?
      = some (run (init true n) sched).page := by
  have h := inv_run _ sched (inv_init n)
  rcases h.2.2.2.1 hpos with hc | hl
  · exfalso
    simp only [quiescent, List.all_eq_true] at hq
    have := hq _ hc
    simp at this
  · exact hl

/-- A modifies the page (v1) and captures v1; B modifies it (v2), captures v2 and submits first;
A submits its stale v1 afterwards; the leader writes [v2, v1]; replay ends with v1 although the
committed page is v2. -/
def cexSched : List Nat := [0, 0, 1, 1, 1, 0, 0]

theorem stale_image_counterexample :
    let s := run (init false 2) cexSched
    quiescent s = true ∧ s.page = 2 ∧ s.wal = [2, 1] ∧ replayed s = some 1 := by decide

/-- with capture and submit in one atomic step the same interleaving is fine -/
theorem atomic_same_schedule_fine :
    let s := run (init true 2) cexSched
    s.wal = [1, 2] ∧ replayed s = some 2 := by decide

end TurVerif.C38
