import TurVerif.Lemmas.Sieve4
import TurVerif.Model.CacheMiss
/-!
C35  The page cache never evicts pinned pages or mixes contents; shards respect their capacity;
budget accounting.

Theorems about the M-code model `TurVerif.Sieve` (transcribed from src/storage/cache.rs and the
`Pool::Cache` part of src/memory/budget.rs).  Every public call is one atomic model step (see the
header of Model/Sieve.lean for the reading of the locking that justifies it), so a statement
"for every state satisfying the invariant, after any call …" covers every interleaving of any
number of threads.  `CInv` is the invariant (64 shards, each with unique keys, index = vector, hand in
range, len ≤ capacity); it holds initially and is preserved by every modelled call.
-/
namespace TurVerif.C35
open TurVerif.Sieve

/-! ### cache-level plumbing (helper lemmas) -/

def CInv (c : Cache) : Prop := c.shards.length = SHARD_COUNT ∧ ∀ sh ∈ c.shards, Good sh

/-- budget accounting: the cache pool holds exactly 16 KiB per cached page -/
def BInv (c : Cache) : Prop := ∀ bb, c.budget = some bb → bb.cacheUsed = PAGE_SIZE * c.len

theorem shardIndex_lt (k : Key) : shardIndex k < SHARD_COUNT := Nat.mod_lt _ (by decide)

theorem shard_mem {c : Cache} {i : Nat} (h : i < c.shards.length) : c.shard i ∈ c.shards := by
  unfold Cache.shard
  rw [List.getD_eq_getElem?_getD, List.getElem?_eq_getElem h]
  simp

theorem cinv_setShard {c : Cache} {i : Nat} {sh : Shard} (b : Option Budget) (h : CInv c)
    (hg : Good sh) : CInv { (c.setShard i sh) with budget := b } := by
  refine ⟨by simp [Cache.setShard, h.1], ?_⟩
  intro x hx
  simp only [Cache.setShard] at hx
  rcases List.mem_or_eq_of_mem_set hx with h1 | h1
  · exact h.2 x h1
  · rw [h1]; exact hg

theorem shard_setShard {c : Cache} {i j : Nat} {sh : Shard} (h : i < c.shards.length) :
    (c.setShard i sh).shard j = if j = i then sh else c.shard j := by
  unfold Cache.shard Cache.setShard
  simp only [List.getD_eq_getElem?_getD, List.getElem?_set]
  by_cases hji : j = i
  · subst hji; simp [h]
  · simp [hji, Ne.symm hji]

theorem sum_set (l : List Shard) (i : Nat) (x : Shard) (h : i < l.length) :
    ((l.set i x).map (·.entries.length)).sum + l[i].entries.length =
      (l.map (·.entries.length)).sum + x.entries.length := by
  induction l generalizing i with
  | nil => simp at h
  | cons a r ih =>
    cases i with
    | zero => simp; omega
    | succ i =>
      have := ih i (by simpa using h)
      simp only [List.set_cons_succ, List.map_cons, List.sum_cons, List.getElem_cons_succ]
      omega

theorem len_setShard {c : Cache} {i : Nat} {sh : Shard} (h : i < c.shards.length) :
    (c.setShard i sh).len + (c.shard i).entries.length = c.len + sh.entries.length := by
  have := sum_set c.shards i sh h
  unfold Cache.len Cache.setShard Cache.shard
  rw [List.getD_eq_getElem?_getD, List.getElem?_eq_getElem h]
  simpa using this

theorem mem_len_le_sum (l : List Shard) (s : Shard) (hm : s ∈ l) :
    s.entries.length ≤ (l.map (·.entries.length)).sum := by
  induction l with
  | nil => cases hm
  | cons a r ih =>
    rcases List.mem_cons.mp hm with h1 | h1
    · subst h1; simp
    · have := ih h1; simp; omega

theorem shard_len_le {c : Cache} {i : Nat} (h : i < c.shards.length) :
    (c.shard i).entries.length ≤ c.len := mem_len_le_sum _ _ (shard_mem h)

theorem goi_eq (c : Cache) (k : Key) (initOk : Bool) (val : Nat) :
    c.getOrInsert k initOk val =
      ({ (c.setShard (shardIndex k) (goiShard (c.shard (shardIndex k)) c.budget k initOk val).1) with
          budget := (goiShard (c.shard (shardIndex k)) c.budget k initOk val).2.1 },
        (goiShard (c.shard (shardIndex k)) c.budget k initOk val).2.2) := by
  unfold Cache.getOrInsert
  rfl

/-! ### property theorems -/

/-- **evict_never_pinned**: whatever `CacheShard::evict` returns as victim is the entry under the
    hand, and its pin count is 0; the loop never indexes outside the vector; it only clears
    visited flags (`Flagged`) -/
theorem evict_never_pinned {sh : Shard} (h : SInv sh) :
    Flagged sh.entries (evict sh).1.entries ∧ (evict sh).2 ≠ .oob ∧
    ∀ k d, (evict sh).2 = .victim k d →
      ∃ e : Entry, (evict sh).1.entries[(evict sh).1.hand]? = some e ∧ e.key = k ∧ e.pin = 0 :=
  ⟨(evict_spec h).2.1, (evict_spec h).2.2.2.1, (evict_spec h).2.2.2.2⟩

/-- **len_le_cap** and **index_consistent**: the invariant (unique keys, index = vector, hand in
    range, every shard within its capacity) survives `get_or_insert`, whatever its outcome -/
theorem len_le_cap {c : Cache} (k : Key) (initOk : Bool) (val : Nat) (h : CInv c) :
    CInv (c.getOrInsert k initOk val).1 := by
  rw [goi_eq]
  have hi : shardIndex k < c.shards.length := by rw [h.1]; exact shardIndex_lt k
  exact cinv_setShard _ h (goiShard_spec c.budget k initOk val (h.2 _ (shard_mem hi))).1

/-- the same, spelled out for one shard -/
theorem index_consistent {c : Cache} (k : Key) (initOk : Bool) (val : Nat) (h : CInv c) :
    ∀ sh ∈ (c.getOrInsert k initOk val).1.shards,
      sh.entries.length ≤ sh.cap ∧
      (∀ (q : Key) (i : Nat), alFind sh.index q = some i ↔ ∃ e : Entry, sh.entries[i]? = some e ∧ e.key = q) ∧
      (∀ (i j : Nat) (e1 e2 : Entry), sh.entries[i]? = some e1 → sh.entries[j]? = some e2 →
        e1.key = e2.key → i = j) :=
  fun sh hm => ⟨((len_le_cap k initOk val h).2 sh hm).2, ((len_le_cap k initOk val h).2 sh hm).1.idx,
    ((len_le_cap k initOk val h).2 sh hm).1.uniq⟩

/-- **pinned pages are never evicted, and keep their contents** (`data_last_written` for every call
    other than a write to that key): any entry with `pin > 0` in any shard is still there after
    `get_or_insert` of any key, with the same data and a pin count that has not dropped -/
theorem data_last_written {c : Cache} (k : Key) (initOk : Bool) (val : Nat) (h : CInv c)
    (j : Nat) (hj : j < SHARD_COUNT) :
    ∀ e ∈ (c.shard j).entries, 0 < e.pin →
      ∃ e' ∈ ((c.getOrInsert k initOk val).1.shard j).entries,
        e'.key = e.key ∧ e'.data = e.data ∧ e.pin ≤ e'.pin := by
  intro e he hp
  rw [goi_eq]
  have hi : shardIndex k < c.shards.length := by rw [h.1]; exact shardIndex_lt k
  have hsh : (Cache.shard { (c.setShard (shardIndex k)
        (goiShard (c.shard (shardIndex k)) c.budget k initOk val).1) with
        budget := (goiShard (c.shard (shardIndex k)) c.budget k initOk val).2.1 } j) =
      (c.setShard (shardIndex k) (goiShard (c.shard (shardIndex k)) c.budget k initOk val).1).shard j :=
    rfl
  rw [hsh, shard_setShard hi]
  by_cases hji : j = shardIndex k
  · subst hji
    simp only [if_true]
    exact (goiShard_spec c.budget (k := k) initOk val (h.2 _ (shard_mem hi))).2.2.1 e he hp
  · simp only [hji, if_false]
    exact ⟨e, he, rfl, rfl, Nat.le_refl _⟩

/-- a written page reads back what was written -/
theorem read_after_write {c : Cache} (k : Key) (v : Nat) (h : CInv c) (e : Entry)
    (he : c.findEntry k = some e) : (c.write k v).read k = some v := by
  have hi : shardIndex k < c.shards.length := by rw [h.1]; exact shardIndex_lt k
  unfold Cache.findEntry at he
  unfold Cache.write Cache.updEntry Cache.read Cache.findEntry
  cases hf : alFind (c.shard (shardIndex k)).index k with
  | none => simp [hf] at he
  | some idx =>
    simp only [hf] at he ⊢
    simp only [he]
    rw [shard_setShard hi]
    simp only [if_true, hf]
    have : idx < (c.shard (shardIndex k)).entries.length := by
      rcases Nat.lt_or_ge idx (c.shard (shardIndex k)).entries.length with h1 | h1
      · exact h1
      · simp [List.getElem?_eq_none h1] at he
    simp [this]

/-- **budget_eq_len_partial**: on calls whose `init` does not fail (and that do not hit one of the
    model's `broken` outcomes) `cache_used = len * PAGE_SIZE` is preserved by `get_or_insert` -/
theorem budget_eq_len_partial {c : Cache} (k : Key) (initOk : Bool) (val : Nat) (h : CInv c)
    (hb : BInv c) (hr : (c.getOrInsert k initOk val).2 ≠ .errInit)
    (hbr : ∀ w, (c.getOrInsert k initOk val).2 ≠ .broken w) :
    BInv (c.getOrInsert k initOk val).1 := by
  rw [goi_eq] at hr hbr ⊢
  have hi : shardIndex k < c.shards.length := by rw [h.1]; exact shardIndex_lt k
  obtain ⟨-, -, -, hnone, hacc⟩ := goiShard_spec c.budget k initOk val (h.2 _ (shard_mem hi))
  intro bb' hbb'
  simp only at hbb' hr hbr
  rcases Option.eq_none_or_eq_some c.budget with hcb | ⟨bb, hcb⟩
  · rw [hnone hcb] at hbb'; cases hbb'
  · have hbu := hb bb hcb
    have hle := shard_len_le hi
    obtain ⟨b2, e1, -, -, e4⟩ := hacc bb hcb (by rw [hbu]; exact Nat.mul_le_mul_left _ hle)
    rw [e1] at hbb'
    injection hbb' with hbb'
    subst hbb'
    have hlen := len_setShard (sh := (goiShard (c.shard (shardIndex k)) c.budget k initOk val).1) hi
    show b2.cacheUsed = PAGE_SIZE *
      (c.setShard (shardIndex k) (goiShard (c.shard (shardIndex k)) c.budget k initOk val).1).len
    have hd := congrArg (PAGE_SIZE * ·) hlen
    simp only [Nat.mul_add] at hd
    generalize (goiShard (c.shard (shardIndex k)) c.budget k initOk val).2.2 = res at e4 hr hbr
    cases res with
    | errInit => exact absurd rfl hr
    | broken w => exact absurd rfl (hbr w)
    | hit => simp only [MissAcc] at e4; omega
    | inserted => simp only [MissAcc] at e4; omega
    | errBudget => simp only [MissAcc] at e4; omega
    | errAlloc => simp only [MissAcc] at e4; omega
    | errFull => simp only [MissAcc] at e4; omega

/-- **budget returns to zero**: `clear` on a cache whose accounting is exact leaves `cache_used = 0`
    and no entry -/
theorem budget_zero_after_clear {c : Cache} (hb : BInv c) :
    (∀ bb, c.clear.budget = some bb → bb.cacheUsed = 0) ∧ c.clear.len = 0 := by
  constructor
  · intro bb h
    unfold Cache.clear releaseB at h
    cases hcb : c.budget with
    | none => simp [hcb] at h
    | some b0 =>
      simp only [hcb, Option.map] at h
      injection h with h
      subst h
      rw [release_used, hb b0 hcb, Nat.mul_comm]
      exact Nat.sub_self _
  · unfold Cache.clear Cache.len
    simp only [List.map_map]
    induction c.shards with
    | nil => rfl
    | cons a r ih => simpa using ih

/-- a freshly built cache satisfies the invariant and is empty (non-vacuity of `CInv`/`BInv`) -/
theorem new_inv {total : Nat} {b : Option Budget} {c : Cache} (h : Cache.new total b = some c) :
    CInv c ∧ c.len = 0 ∧ ((∀ bb, b = some bb → bb.cacheUsed = 0) → BInv c) := by
  unfold Cache.new at h
  split at h
  · cases h
  · injection h with h
    subst h
    have hall : ∀ sh ∈ mkShards total, sh.entries = [] ∧ Good sh := by
      intro sh hm
      unfold mkShards at hm
      obtain ⟨i, -, rfl⟩ := List.mem_map.mp hm
      exact ⟨rfl, sinv_empty _, Nat.zero_le _⟩
    have hlen : (Cache.mk (mkShards total) b).len = 0 := by
      unfold Cache.len
      simp only
      generalize mkShards total = l at hall
      induction l with
      | nil => rfl
      | cons a r ih =>
        have h1 := (hall a (by simp)).1
        have h2 := ih (fun sh hm => hall sh (by simp [hm]))
        simp [h1, h2]
    refine ⟨⟨by simp [mkShards], fun sh hm => (hall sh hm).2⟩, hlen, ?_⟩
    intro hz bb hbb
    rw [hlen, hz bb hbb, Nat.mul_zero]

/-- `get` keeps the invariant -/
theorem get_inv {c : Cache} (k : Key) (h : CInv c) : CInv (c.get k).1 := by
  have hi : shardIndex k < c.shards.length := by rw [h.1]; exact shardIndex_lt k
  unfold Cache.get
  cases hf : alFind (c.shard (shardIndex k)).index k with
  | none => simpa [hf] using h
  | some idx =>
    simp only [hf]
    exact cinv_setShard c.budget h (touch_spec (h.2 _ (shard_mem hi)) hf).1

/-- `unpin`, `write`, `mark_dirty`, `clear_dirty` (any per-entry update that keeps the key) keep
    the invariant -/
theorem updEntry_inv {c : Cache} (k : Key) (f : Entry → Entry) (hf : ∀ e, (f e).key = e.key)
    (h : CInv c) : CInv (c.updEntry k f) := by
  have hi : shardIndex k < c.shards.length := by rw [h.1]; exact shardIndex_lt k
  have hg := h.2 _ (shard_mem hi)
  unfold Cache.updEntry
  cases hfi : alFind (c.shard (shardIndex k)).index k with
  | none => simpa [hfi] using h
  | some idx =>
    simp only [hfi]
    cases he : (c.shard (shardIndex k)).entries[idx]? with
    | none => simpa [he] using h
    | some e =>
      simp only [he]
      exact cinv_setShard c.budget h ⟨setEntry_sinv hg.1 he (hf e), by simpa using hg.2⟩

theorem unpin_inv {c : Cache} (k : Key) (h : CInv c) : CInv (c.unpin k) :=
  updEntry_inv k _ (fun _ => rfl) h
theorem write_inv {c : Cache} (k : Key) (v : Nat) (h : CInv c) : CInv (c.write k v) :=
  updEntry_inv k _ (fun _ => rfl) h

/-- the full budget statement is false of the code: a failing `init` leaves 16 KiB accounted for
    a page that is not cached -/
theorem budget_leak_counterexample :
    ∃ c c', Cache.new 64 (some ⟨4194304, 0, 0⟩) = some c ∧
      c.getOrInsert ⟨0, 0⟩ false 0 = (c', .errInit) ∧ c'.len = 0 ∧
      (c'.budget.map (·.cacheUsed)) = some 16384 ∧ (c'.clear.budget.map (·.cacheUsed)) = some 16384 := by
  refine ⟨_, _, rfl, rfl, ?_, ?_, ?_⟩ <;> decide

/-- `clear` is outside the property's operation list: it drops pinned pages too -/
theorem clear_evicts_pinned_counterexample :
    ∃ c c', Cache.new 64 none = some c ∧ c.getOrInsert ⟨0, 0⟩ true 7 = (c', .inserted) ∧
      (c'.findEntry ⟨0, 0⟩).map (·.pin) = some 1 ∧ c'.clear.findEntry ⟨0, 0⟩ = none := by
  refine ⟨_, _, rfl, rfl, ?_, ?_⟩ <;> decide

/-- the calls a client can make on a cache (`clear` is excluded: it drops pinned entries, see
`clear_evicts_pinned_counterexample`) -/
inductive COp where
  | getOrInsert (k : Key) (initOk : Bool) (val : Nat)
  | get (k : Key)
  | unpin (k : Key)
  | write (k : Key) (v : Nat)

def applyOp (c : Cache) : COp → Cache
  | .getOrInsert k initOk val => (c.getOrInsert k initOk val).1
  | .get k => (c.get k).1
  | .unpin k => c.unpin k
  | .write k v => c.write k v

/-- the structural invariant for EVERY operation sequence: starting from `PageCache::new`, after any
number of `get_or_insert` (with succeeding or failing `init`), `get`, unpin (drop of a `PageRef`)
and page writes, in any order and on any keys, every shard has unique keys, an index that is
exactly the vector, and at most `cap` entries -/
theorem cinv_reachable {total : Nat} {b : Option Budget} {c : Cache}
    (h : Cache.new total b = some c) (ops : List COp) : CInv (ops.foldl applyOp c) := by
  have h0 : CInv c := (new_inv h).1
  clear h
  induction ops generalizing c with
  | nil => exact h0
  | cons op ops ih =>
    apply ih
    cases op with
    | getOrInsert k i v => exact len_le_cap k i v h0
    | get k => exact get_inv k h0
    | unpin k => exact unpin_inv k h0
    | write k v => exact write_inv k v h0

/-- … hence no shard ever exceeds its capacity, whatever the history -/
theorem len_le_cap_reachable {total : Nat} {b : Option Budget} {c : Cache}
    (h : Cache.new total b = some c) (ops : List COp) :
    ∀ sh ∈ (ops.foldl applyOp c).shards, sh.entries.length ≤ sh.cap :=
  fun sh hm => ((cinv_reachable h ops).2 sh hm).2

/-- non-vacuity: `Cache.new` succeeds -/
example : ∃ c, Cache.new 64 none = some c := ⟨_, rfl⟩

end TurVerif.C35

/-! ## The miss path of `get_or_insert` is NOT one critical section: read-locked lookup, then
write-locked re-check + insert (`TurVerif.CacheMiss`, one key, any number of threads).  The
sequential model above treats the call as atomic; these theorems are what justifies that. -/
namespace TurVerif.C35
open TurVerif.CacheMiss

theorem doneCount_set (l : List Pc) (tid : Nat) (old new : Pc) (h : l[tid]? = some old) :
    ((l.set tid new).filter (· == Pc.done)).length + (if old = Pc.done then 1 else 0)
      = (l.filter (· == Pc.done)).length + (if new = Pc.done then 1 else 0) := by
  induction l generalizing tid with
  | nil => simp at h
  | cons a rest ih =>
    cases tid with
    | zero =>
      simp only [List.getElem?_cons_zero, Option.some.injEq] at h
      subst h
      simp only [List.set_cons_zero, List.filter_cons]
      by_cases ha : a = Pc.done <;> by_cases hn : new = Pc.done <;> simp [ha, hn]
    | succ t =>
      simp only [List.getElem?_cons_succ] at h
      have := ih t h
      simp only [List.set_cons_succ, List.filter_cons]
      by_cases ha : a = Pc.done <;> simp [ha] <;> omega

/-- invariant of the re-checking variant: at most one entry for the key, `init` ran as often as
there are entries, and the entry's pin count is the number of threads that have returned -/
def MissInv (s : State) : Prop :=
  s.recheck = true ∧
  ((s.entries = [] ∧ doneCount s = 0 ∧ s.inits = 0) ∨ (s.entries = [doneCount s] ∧ s.inits = 1))

theorem missInv_init (n : Nat) : MissInv (CacheMiss.init true n) := by
  refine ⟨rfl, Or.inl ⟨rfl, ?_, rfl⟩⟩
  simp [doneCount, CacheMiss.init]

theorem missInv_step (s s' : State) (tid : Nat) (h : MissInv s) (hs : step s tid = some s') :
    MissInv s' := by
  obtain ⟨hr, hcase⟩ := h
  unfold step at hs
  split at hs
  · cases hs
  · -- start
    rename_i hpc
    have hset := fun new => doneCount_set s.threads tid Pc.start new hpc
    split at hs
    · rename_i he
      injection hs with hs; subst hs
      refine ⟨hr, ?_⟩
      have := hset Pc.missed
      simp at this
      rcases hcase with ⟨_, hd, hi⟩ | ⟨hen, _⟩
      · refine Or.inl ⟨he, ?_, hi⟩
        show (List.filter (· == Pc.done) (s.threads.set tid Pc.missed)).length = 0
        rw [this]; exact hd
      · rw [he] at hen; cases hen
    · rename_i he
      injection hs with hs; subst hs
      refine ⟨hr, ?_⟩
      have := hset Pc.done
      simp at this
      rcases hcase with ⟨hen, _, _⟩ | ⟨hen, hi⟩
      · exact absurd hen he
      · right
        refine ⟨?_, hi⟩
        show pinHead s.entries = [(List.filter (· == Pc.done) (s.threads.set tid Pc.done)).length]
        rw [hen, this]; rfl
  · -- missed
    rename_i hpc
    have hset := fun new => doneCount_set s.threads tid Pc.missed new hpc
    have hd := hset Pc.done
    simp at hd
    split at hs
    · rename_i hc
      injection hs with hs; subst hs
      refine ⟨hr, ?_⟩
      rcases hcase with ⟨hen, _, _⟩ | ⟨hen, hi⟩
      · exact absurd hen hc.2
      · right
        refine ⟨?_, hi⟩
        show pinHead s.entries = [(List.filter (· == Pc.done) (s.threads.set tid Pc.done)).length]
        rw [hen, hd]; rfl
    · rename_i hc
      injection hs with hs; subst hs
      refine ⟨hr, ?_⟩
      have hemp : s.entries = [] := by
        by_cases he : s.entries = []
        · exact he
        · exact absurd ⟨hr, he⟩ hc
      rcases hcase with ⟨_, hd0, hi⟩ | ⟨hen, _⟩
      · right
        refine ⟨?_, by simp [hi]⟩
        show 1 :: s.entries = [(List.filter (· == Pc.done) (s.threads.set tid Pc.done)).length]
        rw [hemp, hd]
        have : (List.filter (· == Pc.done) s.threads).length = 0 := hd0
        rw [this]
      · rw [hemp] at hen; cases hen
  · cases hs

theorem missInv_run (s : State) (sched : List Nat) (h : MissInv s) : MissInv (run s sched) := by
  induction sched generalizing s with
  | nil => exact h
  | cons t rest ih =>
    simp only [run]
    cases hs : step s t with
    | none => simpa using ih s h
    | some s' => exact ih s' (missInv_step s s' t h hs)

/-- HEADLINE (re-check under the write lock): for every number of threads and every schedule the key
is cached at most once, `init` ran at most once, and the entry is pinned exactly once per thread
that has returned -/
theorem miss_path_single_entry (n : Nat) (sched : List Nat) :
    let s := run (CacheMiss.init true n) sched
    s.entries.length ≤ 1 ∧ s.inits ≤ 1 ∧ (∀ p ∈ s.entries, p = doneCount s) := by
  have h := missInv_run _ sched (missInv_init n)
  rcases h.2 with ⟨he, _, hi⟩ | ⟨he, hi⟩
  · simp [he, hi]
  · refine ⟨by simp [he], by simp [hi], ?_⟩
    intro p hp; rw [he] at hp; simpa using hp

/-- without the re-check two threads that both missed insert the key twice: two entries, `init`
ran twice, each entry pinned once although the index can only reach the newer one -/
theorem miss_path_without_recheck_counterexample :
    let s := run (CacheMiss.init false 2) [0, 1, 0, 1]
    s.entries = [1, 1] ∧ s.inits = 2 ∧ doneCount s = 2 := by decide

end TurVerif.C35
