import TurVerif.Model.DecCore
import TurVerif.Model.Jsonb
/-
M-code model of /repo/src/records/view.rs (`RecordView`) over the schema arithmetic of
/repo/src/records/schema.rs.

A schema is the list of its columns' fixed sizes (`some n`) or `none` for a variable-length
column (types/data_type.rs `fixed_size`).  Record layout:
  [header_len u16][null bitmap ceil(cols/8)][offset table 2*var_cols][fixed data][var data]
`RecordView::new` only checks `len ≥ 2`; every getter then slices / indexes the data with
offsets taken from the record itself.  The guards below are exactly the ones in the code
(none beyond `new`, `var_column_index`, and the length tests of `get_vector_copy`).
-/
namespace TurVerif.RecordView
open TurVerif.Dec

abbrev Schema := List (Option Nat)

def isVar (c : Option Nat) : Bool := c.isNone

/-- `Schema::new`: `fixed_offsets[col]` = sum of the fixed sizes of the earlier columns -/
def fixedOffset (s : Schema) (col : Nat) : Nat :=
  (s.take col).foldl (fun acc c => acc + c.getD 0) 0

def totalFixed (s : Schema) : Nat := fixedOffset s s.length
def varCount (s : Schema) : Nat := (s.filter isVar).length
def bitmapSize (s : Schema) : Nat := (s.length + 7) / 8

/-- `Schema::var_column_index` -/
def varIndex (s : Schema) (col : Nat) : Option Nat :=
  match s[col]? with
  | some none => some ((s.take col).filter isVar).length
  | _ => none

/-- `RecordView::new` -/
def new (b : Buf) : Res Unit :=
  if b.len = 0 then .err "empty" else if b.len < 2 then .err "short" else .ok ()

/-- `header_len` -/
def headerLen (b : Buf) : Res Nat := rd16 b 0

/-- `null_bitmap` -/
def nullBitmap (s : Schema) (b : Buf) : Res Buf := sliceB b 2 (2 + bitmapSize s)

/-- `offset_table` -/
def offsetTable (s : Schema) (b : Buf) : Res Buf :=
  sliceB b (2 + bitmapSize s) (2 + bitmapSize s + varCount s * 2)

/-- `is_null` -/
def isNull (s : Schema) (b : Buf) (col : Nat) : Res Bool :=
  (nullBitmap s b).bind fun bm =>
  (rd bm (col / 8)).bind fun x => .ok (x / 2 ^ (col % 8) % 2 == 1)

/-- `get_fixed_col_offset`: `self.schema.fixed_offsets[col_idx]` is a `Vec` index -/
def fixedColOffset (s : Schema) (b : Buf) (col : Nat) : Res Nat :=
  (headerLen b).bind fun h =>
  if col < s.length then .ok (h + fixedOffset s col) else .oob

/-- the `get_int2/int4/int8/float4/float8/date/time/timestamp/uuid/macaddr/inet4/inet6`
family: `self.data[offset..offset + n].try_into()` (the `map_err` branch is dead: the slice has
length `n` or the indexing has already panicked) -/
def getFixed (s : Schema) (b : Buf) (col n : Nat) : Res (List Nat) :=
  (fixedColOffset s b col).bind fun off => slice b off (off + n)

/-- multi-field fixed getters (`timestamptz` 8+4, `interval` 8+4+4, `enum` 2+2, `point` 8+8,
`box` 8×4, `circle` 8×3): consecutive slices -/
def getFields (s : Schema) (b : Buf) (col : Nat) (ws : List Nat) : Res (List (List Nat)) :=
  (fixedColOffset s b col).bind fun off =>
  let rec go (off : Nat) : List Nat → Res (List (List Nat))
    | [] => .ok []
    | w :: rest => (slice b off (off + w)).bind fun x => (go (off + w) rest).bind fun xs => .ok (x :: xs)
  go off ws

/-- `get_bool` -/
def getBool (s : Schema) (b : Buf) (col : Nat) : Res Bool :=
  (fixedColOffset s b col).bind fun off => (rd b off).bind fun x => .ok (x != 0)

/-- `get_var_bounds` -/
def getVarBounds (s : Schema) (b : Buf) (col : Nat) : Res (Nat × Nat) :=
  match varIndex s col with
  | none => .err "notvar"
  | some vi =>
    (offsetTable s b).bind fun ot =>
    (headerLen b).bind fun h =>
    let vds := h + totalFixed s
    (rd16 ot (vi * 2)).bind fun endOff =>
    (if vi = 0 then Res.ok 0 else rd16 ot ((vi - 1) * 2)).bind fun startOff =>
    .ok (vds + startOff, vds + endOff)

/-- `get_blob` / `get_var_raw` / `get_decimal` (a `DecimalView` is the raw slice) -/
def getBlob (s : Schema) (b : Buf) (col : Nat) : Res (List Nat) :=
  (getVarBounds s b col).bind fun (st, en) => slice b st en

/-- `get_text` / `get_char` / `get_varchar` -/
def getText (s : Schema) (b : Buf) (col : Nat) : Res (List Nat) :=
  (getBlob s b col).bind fun bs => if TurVerif.Jsonb.validUtf8 bs then .ok bs else .err "utf8"

/-- `get_jsonb` (`JsonbView::new`: ≥ 4 bytes), `get_array` (`ArrayView::new`: ≥ 8 bytes),
`get_composite` (`CompositeView::new`: ≥ 2 bytes): a slice plus a minimum length -/
def getMinLen (s : Schema) (b : Buf) (col minLen : Nat) : Res (List Nat) :=
  (getBlob s b col).bind fun bs => if bs.length < minLen then .err "short" else .ok bs

/-- `get_vector_copy`: returns the raw f32 words -/
def getVectorCopy (s : Schema) (b : Buf) (col : Nat) : Res (List Nat) :=
  (getVarBounds s b col).bind fun (st, en) =>
  (sliceB b st en).bind fun v =>
  if v.len < 4 then .err "short" else
  (rd32 v 0).bind fun n =>
  if v.len ≠ 4 + n * 4 then .err "size" else
  (sliceFromB v 4).bind fun fb =>
  let rec go (i : Nat) : Nat → Res (List Nat)
    | 0 => .ok []
    | k + 1 => (rd32 fb (i * 4)).bind fun w => (go (i + 1) k).bind fun ws => .ok (w :: ws)
  go 0 n

/-- `get_int4_range` (`w = 4`) / `get_int8_range` (`w = 8`): flags byte, then the bounds.
Result: flags, lower, upper (empty list = absent) -/
def getRange (s : Schema) (b : Buf) (col w : Nat) : Res (Nat × List Nat × List Nat) :=
  (fixedColOffset s b col).bind fun off =>
  (rd b off).bind fun flags =>
  if flags % 2 = 1 then .ok (flags, [], []) else
  (if flags / 8 % 2 = 1 then Res.ok [] else slice b (off + 1) (off + 1 + w)).bind fun lo =>
  (if flags / 16 % 2 = 1 then Res.ok [] else slice b (off + 1 + w) (off + 1 + 2 * w)).bind fun hi =>
  .ok (flags, lo, hi)

/-- the loop of `record_column_count` -/
def rccLoop : Schema → Nat → Nat → Nat → Nat
  | [], _, _, c => c
  | some sz :: rest, consumed, avail, c =>
    if consumed + sz > avail then c else rccLoop rest (consumed + sz) avail (c + 1)
  | none :: rest, consumed, avail, c => rccLoop rest consumed avail (c + 1)

/-- `record_column_count` -/
def recordColumnCount (s : Schema) (b : Buf) : Res Nat :=
  (headerLen b).bind fun h =>
  if b.len ≤ h then .ok 0 else .ok (rccLoop s 0 (b.len - h) 0)

/-- `is_null_or_missing` -/
def isNullOrMissing (s : Schema) (b : Buf) (col : Nat) : Res Bool :=
  (recordColumnCount s b).bind fun c => if c ≤ col then .ok true else isNull s b col

/-- the `get_*_opt` wrappers -/
def opt {α : Type} (s : Schema) (b : Buf) (col : Nat) (g : Res α) : Res (Option α) :=
  (isNullOrMissing s b col).bind fun m => if m then .ok none else g.bind fun x => .ok (some x)

end TurVerif.RecordView
