/-
M-code model of WHICH page images a commit puts into the WAL (second clause of C38).
src/storage/wal_storage.rs: `WalStoragePerTable::page_mut(p)` marks `(table_id, p)` dirty in the
dirty tracker before handing out the page; a storage that is NOT wrapped (index files, the
table-file header page written through `MmapStorage` directly) hands out the page without
marking.  A drain (`drain_for_table(t)`) takes the dirty pages of ONE table and logs, for each, the
page's CURRENT content: an autocommit statement drains its own table (`flush_wal_if_autocommit`;
INSERT also the TOAST table), COMMIT drains every table that has dirty pages
(src/database/transaction.rs `execute_small_commit` / chunked commit).
A page image is abstracted to a version number (each `page_mut` hand-out = one new version).
No imports.
-/
namespace TurVerif.CommitCover

abbrev PageId := Nat × Nat

structure St where
  /-- current in-place version per page (absent = 0) -/
  ver : List (PageId × Nat) := []
  /-- the dirty tracker -/
  dirty : List PageId := []
  /-- WAL frames in write order: page and the version of the image -/
  wal : List (PageId × Nat) := []
  deriving DecidableEq, Repr, Inhabited

inductive Op where
  /-- `page_mut` of `pg`; `wrapped` = through `WalStoragePerTable` -/
  | write (pg : PageId) (wrapped : Bool)
  /-- `dirty_tracker.drain_for_table(file)` followed by the WAL write of the drained pages
      (`flush_wal_if_autocommit` for the statement's table; every dirty table at COMMIT) -/
  | drain (file : Nat)
  /-- `clear_for_table` -/
  | clear (file : Nat)
  deriving DecidableEq, Repr, Inhabited

def getVer : List (PageId × Nat) → PageId → Nat
  | [], _ => 0
  | (q, v) :: rest, pg => if q = pg then v else getVer rest pg

def setVer : List (PageId × Nat) → PageId → Nat → List (PageId × Nat)
  | [], pg, v => [(pg, v)]
  | (q, w) :: rest, pg, v => if q = pg then (q, v) :: rest else (q, w) :: setVer rest pg v

def markDirty (d : List PageId) (pg : PageId) : List PageId :=
  if d.contains pg then d else d ++ [pg]

/-- the pages a drain of `file` logs -/
def drained (s : St) (file : Nat) : List PageId := s.dirty.filter (fun pg => pg.1 == file)

def step (s : St) : Op → St
  | .write pg wrapped =>
    { s with ver := setVer s.ver pg (getVer s.ver pg + 1),
             dirty := if wrapped then markDirty s.dirty pg else s.dirty }
  | .drain f =>
    { s with wal := s.wal ++ (drained s f).map (fun pg => (pg, getVer s.ver pg)),
             dirty := s.dirty.filter (fun pg => pg.1 != f) }
  | .clear f => { s with dirty := s.dirty.filter (fun pg => pg.1 != f) }

def run (s : St) : List Op → St
  | [] => s
  | op :: ops => run (step s op) ops

/-- the page's current image is in the log -/
def covered (s : St) (pg : PageId) : Bool := s.wal.contains (pg, getVer s.ver pg)

/-- COMMIT of a transaction: every table with dirty pages is drained -/
def commitAll (s : St) : List Op := (s.dirty.map (·.1)).eraseDups.map .drain

end TurVerif.CommitCover
