import TurVerif.Model.Sql
/-
M-spec: the relational DML / DDL / transaction state machine the properties C05, C06, C07, C09,
C12, C21, C43 refer to.  A statement is validated completely before any effect is applied
(so a failing statement has no effect), constraints are checked on the would-be post-state,
transactions are a stack of snapshots.  Imports only the core-only `TurVerif.Model.Sql`.
-/
namespace TurVerif.SqlDb
open TurVerif.Sql

inductive FkAction where
  | restrict | cascade
  deriving DecidableEq, Repr, Inhabited

structure ColDef where
  name : String
  notNull : Bool := false
  unique : Bool := false       -- single-column UNIQUE
  pk : Bool := false           -- member of the primary key
  dflt : Val := .null
  autoInc : Bool := false
  deriving Repr, Inhabited

structure Fk where
  cols : List Nat              -- child column indices
  parent : String
  pcols : List Nat             -- parent column indices
  onDelete : FkAction := .restrict
  onUpdate : FkAction := .restrict
  deriving Repr, Inhabited

structure TableSt where
  name : String
  cols : List ColDef
  checks : List Expr := []     -- CHECK expressions over the row
  uniques : List (List Nat) := []   -- multi-column UNIQUE / PRIMARY KEY column sets
  fks : List Fk := []
  rows : List Row := []
  nextAuto : Int := 1          -- next AUTO_INCREMENT value
  deriving Repr, Inhabited

structure DbState where
  tables : List TableSt := []
  /-- open transaction: stack of (savepoint name, snapshot); bottom entry is BEGIN (name "") -/
  txn : List (String × List TableSt) := []
  deriving Repr, Inhabited

inductive Stmt where
  | insert (t : String) (cols : List Nat) (rows : List (List Expr))
  | update (t : String) (sets : List (Nat × Expr)) (whr : Option Expr)
  | delete (t : String) (whr : Option Expr)
  | truncate (t : String)
  | begin | commit | rollback
  | savepoint (n : String) | rollbackTo (n : String) | release (n : String)
  | dropTable (t : String)
  | addColumn (t : String) (c : ColDef)
  | dropColumn (t : String) (i : Nat)
  | renameColumn (t : String) (i : Nat) (n : String)
  deriving Repr, Inhabited

inductive Res where
  | affected (n : Nat) (returned : List Row)
  | done
  | err (e : Err)
  deriving Repr, Inhabited

def DbState.find (s : DbState) (n : String) : Option TableSt := s.tables.find? (·.name == n)

def DbState.put (s : DbState) (t : TableSt) : DbState :=
  { s with tables := s.tables.map (fun x => if x.name == t.name then t else x) }

/-! ### constraint checking on a would-be table content -/
def keyOf (r : Row) (ix : List Nat) : List Val := ix.map (fun i => r.getD i .null)

def keyHasNull (k : List Val) : Bool := k.any Val.isNull

/-- no two rows share a fully non-NULL key -/
def uniqueOk (ix : List Nat) : List Row → Bool
  | [] => true
  | r :: rs =>
    let k := keyOf r ix
    (keyHasNull k || rs.all (fun r' => !(rowSame k (keyOf r' ix)))) && uniqueOk ix rs

def idxOf (p : α → Bool) (l : List α) : List Nat :=
  (l.zipIdx.filter (fun x => p x.1)).map (·.2)

def uniqueSets (t : TableSt) : List (List Nat) :=
  let pk := idxOf (·.pk) t.cols
  let singles := (idxOf (·.unique) t.cols).map (fun i => [i])
  (if pk.isEmpty then [] else [pk]) ++ singles ++ t.uniques

def notNullOk (t : TableSt) (r : Row) : Bool :=
  (t.cols.zipIdx).all (fun (c, i) => !(c.notNull || c.pk) || !(r.getD i .null).isNull)

/-- CHECK holds unless the expression is FALSE (UNKNOWN passes) -/
def checkOk (t : TableSt) (r : Row) : Except Err Bool :=
  go t.checks
where
  go : List Expr → Except Err Bool
    | [] => .ok true
    | c :: cs => match eval r c with
      | .error e => .error e
      | .ok v => match v.truth with
        | .error e => .error e
        | .ok .f => .ok false
        | .ok _ => go cs

def rowsCheckOk (t : TableSt) : List Row → Except Err Bool
  | [] => .ok true
  | r :: rs => match checkOk t r, rowsCheckOk t rs with
    | .ok a, .ok b => .ok (a && b)
    | .error e, _ => .error e
    | _, .error e => .error e

/-- child key is NULL in some column, or a parent row with that key exists -/
def fkOk (s : DbState) (f : Fk) (r : Row) : Bool :=
  let k := keyOf r f.cols
  keyHasNull k ||
    match s.find f.parent with
    | none => false
    | some p => p.rows.any (fun pr => rowSame k (keyOf pr f.pcols))

def tableValid (s : DbState) (t : TableSt) : Except Err Bool :=
  match rowsCheckOk t t.rows with
  | .error e => .error e
  | .ok c =>
    .ok (c && t.rows.all (notNullOk t) && (uniqueSets t).all (fun ix => uniqueOk ix t.rows)
         && t.fks.all (fun f => t.rows.all (fkOk s f)))

/-- every table satisfies all its constraints (FKs looked up in the same state) -/
def dbValid (s : DbState) : Except Err Bool :=
  go s.tables
where
  go : List TableSt → Except Err Bool
    | [] => .ok true
    | t :: ts => match tableValid s t, go ts with
      | .ok a, .ok b => .ok (a && b)
      | .error e, _ => .error e
      | _, .error e => .error e

/-! ### statements -/
def setAt (r : Row) (i : Nat) (v : Val) : Row := r.set i v

/-- build the new rows of an INSERT: missing columns get their default; AUTO_INCREMENT columns
that are missing or NULL get the next counter value; returns rows and the new counter -/
def buildInsertRows (t : TableSt) (cols : List Nat) : List (List Expr) → Int →
    Except Err (List Row × Int)
  | [], next => .ok ([], next)
  | es :: rest, next =>
    match evalList [] es with
    | .error e => .error e
    | .ok vs =>
      let base : Row := t.cols.map (·.dflt)
      let r0 := (cols.zip vs).foldl (fun r (iv : Nat × Val) => setAt r iv.1 iv.2) base
      -- auto increment
      let (r1, next1) := (t.cols.zipIdx).foldl
        (fun (acc : Row × Int) (ci : ColDef × Nat) =>
          if ci.1.autoInc then
            match acc.1.getD ci.2 .null with
            | .null => (setAt acc.1 ci.2 (.int acc.2), acc.2 + 1)
            | .int k => (acc.1, if k ≥ acc.2 then k + 1 else acc.2)
            | _ => acc
          else acc) (r0, next)
      match buildInsertRows t cols rest next1 with
      | .error e => .error e
      | .ok (rs, n) => .ok (r1 :: rs, n)

def applyValid (s s' : DbState) (res : Res) : DbState × Res :=
  match dbValid s' with
  | .error e => (s, .err e)
  | .ok true => (s', res)
  | .ok false => (s, .err .constraint)

def optKeeps (whr : Option Expr) (r : Row) : Except Err Bool :=
  match whr with
  | none => .ok true
  | some p => keeps p r

/-- rows of `t` selected by an optional predicate, with the others -/
def splitRows (whr : Option Expr) : List Row → Except Err (List Row × List Row)
  | [] => .ok ([], [])
  | r :: rs =>
    match optKeeps whr r, splitRows whr rs with
    | .ok b, .ok (y, n) => .ok (if b then (r :: y, n) else (y, r :: n))
    | .error e, _ => .error e
    | _, .error e => .error e

def updateRow (sets : List (Nat × Expr)) (r : Row) : Except Err Row :=
  match sets with
  | [] => .ok r
  | (i, e) :: rest => match eval r e, updateRow rest r with
    | .ok v, .ok r' => .ok (setAt r' i v)
    | .error x, _ => .error x
    | _, .error x => .error x

def updateRows (sets : List (Nat × Expr)) (whr : Option Expr) : List Row →
    Except Err (List Row × List Row)   -- (all rows after, the updated rows)
  | [] => .ok ([], [])
  | r :: rs =>
    match optKeeps whr r, updateRows sets whr rs with
    | .ok true, .ok (all, upd) => match updateRow sets r with
      | .ok r' => .ok (r' :: all, r' :: upd)
      | .error e => .error e
    | .ok false, .ok (all, upd) => .ok (r :: all, upd)
    | .error e, _ => .error e
    | _, .error e => .error e

/-- referential action on DELETE of parent rows: cascade deletes children (one level per call,
iterated by fuel); restrict is caught by `dbValid` afterwards -/
def cascadeDelete (fuel : Nat) (s : DbState) (parent : String) (gone : List Row) : DbState :=
  match fuel with
  | 0 => s
  | fuel + 1 =>
    s.tables.foldl (fun st t =>
      t.fks.foldl (fun st f =>
        if f.parent == parent && f.onDelete == .cascade then
          match st.find t.name with
          | none => st
          | some cur =>
            let dead := cur.rows.filter (fun r =>
              !keyHasNull (keyOf r f.cols) && gone.any (fun g => rowSame (keyOf r f.cols) (keyOf g f.pcols)))
            if dead.isEmpty then st else
            let keep := cur.rows.filter (fun r =>
              !(!keyHasNull (keyOf r f.cols) && gone.any (fun g => rowSame (keyOf r f.cols) (keyOf g f.pcols))))
            cascadeDelete fuel (st.put { cur with rows := keep }) t.name dead
        else st) st) s

def step (s : DbState) : Stmt → DbState × Res
  | .insert tn cols rows =>
    match s.find tn with
    | none => (s, .err .missing)
    | some t =>
      match buildInsertRows t cols rows t.nextAuto with
      | .error e => (s, .err e)
      | .ok (newRows, next) =>
        applyValid s (s.put { t with rows := t.rows ++ newRows, nextAuto := next })
          (.affected newRows.length newRows)
  | .update tn sets whr =>
    match s.find tn with
    | none => (s, .err .missing)
    | some t =>
      match updateRows sets whr t.rows with
      | .error e => (s, .err e)
      | .ok (all, upd) => applyValid s (s.put { t with rows := all }) (.affected upd.length upd)
  | .delete tn whr =>
    match s.find tn with
    | none => (s, .err .missing)
    | some t =>
      match splitRows whr t.rows with
      | .error e => (s, .err e)
      | .ok (gone, keep) =>
        let s1 := s.put { t with rows := keep }
        applyValid s (cascadeDelete 8 s1 tn gone) (.affected gone.length gone)
  | .truncate tn =>
    match s.find tn with
    | none => (s, .err .missing)
    | some t => applyValid s (s.put { t with rows := [] }) (.affected t.rows.length [])
  | .begin => if s.txn.isEmpty then ({ s with txn := [("", s.tables)] }, .done) else (s, .err .other)
  | .commit => if s.txn.isEmpty then (s, .err .other) else ({ s with txn := [] }, .done)
  | .rollback =>
    match s.txn.getLast? with
    | none => (s, .err .other)
    | some (_, snap) => ({ tables := snap, txn := [] }, .done)
  | .savepoint n =>
    if s.txn.isEmpty then (s, .err .other) else ({ s with txn := (n, s.tables) :: s.txn }, .done)
  | .rollbackTo n =>
    -- most recent savepoint with that name; later savepoints are discarded, this one stays
    match s.txn.dropWhile (fun e => e.1 != n || e.1 == "") with
    | [] => (s, .err .missing)
    | (m, snap) :: rest => ({ tables := snap, txn := (m, snap) :: rest }, .done)
  | .release n =>
    match s.txn.dropWhile (fun e => e.1 != n || e.1 == "") with
    | [] => (s, .err .missing)
    | _ :: rest => ({ s with txn := rest }, .done)
  | .dropTable tn =>
    match s.find tn with
    | none => (s, .err .missing)
    | some _ => ({ s with tables := s.tables.filter (·.name != tn) }, .done)
  | .addColumn tn c =>
    match s.find tn with
    | none => (s, .err .missing)
    | some t => (s.put { t with cols := t.cols ++ [c], rows := t.rows.map (· ++ [c.dflt]) }, .done)
  | .dropColumn tn i =>
    match s.find tn with
    | none => (s, .err .missing)
    | some t => (s.put { t with cols := t.cols.eraseIdx i, rows := t.rows.map (·.eraseIdx i) }, .done)
  | .renameColumn tn i n =>
    match s.find tn with
    | none => (s, .err .missing)
    | some t => (s.put { t with cols := t.cols.modify i (fun c => { c with name := n }) }, .done)

def run (s : DbState) : List Stmt → DbState × List Res
  | [] => (s, [])
  | st :: rest =>
    let (s1, r) := step s st
    let (s2, rs) := run s1 rest
    (s2, r :: rs)

/-- the query-side view of the state -/
def DbState.toDb (s : DbState) : Db :=
  s.tables.map (fun t => { name := t.name, ncols := t.cols.length, rows := t.rows })

end TurVerif.SqlDb
