import TurVerif.Model.PageLocks
/-
Finer-grained variant of the `PageLocks` model used to state what the atomicity of
`PageLockShard::get_or_create` buys.  In src/database/page_locks.rs the map lookup and the
`entry.acquire()` (ref_count += 1) of the "entry exists" path both happen under the shard mutex,
which is why `PageLocks.step` treats them as ONE step.  Here the two are separate steps
(`pending` = threads that have found an entry and not yet incremented its ref count), i.e. the
code one gets by releasing the shard mutex before `entry.acquire()`.  The correspondence harness
checks on the real code that this window does not exist (hook site `pagelock.entry.acquire`).
-/
namespace TurVerif.PageLocksFine
open TurVerif.PageLocks

structure FState where
  s : State
  /-- (thread, page, entry found, write?) between the lookup and the ref-count increment -/
  pending : List (Nat × Nat × Nat × Bool) := []
  deriving DecidableEq, Repr

def finit (fixed : Bool) (progs : List (List Op)) : FState := { s := init fixed progs }

def fstep (f : FState) (tid : Nat) : Option FState :=
  match f.pending.find? (fun x => x.1 == tid) with
  | some (_, p, e, w) =>
    -- `ref_count.fetch_add(1)` on the entry found earlier, whatever happened to the map since
    match f.s.threads[tid]? with
    | none => none
    | some t =>
      some { s := setThread (modEntry f.s e (fun x => { x with refCount := x.refCount + 1 })) tid
                    { t with pc := .acquire p e w },
             pending := f.pending.filter (fun x => x.1 != tid) }
  | none =>
    match f.s.threads[tid]? with
    | none => none
    | some t =>
      match t.pc with
      | .getOrCreate p w =>
        match lookup f.s.map p with
        | some e => some { f with pending := (tid, p, e, w) :: f.pending }
        | none => (step f.s tid).map (fun s' => { f with s := s' })
      | _ => (step f.s tid).map (fun s' => { f with s := s' })

def frun (f : FState) : List Nat → FState
  | [] => f
  | tid :: rest => frun ((fstep f tid).getD f) rest

end TurVerif.PageLocksFine
