/-
M-code model of `MemoryBudget::allocate` / `release` (src/memory/budget.rs) at the granularity of
single atomic operations: every `AtomicUsize::load` and every `compare_exchange` is one step of
one thread; `total_used()` is FIVE separate loads.  Threads are interleaved by an arbitrary
scheduler (`List Nat` of thread ids).  No imports.
-/
namespace TurVerif.Budget

/-- pools by index: 0 cache, 1 query, 2 recovery, 3 schema, 4 shared -/
def reserved : Nat → Nat
  | 0 => 524288      -- CACHE_RESERVED    512 KiB
  | 1 => 262144      -- QUERY_RESERVED    256 KiB
  | 2 => 262144      -- RECOVERY_RESERVED 256 KiB
  | 3 => 131072      -- SCHEMA_RESERVED   128 KiB
  | _ => 0           -- Shared
def totalReserved : Nat := 1179648
def minFloor : Nat := 4194304

inductive Op where
  | alloc (pool bytes : Nat)
  | release (pool bytes : Nat)
  deriving DecidableEq, Repr, Inhabited

/-- program counter of one thread inside `allocate` / `release` -/
inductive Pc where
  | idle
  /-- `pool_counter.load` -/
  | aLoadPool (p b : Nat)
  /-- inside `total_used()`: next load is counter `i`, partial sum `acc` -/
  | aTot (p b cur i acc : Nat)
  /-- `total_limit()` load and the two checks -/
  | aLimit (p b cur tot : Nat)
  /-- inside `shared_available()`: `total_limit()` load -/
  | aShrLimit (p b cur : Nat)
  /-- inside `shared_available()` → `total_used()`: next load is counter `i` -/
  | aShrTot (p b cur lim i acc : Nat)
  /-- `compare_exchange(cur, cur + b)` -/
  | aCas (p b cur : Nat)
  | rLoad (p b : Nat)
  | rCas (p b cur : Nat)
  deriving DecidableEq, Repr, Inhabited

structure Thread where
  prog : List Op
  pc : Pc := .idle
  /-- results of finished allocate calls, most recent first (true = Ok) -/
  results : List Bool := []
  deriving DecidableEq, Repr, Inhabited

structure State where
  used : List Nat        -- five counters
  limit : Nat
  threads : List Thread
  /-- ghost: per pool, sum of bytes of successful allocations / of successful release CASes -/
  allocd : List Nat := [0, 0, 0, 0, 0]
  /-- ghost: per pool, sum of the actual decrements of successful release CASes -/
  released : List Nat := [0, 0, 0, 0, 0]
  deriving DecidableEq, Repr, Inhabited

def State.totalUsed (s : State) : Nat := s.used.foldl (· + ·) 0

def init (limit : Nat) (progs : List (List Op)) : State :=
  { used := [0, 0, 0, 0, 0], limit := max limit minFloor,
    threads := progs.map (fun p => { prog := p }) }

def sharedAvail (lim used : Nat) : Nat := (lim - totalReserved) - (used - totalReserved)

def setThread (s : State) (tid : Nat) (t : Thread) : State :=
  { s with threads := s.threads.set tid t }

/-- one atomic step of thread `tid`; `none` when the thread does not exist or has terminated -/
def step (s : State) (tid : Nat) : Option State :=
  match s.threads[tid]? with
  | none => none
  | some t =>
    match t.pc with
    | .idle =>
      match t.prog with
      | [] => none
      | .alloc p b :: rest =>
        if b = 0 then some (setThread s tid { t with prog := rest, results := true :: t.results })
        else some (setThread s tid { t with prog := rest, pc := .aLoadPool p b })
      | .release p b :: rest =>
        if b = 0 then some (setThread s tid { t with prog := rest })
        else some (setThread s tid { t with prog := rest, pc := .rLoad p b })
    | .aLoadPool p b => some (setThread s tid { t with pc := .aTot p b (s.used.getD p 0) 0 0 })
    | .aTot p b cur i acc =>
      let acc' := acc + s.used.getD i 0
      if i + 1 < 5 then some (setThread s tid { t with pc := .aTot p b cur (i + 1) acc' })
      else some (setThread s tid { t with pc := .aLimit p b cur acc' })
    | .aLimit p b cur tot =>
      if tot + b > s.limit then
        some (setThread s tid { t with pc := .idle, results := false :: t.results })
      else if p ≠ 4 ∧ cur + b > reserved p then
        some (setThread s tid { t with pc := .aShrLimit p b cur })
      else some (setThread s tid { t with pc := .aCas p b cur })
    | .aShrLimit p b cur => some (setThread s tid { t with pc := .aShrTot p b cur s.limit 0 0 })
    | .aShrTot p b cur lim i acc =>
      let acc' := acc + s.used.getD i 0
      if i + 1 < 5 then some (setThread s tid { t with pc := .aShrTot p b cur lim (i + 1) acc' })
      else
        if (cur + b) - reserved p > sharedAvail lim acc' then
          some (setThread s tid { t with pc := .idle, results := false :: t.results })
        else some (setThread s tid { t with pc := .aCas p b cur })
    | .aCas p b cur =>
      if s.used.getD p 0 = cur then
        some (setThread { s with used := s.used.set p (cur + b),
                                 allocd := s.allocd.set p (s.allocd.getD p 0 + b) } tid
              { t with pc := .idle, results := true :: t.results })
      else some (setThread s tid { t with pc := .aLoadPool p b })
    | .rLoad p b => some (setThread s tid { t with pc := .rCas p b (s.used.getD p 0) })
    | .rCas p b cur =>
      if s.used.getD p 0 = cur then
        some (setThread { s with used := s.used.set p (cur - b),
                                 released := s.released.set p (s.released.getD p 0 + (cur - (cur - b))) } tid
              { t with pc := .idle })
      else some (setThread s tid { t with pc := .rLoad p b })

/-- run a schedule; a step of a terminated / unknown thread is skipped -/
def run (s : State) : List Nat → State
  | [] => s
  | tid :: rest => run ((step s tid).getD s) rest

/-- steps of `tid` until its pc returns to `idle` (one whole call), bounded by fuel -/
def runCall (s : State) (tid : Nat) : Nat → State
  | 0 => s
  | fuel + 1 =>
    match step s tid with
    | none => s
    | some s' =>
      match s'.threads[tid]? with
      | some t => if t.pc = .idle then s' else runCall s' tid fuel
      | none => s'

/-- the coarse step used by the correspondence harness: thread `tid` runs from its current
yield point to the next one.  Yield points: before `aLoadPool`, before the first `aTot` load,
before `aShrLimit`, before `aCas`, before `rLoad`, before `rCas`; `idle` with a next op is the
`start`/between-calls point. -/
def atYield (pc : Pc) : Bool :=
  match pc with
  | .idle => true
  | .aLoadPool .. => true
  | .aTot _ _ _ i _ => i == 0
  | .aLimit .. => false
  | .aShrLimit .. => true
  | .aShrTot .. => false
  | .aCas .. => true
  | .rLoad .. => true
  | .rCas .. => true

def coarse (s : State) (tid : Nat) : Nat → State
  | 0 => s
  | fuel + 1 =>
    match step s tid with
    | none => s
    | some s' =>
      match s'.threads[tid]? with
      | some t => if atYield t.pc then s' else coarse s' tid fuel
      | none => s'

end TurVerif.Budget
