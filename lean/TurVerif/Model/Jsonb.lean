/-
M-code model of the JSONB binary format:
  builder  : `JsonValue::to_jsonb_bytes` (src/parsing/json.rs) and `JsonbBuilder::build`
             (src/records/jsonb.rs) -- the two Rust functions are line-for-line duplicates;
  readers  : `JsonbView::{new, root_type, entry_count, get, get_path, as_value, array_len,
             array_get, object_len, iter_object, iter_array}` (src/records/jsonb.rs) and the
             `OwnedValue::jsonb_get / jsonb_get_path / jsonb_array_get` glue
             (src/types/owned_value.rs).

Bytes are `Nat`s (< 256), strings are their UTF-8 byte lists (Rust `str::cmp` is the bytewise
lexicographic order of the UTF-8 bytes), numbers are the 64-bit pattern of the `f64`.

Every slice of the input buffer goes through `slice`, which yields the explicit outcome `oob`
(= a Rust slice-index panic) when the range is outside the buffer; `err` is an `Err(..)` return.

Layout (all little endian):
  header  u32 = tag<<28 | count      tag: 0 obj, 1 arr, 2 null, 3 bool, 4 number, 5 string
  entry   u32 = key<<31 | var<<30 | type<<24 | (offset & 0xFFFFFF)
  object  = header(2n) ++ n*(key entry, value entry) ++ data ; keys sorted (stable) by bytes
  array   = header(n)  ++ n*entry ++ data
  data items: number = 8 bytes; string/key = u16 length ++ bytes; nested = u32 length ++ document
-/
namespace TurVerif.Jsonb

/-- JSON values. `num` carries the f64 bit pattern, `str`/keys carry UTF-8 bytes. -/
inductive J where
  | null
  | bool (b : Bool)
  | num (bits : Nat)
  | str (s : List Nat)
  | arr (xs : List J)
  | obj (kvs : List (List Nat × J))
  deriving Repr, Inhabited

abbrev KV := List Nat × J

/-! ### byte-string order (Rust `str::cmp` / `[u8]::cmp`) -/

def cmpBytes : List Nat → List Nat → Ordering
  | [], [] => .eq
  | [], _ :: _ => .lt
  | _ :: _, [] => .gt
  | a :: as, b :: bs => if a < b then .lt else if b < a then .gt else cmpBytes as bs

/-- `a ≤ b` in the byte order -/
def leBytes (a b : List Nat) : Bool := cmpBytes a b != .gt

/-! ### stable sort by key (`sort_by(|a, b| a.0.cmp(&b.0))` is a stable sort) -/

/-- insert `x` before the first element whose key is ≥ the key of `x` (so that `x`, which
precedes the already sorted elements in the original order, stays first among equal keys). -/
def insertKV (x : KV) : List KV → List KV
  | [] => [x]
  | y :: ys => if leBytes x.1 y.1 then x :: y :: ys else y :: insertKV x ys

def sortKV : List KV → List KV
  | [] => []
  | x :: xs => insertKV x (sortKV xs)

/-! ### what the builder does to a value: every object's members stably sorted by key,
duplicates kept -/
mutual
def norm : J → J
  | .arr xs => .arr (normList xs)
  | .obj kvs => .obj (sortKV (normPairs kvs))
  | .null => .null
  | .bool b => .bool b
  | .num n => .num n
  | .str s => .str s
def normList : List J → List J
  | [] => []
  | x :: xs => norm x :: normList xs
def normPairs : List KV → List KV
  | [] => []
  | (k, v) :: rest => (k, norm v) :: normPairs rest
end

/-! ### little-endian integers (small literals only: nested `/256`) -/

def le16 (n : Nat) : List Nat := [n % 256, n / 256 % 256]
def le24 (n : Nat) : List Nat := [n % 256, n / 256 % 256, n / 256 / 256 % 256]
def le32 (n : Nat) : List Nat := [n % 256, n / 256 % 256, n / 256 / 256 % 256, n / 256 / 256 / 256 % 256]
def le64 (n : Nat) : List Nat :=
  [n % 256, n / 256 % 256, n / 256 / 256 % 256, n / 256 / 256 / 256 % 256,
   n / 256 / 256 / 256 / 256 % 256, n / 256 / 256 / 256 / 256 / 256 % 256,
   n / 256 / 256 / 256 / 256 / 256 / 256 % 256, n / 256 / 256 / 256 / 256 / 256 / 256 / 256 % 256]

/-- header word `(tag << 28) | count` as 4 LE bytes (count < 2^28: the top byte is
`tag*16 + bits 24..27 of count`; larger counts are unreachable, the buffer would be > 1 GiB). -/
def hdr (tag count : Nat) : List Nat :=
  le24 count ++ [tag * 16 + count / 256 / 256 / 256 % 16]

/-- entry word `flags | type << 24 | (offset & 0xFFFFFF)` as 4 LE bytes; `top` is the top byte
(is_key*128 + is_variable*64 + type). -/
def entry (top off : Nat) : List Nat := le24 off ++ [top]

/-! ### builder (encodes the members in the order given; `toJsonb` sorts first via `norm`) -/

def mkArr (n : Nat) (p : List Nat × List Nat) : List Nat := hdr 1 n ++ p.1 ++ p.2
def mkObj (n : Nat) (p : List Nat × List Nat) : List Nat := hdr 0 (2 * n) ++ p.1 ++ p.2

mutual
/-- `encode_entry`: given the current length of `data_buf`, the entry bytes and the bytes
appended to `data_buf`. -/
def encEntry : J → Nat → List Nat × List Nat
  | .null, _ => (entry 2 0, [])
  | .bool b, _ => (entry 3 (if b then 1 else 0), [])
  | .num bits, off => (entry (64 + 4) off, le64 bits)
  | .str s, off => (entry (64 + 5) off, le16 s.length ++ s)
  | .arr xs, off =>
      let nb := mkArr xs.length (encElems xs 0)
      (entry (64 + 1) off, le32 nb.length ++ nb)
  | .obj kvs, off =>
      let nb := mkObj kvs.length (encPairs kvs 0)
      (entry 64 off, le32 nb.length ++ nb)
/-- array loop: (entry table, data_buf) -/
def encElems : List J → Nat → List Nat × List Nat
  | [], _ => ([], [])
  | x :: xs, off =>
      let e := encEntry x off
      let r := encElems xs (off + e.2.length)
      (e.1 ++ r.1, e.2 ++ r.2)
/-- object loop over the (already sorted) members -/
def encPairs : List KV → Nat → List Nat × List Nat
  | [], _ => ([], [])
  | (k, v) :: rest, off =>
      let kd := le16 k.length ++ k
      let e := encEntry v (off + kd.length)
      let r := encPairs rest (off + kd.length + e.2.length)
      (entry (128 + 64) off ++ e.1 ++ r.1, kd ++ e.2 ++ r.2)
end

/-- `encode_value` on a value whose objects are already in stored order -/
def encVal : J → List Nat
  | .null => hdr 2 0
  | .bool b => hdr 3 (if b then 1 else 0)
  | .num bits => hdr 4 0 ++ le64 bits
  | .str s => hdr 5 s.length ++ s
  | .arr xs => mkArr xs.length (encElems xs 0)
  | .obj kvs => mkObj kvs.length (encPairs kvs 0)

/-- `JsonValue::to_jsonb_bytes` / `JsonbBuilder::build` -/
def toJsonb (v : J) : List Nat := encVal (norm v)

/-! ### readers -/

inductive Res (α : Type) where
  | ok (a : α)
  | err            -- `Err(..)` returned
  | oob            -- slice index out of range: the Rust code panics
  deriving Repr, DecidableEq

def Res.bind {α β : Type} (r : Res α) (f : α → Res β) : Res β :=
  match r with
  | .ok a => f a
  | .err => .err
  | .oob => .oob

/-- `&buf[a .. a+n]` -/
def slice (buf : List Nat) (a n : Nat) : Res (List Nat) :=
  if a + n ≤ buf.length then .ok ((buf.drop a).take n) else .oob

/-- `&buf[a ..]` -/
def sliceFrom (buf : List Nat) (a : Nat) : Res (List Nat) :=
  if a ≤ buf.length then .ok (buf.drop a) else .oob

def rd16 : List Nat → Nat
  | [a, b] => a + 256 * b
  | _ => 0
def rd24 : List Nat → Nat
  | [a, b, c] => a + 256 * (b + 256 * c)
  | _ => 0
def rd32 : List Nat → Nat
  | [a, b, c, d] => a + 256 * (b + 256 * (c + 256 * d))
  | _ => 0
def rd64 : List Nat → Nat
  | [a, b, c, d, e, f, g, h] =>
      a + 256 * (b + 256 * (c + 256 * (d + 256 * (e + 256 * (f + 256 * (g + 256 * h))))))
  | _ => 0

/-! UTF-8 validation (`std::str::from_utf8`): well-formed sequences of Unicode scalar values,
no overlong forms, no surrogates, ≤ U+10FFFF. -/
def isCont (b : Nat) : Bool := 128 ≤ b && b < 192

def validUtf8 : List Nat → Bool
  | [] => true
  | b0 :: rest =>
    if b0 < 128 then validUtf8 rest
    else if b0 < 194 then false
    else if b0 < 224 then
      match rest with
      | b1 :: r => isCont b1 && validUtf8 r
      | _ => false
    else if b0 < 240 then
      match rest with
      | b1 :: b2 :: r =>
        isCont b1 && isCont b2 &&
        (if b0 = 224 then 160 ≤ b1 else if b0 = 237 then b1 < 160 else true) && validUtf8 r
      | _ => false
    else if b0 < 245 then
      match rest with
      | b1 :: b2 :: b3 :: r =>
        isCont b1 && isCont b2 && isCont b3 &&
        (if b0 = 240 then 144 ≤ b1 else if b0 = 244 then b1 < 144 else true) && validUtf8 r
      | _ => false
    else false

/-- what a reader hands out: scalars by value, containers as a view (= its bytes) -/
inductive V where
  | null
  | bool (b : Bool)
  | num (bits : Nat)
  | str (s : List Nat)
  | arr (doc : List Nat)
  | obj (doc : List Nat)
  deriving Repr, DecidableEq

/-- `JsonbView::new` -/
def viewNew (buf : List Nat) : Res (List Nat) := if 4 ≤ buf.length then .ok buf else .err

/-- header fields (the view has ≥ 4 bytes) -/
def rootType (buf : List Nat) : Nat := (buf.getD 3 0) / 16
def entryCount (buf : List Nat) : Nat :=
  buf.getD 0 0 + 256 * (buf.getD 1 0 + 256 * (buf.getD 2 0 + 256 * (buf.getD 3 0 % 16)))
def dataStart (buf : List Nat) : Nat := 4 + entryCount buf * 4

/-- `read_entry(idx)`: (top byte, 24-bit offset) -/
def readEntry (buf : List Nat) (idx : Nat) : Res (Nat × Nat) :=
  (slice buf (4 + idx * 4) 4).bind fun e => .ok (e.getD 3 0, rd24 (e.take 3))

def lenPrefixed (ds : List Nat) (off : Nat) : Res (List Nat) :=
  (slice ds off 2).bind fun lb => slice ds (off + 2) (rd16 lb)

/-- `decode_entry` -/
def decodeEntry (buf : List Nat) (top off : Nat) : Res V :=
  let typ := top % 64
  if typ = 2 then .ok .null
  else if typ = 3 then .ok (.bool (off != 0))
  else if typ = 4 then
    (sliceFrom buf (dataStart buf)).bind fun ds =>
    (slice ds off 8).bind fun b => .ok (.num (rd64 b))
  else if typ = 5 then
    (sliceFrom buf (dataStart buf)).bind fun ds =>
    (lenPrefixed ds off).bind fun s => if validUtf8 s then .ok (.str s) else .err
  else if typ = 1 ∨ typ = 0 then
    (sliceFrom buf (dataStart buf)).bind fun ds =>
    (slice ds off 4).bind fun lb =>
    (slice ds (off + 4) (rd32 lb)).bind fun nested =>
    (viewNew nested).bind fun nv => .ok (if typ = 1 then .arr nv else .obj nv)
  else .err

/-- `read_key_at(pair_idx)` -/
def readKeyAt (buf : List Nat) (pair : Nat) : Res (List Nat) :=
  (readEntry buf (pair * 2)).bind fun (top, off) =>
  if top < 128 then .err else
  (sliceFrom buf (dataStart buf)).bind fun ds =>
  (lenPrefixed ds off).bind fun k => if validUtf8 k then .ok k else .err

/-- `read_value_at(pair_idx)` -/
def readValueAt (buf : List Nat) (pair : Nat) : Res V :=
  (readEntry buf (pair * 2 + 1)).bind fun (top, off) => decodeEntry buf top off

/-- the binary-search loop of `get`; `hi1` is `high + 1` (the Rust `high` is an `isize` that
becomes −1), `mid = (low + high) / 2`. -/
def bsearch (buf key : List Nat) : Nat → Nat → Nat → Res (Option V)
  | 0, _, _ => .ok none   -- fuel exhausted: unreachable with fuel = pair_count + 1
  | fuel + 1, lo, hi1 =>
    if lo < hi1 then
      let mid := (lo + hi1 - 1) / 2
      (readKeyAt buf mid).bind fun cur =>
        match cmpBytes cur key with
        | .eq => (readValueAt buf mid).bind fun v => .ok (some v)
        | .lt => bsearch buf key fuel (mid + 1) hi1
        | .gt => bsearch buf key fuel lo mid
    else .ok none

/-- `JsonbView::get` -/
def get (buf key : List Nat) : Res (Option V) :=
  if rootType buf ≠ 0 then .err else
  let pc := entryCount buf / 2
  if pc = 0 then .ok none else bsearch buf key (pc + 1) 0 pc

/-- `JsonbView::as_value` -/
def asValue (buf : List Nat) : Res V :=
  let t := rootType buf
  if t = 0 then .ok (.obj buf)
  else if t = 1 then .ok (.arr buf)
  else if t = 2 then .ok .null
  else if t = 3 then .ok (.bool (entryCount buf != 0))
  else if t = 4 then (slice buf 4 8).bind fun b => .ok (.num (rd64 b))
  else if t = 5 then
    (slice buf 4 (entryCount buf)).bind fun s => if validUtf8 s then .ok (.str s) else .err
  else .err

/-- the `for key in &path[1..]` loop of `get_path` -/
def pathLoop : Option V → List (List Nat) → Res (Option V)
  | cur, [] => .ok cur
  | some (.obj view), k :: ks => (get view k).bind fun r => pathLoop r ks
  | _, _ :: _ => .ok none

/-- `JsonbView::get_path` -/
def getPath (buf : List Nat) : List (List Nat) → Res (Option V)
  | [] => (asValue buf).bind fun v => .ok (some v)
  | k :: ks => (get buf k).bind fun r => pathLoop r ks

/-- `JsonbView::array_len` / `object_len` -/
def arrayLen (buf : List Nat) : Res Nat := if rootType buf ≠ 1 then .err else .ok (entryCount buf)
def objectLen (buf : List Nat) : Res Nat := if rootType buf ≠ 0 then .err else .ok (entryCount buf / 2)

/-- `JsonbView::array_get` -/
def arrayGet (buf : List Nat) (idx : Nat) : Res (Option V) :=
  if rootType buf ≠ 1 then .err
  else if entryCount buf ≤ idx then .ok none
  else (readEntry buf idx).bind fun (top, off) => (decodeEntry buf top off).bind fun v => .ok (some v)

/-- one step of `ArrayIter` / `ObjectIter` -/
def arrayItem (buf : List Nat) (idx : Nat) : Res V :=
  (readEntry buf idx).bind fun (top, off) => decodeEntry buf top off
def objectItem (buf : List Nat) (pair : Nat) : Res (List Nat × V) :=
  (readKeyAt buf pair).bind fun k => (readValueAt buf pair).bind fun v => .ok (k, v)

/-! `OwnedValue::jsonb_get*`: `JsonbView::new(data)?` then the view call; `from_jsonb_value`
keeps scalars and copies the nested view's bytes. -/
def ovGet (data key : List Nat) : Res (Option V) := (viewNew data).bind fun b => get b key
def ovGetPath (data : List Nat) (p : List (List Nat)) : Res (Option V) :=
  (viewNew data).bind fun b => getPath b p
def ovArrayGet (data : List Nat) (i : Nat) : Res (Option V) :=
  (viewNew data).bind fun b => arrayGet b i

/-! ### full read-back: walk the document with the iterators (what a client does to
reconstruct the value). Fuel = buffer length (each nested view is strictly shorter). -/
/-- run `f idx, f (idx+1), .. ` for `n` items, stopping at the first failure (iterator loop) -/
def iterRes {β : Type} (f : Nat → Res β) : Nat → Nat → Res (List β)
  | _, 0 => .ok []
  | idx, n + 1 => (f idx).bind fun x => (iterRes f (idx + 1) n).bind fun xs => .ok (x :: xs)

def fromV : Nat → V → Res J
  | _, .null => .ok .null
  | _, .bool b => .ok (.bool b)
  | _, .num n => .ok (.num n)
  | _, .str s => .ok (.str s)
  | 0, .arr _ => .err
  | 0, .obj _ => .err
  | fuel + 1, .arr doc =>
    if rootType doc ≠ 1 then .err else   -- `iter_array` refuses a view whose header is not an array
    (iterRes (fun i => (arrayItem doc i).bind fun v => fromV fuel v) 0 (entryCount doc)).bind
      fun xs => .ok (.arr xs)
  | fuel + 1, .obj doc =>
    if rootType doc ≠ 0 then .err else   -- `iter_object` likewise
    (iterRes (fun i => (objectItem doc i).bind fun kv => (fromV fuel kv.2).bind fun x => .ok (kv.1, x))
      0 (entryCount doc / 2)).bind fun kvs => .ok (.obj kvs)

/-- read a whole document back -/
def fromJsonb (buf : List Nat) : Res J :=
  (viewNew buf).bind fun b => (asValue b).bind fun v => fromV (buf.length + 1) v

end TurVerif.Jsonb
