/-!
Page-level commit / crash / recovery protocol model (C01, C02).  Import-free.

Abstraction of: src/storage/mmap.rs (pages written in place into a MAP_SHARED mapping, `sync` =
msync), src/storage/wal.rs (`write_frames_batch`: frames appended to a `BufWriter`, then
`flush` + `sync_data`; `truncate` = `set_len 0`), src/storage/wal_storage.rs
(`flush_wal_for_table`: one frame per dirty page, carrying the page's *current* image),
src/database/recovery.rs (`recover_all_tables`, `streaming_recovery`: redo of the valid frames, in
log order, over the table files found on disk).

Page images are abstract (`Nat`, think: content hash).  A file system state distinguishes
* `vol`  – what the OS sees (page cache; survives a process kill),
* `dur`  – what is on stable storage (survives a power loss),
and the WAL has three layers: `walBuf` (user-space `BufWriter`, lost at a kill), `walOs` (written to
the file, survives a kill), `walDur` (fdatasync'ed, survives a power loss).
-/
namespace TurVerif.Commit

structure Frame where
  file : Nat
  page : Nat
  img : Nat
  /-- frame type byte 0x02 (before-image) — the writer of such frames is dead code in the pinned tree -/
  undo : Bool := false
  deriving DecidableEq, Repr

/-- pages of all files: file id → page number → image (0 = zero page) -/
abbrev Pages := Nat → Nat → Nat

def Pages.empty : Pages := fun _ _ => 0

def setPg (pg : Pages) (f p v : Nat) : Pages :=
  fun f' p' => if f' = f ∧ p' = p then v else pg f' p'

inductive Event
  /-- in-place write of page `p` of file `f` in the mmap -/
  | mut (f p img : Nat)
  /-- a redo frame appended to the WAL `BufWriter` -/
  | walWrite (f p img : Nat)
  /-- `BufWriter::flush` + `sync_data`: every frame written so far is in the file and durable -/
  | walSync
  /-- `MmapStorage::sync` of file `f` -/
  | msync (f : Nat)
  /-- `Wal::truncate`: `set_len 0` (metadata, durable at once), buffer content dropped by position reset -/
  | truncate
  /-- the statement/transaction's call returned successfully -/
  | ack
  deriving DecidableEq, Repr

structure State where
  vol : Pages := Pages.empty
  dur : Pages := Pages.empty
  walBuf : List Frame := []
  walOs : List Frame := []
  walDur : List Frame := []

def step (s : State) : Event → State
  | .mut f p v => { s with vol := setPg s.vol f p v }
  | .walWrite f p v => { s with walBuf := s.walBuf ++ [{ file := f, page := p, img := v }] }
  | .walSync => { s with walBuf := [], walOs := s.walOs ++ s.walBuf, walDur := s.walOs ++ s.walBuf }
  | .msync f => { s with dur := fun f' p' => if f' = f then s.vol f' p' else s.dur f' p' }
  | .truncate => { s with walBuf := [], walOs := [], walDur := [] }
  | .ack => s

def run (s : State) (es : List Event) : State := es.foldl step s

/-- what a crash leaves behind: the table files and the WAL file -/
structure Disk where
  pages : Pages
  wal : List Frame

/-- process kill after the first `k` events -/
def crashKill (es : List Event) (k : Nat) : Disk :=
  let s := run {} (es.take k)
  { pages := s.vol, wal := s.walOs }

/-- power loss after the first `k` events: only synced content survives -/
def crashPower (es : List Event) (k : Nat) : Disk :=
  let s := run {} (es.take k)
  { pages := s.dur, wal := s.walDur }

/-- redo: apply the frames in log order -/
def redo (pg : Pages) (w : List Frame) : Pages :=
  w.foldl (fun pg fr => setPg pg fr.file fr.page fr.img) pg

/-- `recover_all_tables`: redo frames are applied as they are read; before-images are collected
(first one per page wins) and applied afterwards to pages that have no redo frame.  Frames whose file
id is not a table file on disk (`known`) are skipped. -/
def recoverAll (known : Nat → Bool) (pg : Pages) (w : List Frame) : Pages :=
  let redoFrames := w.filter (fun fr => !fr.undo && known fr.file)
  let pg1 := redo pg redoFrames
  let hasRedo (f p : Nat) : Bool := w.any (fun fr => !fr.undo && fr.file == f && fr.page == p)
  let undoFrames := w.filter (fun fr => fr.undo && known fr.file && !hasRedo fr.file fr.page)
  -- first before-image per page wins: apply in reverse order so that the first is applied last
  redo pg1 undoFrames.reverse

/-- `streaming_recovery`: one pass, `batch`-sized msync rounds (which do not change page contents);
looks frames up by the raw `file_id` field, so a before-image frame (type bits set in the id) never
matches a table file and is skipped. -/
def recoverStreaming (known : Nat → Bool) (batch : Nat) (pg : Pages) (w : List Frame) : Pages × Nat :=
  w.foldl (fun (acc : Pages × Nat) fr =>
    if !fr.undo && known fr.file then
      let pg' := setPg acc.1 fr.file fr.page fr.img
      (pg', if acc.2 + 1 ≥ batch then 0 else acc.2 + 1)
    else acc) (pg, 0)

/-- recovery of a crashed disk -/
def recover (d : Disk) : Pages := redo d.pages d.wal

/-! ### the WAL protocol as an event producer (autocommit statement / small commit) -/

structure Mut where
  file : Nat
  page : Nat
  img : Nat
  deriving DecidableEq, Repr

/-- a statement = the page mutations it performs, in order -/
abbrev Stmt := List Mut

def applyMuts (pg : Pages) (ms : List Mut) : Pages :=
  ms.foldl (fun pg m => setPg pg m.file m.page m.img) pg

/-- final image of a page written by `ms` (0 if untouched; only used for touched pages) -/
def lastImg (ms : List Mut) (f p : Nat) : Nat := applyMuts Pages.empty ms f p

/-- `flush_wal_for_table`: a frame per dirty page carrying the page's current (= final) image.
(The code writes one frame per *distinct* dirty page in hash-set order; the model writes one per
mutation, all with the final image — the redo results coincide.) -/
def framesOf (ms : List Mut) : List Event :=
  ms.map (fun m => Event.walWrite m.file m.page (lastImg ms m.file m.page))

/-- mutate in place, log the final images, flush+fdatasync, (optionally msync the files), return -/
def stmtTrace (ms : Stmt) : List Event :=
  ms.map (fun m => Event.mut m.file m.page m.img) ++ framesOf ms ++ [Event.walSync, Event.ack]

def protocolTrace (stmts : List Stmt) : List Event := stmts.flatMap stmtTrace

/-- logical page state after a list of statements -/
def pagesAfter (stmts : List Stmt) : Pages := stmts.foldl applyMuts Pages.empty

/-- number of acknowledged statements among the first `k` events -/
def acked (es : List Event) (k : Nat) : Nat := ((es.take k).filter (· == Event.ack)).length

end TurVerif.Commit
