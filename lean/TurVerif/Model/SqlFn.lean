import TurVerif.Model.Sql
/-
M-spec for C20: definitions of the documented scalar functions, CAST and checked integer
arithmetic.  Strings are lists of code points (`List Char`); every string function is defined on
`List Char` and lifted to `Val.text` at the end, so the theorems talk about characters, never
bytes (the only byte-valued functions are `LENGTH` — documented in README.md as *byte length* —
and the helper `utf8Bytes` used to state the byte-vs-character witnesses).

Dialect choices (the README only gives one line per function; the function set and names are
MySQL's, so MySQL's manual is the reference; where the pinned code makes a defensible different
choice that the property statement does not speak about, the model follows the code and the
choice is listed here so a reader can see it):
  * SUBSTR: 1-based; negative position counts from the end and is clipped at the start of the
    string (code / SQLite 2-argument behaviour; MySQL returns '' when it overshoots); position 0
    and negative length give ''.
  * LOCATE(needle, hay[, start]): character position, 0 when absent or start < 1 or start beyond
    the end (so LOCATE('', '') = 0 as in the code; MySQL gives 1).
  * INSTR(hay, needle) = LOCATE(needle, hay)  (character position — MySQL, and the property
    statement: "count and slice characters, not bytes"), except INSTR('', '') = 1.
  * ASCII: code point of the first character, 0 for ''.
  * TRIM/LTRIM/RTRIM remove Unicode White_Space (README: "Trim whitespace").
  * REPLACE with an empty search string inserts the replacement at every character boundary
    (Rust `str::replace`; MySQL leaves the string unchanged).
  * LPAD/RPAD: result has exactly `len` characters (truncating when the input is longer); empty
    pad string returns the input unchanged; negative length gives NULL (MySQL).
  * CONCAT is NULL when any argument is NULL; CONCAT_WS skips NULL arguments, NULL separator
    gives NULL.  Integers are rendered in decimal when used as strings.
  * GREATEST/LEAST ignore NULL arguments (PostgreSQL; the code) and are NULL only when every
    argument is NULL.
  * MOD(a, 0) is NULL; `a / 0` and `a % 0` are the error `divzero` — the property accepts NULL
    or an error, never a value.
  * ROUND rounds half away from zero; ROUND/TRUNCATE with d ≤ 0 (or absent) return an integer.
  * POWER always returns a DOUBLE.
  * CAST(double AS INT) truncates toward zero; CAST(text AS INT) of anything that is not an
    optionally signed decimal integer in the 64-bit range is NULL; CAST(text AS BOOLEAN) accepts
    true/t/1/yes/on and false/f/0/no/off case-insensitively (ASCII), otherwise NULL.
  * every integer result outside [-2^63, 2^63) is the error `overflow`.
Date/time functions are not covered here (C41).
-/
namespace TurVerif.SqlFn
open TurVerif.Sql

/-! ## strings as code-point lists -/

def utf8Len (c : Char) : Nat :=
  let n := c.toNat
  if n < 128 then 1 else if n < 2048 then 2 else if n < 65536 then 3 else 4

/-- UTF-8 encoding of one code point -/
def utf8OfChar (c : Char) : List Nat :=
  let n := c.toNat
  if n < 128 then [n]
  else if n < 2048 then [192 + n / 64, 128 + n % 64]
  else if n < 65536 then [224 + n / 4096, 128 + n / 64 % 64, 128 + n % 64]
  else [240 + n / 262144, 128 + n / 4096 % 64, 128 + n / 64 % 64, 128 + n % 64]

def utf8Bytes (l : List Char) : List Nat := l.flatMap utf8OfChar

def charLen (l : List Char) : Nat := l.length
def byteLen (l : List Char) : Nat := (utf8Bytes l).length

def upperAscii (c : Char) : Char :=
  if 97 ≤ c.toNat ∧ c.toNat ≤ 122 then Char.ofNat (c.toNat - 32) else c
def lowerAscii (c : Char) : Char :=
  if 65 ≤ c.toNat ∧ c.toNat ≤ 90 then Char.ofNat (c.toNat + 32) else c

/-- Unicode White_Space -/
def isWs (c : Char) : Bool :=
  let n := c.toNat
  (9 ≤ n && n ≤ 13) || n == 32 || n == 133 || n == 160 || n == 5760 ||
  (8192 ≤ n && n ≤ 8202) || n == 8232 || n == 8233 || n == 8239 || n == 8287 || n == 12288

def trimStart (l : List Char) : List Char := l.dropWhile isWs
def trimEnd (l : List Char) : List Char := (l.reverse.dropWhile isWs).reverse
def trimBoth (l : List Char) : List Char := trimEnd (trimStart l)

def isPrefix : List Char → List Char → Bool
  | [], _ => true
  | _ :: _, [] => false
  | a :: as, b :: bs => a == b && isPrefix as bs

/-- 0-based character index of the first occurrence of `needle` in the list, counting from `i` -/
def findFrom (needle : List Char) : List Char → Nat → Option Nat
  | [], i => if needle.isEmpty then some i else none
  | c :: cs, i => if isPrefix needle (c :: cs) then some i else findFrom needle cs (i + 1)

/-- `SUBSTR(s, pos[, len])` -/
def substr (l : List Char) (pos : Int) (len : Option Int) : List Char :=
  if pos = 0 then []
  else
    let start : Nat := if pos > 0 then (pos - 1).toNat else l.length - (-pos).toNat
    match len with
    | none => l.drop start
    | some n => if n < 0 then [] else (l.drop start).take n.toNat

def leftN (l : List Char) (n : Int) : List Char := if n < 0 then [] else l.take n.toNat
def rightN (l : List Char) (n : Int) : List Char :=
  if n < 0 then [] else l.drop (l.length - n.toNat)

/-- `LOCATE(needle, hay, start)`: 1-based character position, 0 when absent -/
def locate (needle hay : List Char) (start : Int) : Int :=
  if start < 1 then 0
  else
    let s := (start - 1).toNat
    if s ≥ hay.length then 0
    else match findFrom needle (hay.drop s) 0 with
      | some i => Int.ofNat (i + s + 1)
      | none => 0

/-- `INSTR(hay, needle)`: 1-based character position of the first occurrence, 0 when absent
(= `LOCATE(needle, hay)` except that INSTR('', '') = 1) -/
def instr (hay needle : List Char) : Int :=
  match findFrom needle hay 0 with
  | some i => Int.ofNat (i + 1)
  | none => 0

/-- M-code of the pinned `eval_instr` (src/sql/functions/string.rs): `haystack.find(needle)` is a
BYTE offset; the code returns it + 1 without converting to a character position -/
def findBytes (needle : List Nat) : List Nat → Nat → Option Nat
  | [], i => if needle.isEmpty then some i else none
  | b :: bs, i =>
    if needle.isPrefixOf (b :: bs) then some i else findBytes needle bs (i + 1)

def instrImpl (hay needle : List Char) : Int :=
  match findBytes (utf8Bytes needle) (utf8Bytes hay) 0 with
  | some i => Int.ofNat (i + 1)
  | none => 0

def cycleTake (pad : List Char) (n : Nat) : List Char :=
  (List.range n).map (fun i => pad.getD (i % pad.length) ' ')

/-- `none` = NULL -/
def lpad (l : List Char) (n : Int) (pad : List Char) : Option (List Char) :=
  if n < 0 then none
  else
    let k := n.toNat
    if l.length ≥ k then some (l.take k)
    else if pad.isEmpty then some l
    else some (cycleTake pad (k - l.length) ++ l)

def rpad (l : List Char) (n : Int) (pad : List Char) : Option (List Char) :=
  if n < 0 then none
  else
    let k := n.toNat
    if l.length ≥ k then some (l.take k)
    else if pad.isEmpty then some l
    else some (l ++ cycleTake pad (k - l.length))

/-- leftmost, non-overlapping replacement of a NON-EMPTY search string; `skip` characters of an
occurrence already replaced are dropped -/
def replaceGo (frm to : List Char) : List Char → Nat → List Char
  | [], _ => []
  | _ :: cs, skip + 1 => replaceGo frm to cs skip
  | c :: cs, 0 =>
    if isPrefix frm (c :: cs) then to ++ replaceGo frm to cs (frm.length - 1)
    else c :: replaceGo frm to cs 0

def replaceAll (l frm to : List Char) : List Char :=
  if frm.isEmpty then to ++ l.flatMap (fun c => c :: to)
  else replaceGo frm to l 0

def repeatN (l : List Char) (n : Int) : List Char :=
  if n ≤ 0 then [] else (List.replicate n.toNat l).flatten

def intercalateC (sep : List Char) : List (List Char) → List Char
  | [] => []
  | [x] => x
  | x :: y :: rest => x ++ sep ++ intercalateC sep (y :: rest)

/-! ## numbers -/

def inI64 (i : Int) : Bool := decide (i64Min ≤ i) && decide (i ≤ i64Max)

def floorQ (q : Rat) : Int := q.num / (q.den : Int)
def ceilQ (q : Rat) : Int := - floorQ (-q)
def truncQ (q : Rat) : Int := if q ≥ 0 then floorQ q else - floorQ (-q)
/-- round half away from zero -/
def roundQ (q : Rat) : Int :=
  if q ≥ 0 then floorQ (q + (1 : Rat) / 2) else - floorQ (-q + (1 : Rat) / 2)

def pow10 (n : Nat) : Rat := ((10 ^ n : Nat) : Rat)

/-- scale by 10^d (d may be negative) -/
def scale10 (q : Rat) (d : Int) : Rat :=
  if d ≥ 0 then q * pow10 d.toNat else q / pow10 (-d).toNat

def numOf : Val → Option Rat
  | .int i => some (i : Rat)
  | .flt q => some q
  | _ => none

/-- ROUND / TRUNCATE with a digit count: integer result for d ≤ 0, DOUBLE otherwise -/
def roundTo (f : Rat → Int) (q : Rat) (d : Int) : Except Err Val :=
  if d ≤ 0 then
    -- f(q / 10^k) * 10^k
    chkInt (f (scale10 q d) * (10 ^ (-d).toNat : Nat))
  else .ok (.flt (((f (scale10 q d) : Int) : Rat) / pow10 d.toNat))

def powQ (b : Rat) (e : Int) : Except Err Val :=
  if e ≥ 0 then .ok (.flt (b ^ e.toNat))
  else if b = 0 then .error .divzero
  else .ok (.flt (1 / b ^ (-e).toNat))

/-! ## text <-> number -/

def digitsToNat : List Char → Option Nat
  | [] => none
  | cs => cs.foldl (fun acc c =>
      match acc with
      | none => none
      | some a => if 48 ≤ c.toNat ∧ c.toNat ≤ 57 then some (a * 10 + (c.toNat - 48)) else none) (some 0)

/-- optionally signed decimal integer -/
def parseIntChars : List Char → Option Int
  | '-' :: ds => (digitsToNat ds).map (fun n => - (Int.ofNat n))
  | '+' :: ds => (digitsToNat ds).map Int.ofNat
  | ds => (digitsToNat ds).map Int.ofNat

def natDigits (n : Nat) : List Char := (toString n).toList

def intChars (i : Int) : List Char := (toString i).toList

/-- decimal expansion of the fractional part `num/den` (0 ≤ num < den), at most `fuel` digits -/
def fracDigits (num den : Nat) : Nat → List Char
  | 0 => []
  | fuel + 1 =>
    if num = 0 then []
    else
      let d := num * 10 / den
      Char.ofNat (48 + d) :: fracDigits (num * 10 % den) den fuel

/-- shortest decimal rendering of a dyadic rational (exact, finite): `2` for 2.0, `-1.25` -/
def ratChars (q : Rat) : List Char :=
  let neg := q < 0
  let a : Rat := if neg then -q else q
  let ip := floorQ a
  let fnum := (a.num - ip * (a.den : Int)).toNat
  let fr := fracDigits fnum a.den 60
  (if neg then ['-'] else []) ++ natDigits ip.toNat ++ (if fr.isEmpty then [] else '.' :: fr)

def lowerStr (l : List Char) : List Char := l.map lowerAscii

def textOf : Val → Option (List Char)
  | .text s => some s.toList
  | .int i => some (intChars i)
  | _ => none

def mkText (l : List Char) : Val := .text (String.ofList l)

/-! ## the function table -/

inductive Fn where
  | charLength | length | upper | lower | substr | left | right | locate | instr | reverse
  | lpad | rpad | trim | ltrim | rtrim | replace | concat | concatWs | repeat_ | ascii
  | abs | sign | mod | power | round | floor | ceil | truncate | greatest | least
  | coalesce | nullif | ifnull | iff
  | castInt | castText | castBool | castFloat
  | add | sub | mul | div | rem | neg | concatOp
  deriving DecidableEq, Repr, Inhabited

/-- functions that return NULL as soon as any argument is NULL -/
def Fn.isStrict : Fn → Bool
  | .concatWs | .greatest | .least | .coalesce | .nullif | .ifnull | .iff => false
  | _ => true

/-- truth of an IF condition: non-zero number -/
def condTrue : Val → Bool
  | .int i => i != 0
  | .bool b => b
  | .flt q => q != 0
  | _ => false

def extreme (isMax : Bool) (vs : List Val) : Val :=
  minMax isMax (vs.filter (fun v => !v.isNull))

def textFn1 (f : List Char → List Char) : List Val → Except Err Val
  | [a] => match textOf a with
    | some s => .ok (mkText (f s))
    | none => .error .type
  | _ => .error .type

/-- evaluation on arguments none of which is NULL (for strict functions), or any arguments (for
the non-strict ones) -/
def applyNN : Fn → List Val → Except Err Val
  | .charLength, [a] => match textOf a with
    | some s => .ok (.int (charLen s)) | none => .error .type
  | .length, [a] => match textOf a with
    | some s => .ok (.int (byteLen s)) | none => .error .type
  | .upper, as => textFn1 (fun s => s.map upperAscii) as
  | .lower, as => textFn1 (fun s => s.map lowerAscii) as
  | .reverse, as => textFn1 List.reverse as
  | .trim, as => textFn1 trimBoth as
  | .ltrim, as => textFn1 trimStart as
  | .rtrim, as => textFn1 trimEnd as
  | .substr, [a, .int p] => match textOf a with
    | some s => .ok (mkText (substr s p none)) | none => .error .type
  | .substr, [a, .int p, .int n] => match textOf a with
    | some s => .ok (mkText (substr s p (some n))) | none => .error .type
  | .left, [a, .int n] => match textOf a with
    | some s => .ok (mkText (leftN s n)) | none => .error .type
  | .right, [a, .int n] => match textOf a with
    | some s => .ok (mkText (rightN s n)) | none => .error .type
  | .locate, [a, b] => match textOf a, textOf b with
    | some n, some h => .ok (.int (locate n h 1)) | _, _ => .error .type
  | .locate, [a, b, .int st] => match textOf a, textOf b with
    | some n, some h => .ok (.int (locate n h st)) | _, _ => .error .type
  | .instr, [a, b] => match textOf a, textOf b with
    | some h, some n => .ok (.int (instr h n)) | _, _ => .error .type
  | .lpad, [a, .int n, c] => match textOf a, textOf c with
    | some s, some p => .ok ((lpad s n p).elim .null mkText) | _, _ => .error .type
  | .rpad, [a, .int n, c] => match textOf a, textOf c with
    | some s, some p => .ok ((rpad s n p).elim .null mkText) | _, _ => .error .type
  | .replace, [a, b, c] => match textOf a, textOf b, textOf c with
    | some s, some f, some t => .ok (mkText (replaceAll s f t)) | _, _, _ => .error .type
  | .concat, as =>
    match as.mapM textOf with
    | some ss => .ok (mkText ss.flatten)
    | none => .error .type
  | .concatOp, [.text a, .text b] => .ok (mkText (a.toList ++ b.toList))
  | .concatWs, sep :: as =>
    if sep.isNull then .ok .null
    else match textOf sep, (as.filter (fun v => !v.isNull)).mapM textOf with
      | some s, some ss => .ok (mkText (intercalateC s ss))
      | _, _ => .error .type
  | .repeat_, [a, .int n] => match textOf a with
    | some s => .ok (mkText (repeatN s n)) | none => .error .type
  | .ascii, [a] => match textOf a with
    | some [] => .ok (.int 0)
    | some (c :: _) => .ok (.int c.toNat)
    | none => .error .type
  | .abs, [.int i] => chkInt (if i < 0 then -i else i)
  | .abs, [.flt q] => .ok (.flt (if q < 0 then -q else q))
  | .sign, [.int i] => .ok (.int (if i > 0 then 1 else if i < 0 then -1 else 0))
  | .sign, [.flt q] => .ok (.int (if q > 0 then 1 else if q < 0 then -1 else 0))
  | .mod, [.int a, .int b] => if b = 0 then .ok .null else chkInt (Int.tmod a b)
  | .power, [a, .int e] => match numOf a with
    | some b => powQ b e | none => .error .type
  | .round, [a] => match numOf a with
    | some q => roundTo roundQ q 0 | none => .error .type
  | .round, [a, .int d] => match numOf a with
    | some q => roundTo roundQ q d | none => .error .type
  | .truncate, [a] => match numOf a with
    | some q => roundTo truncQ q 0 | none => .error .type
  | .truncate, [a, .int d] => match numOf a with
    | some q => roundTo truncQ q d | none => .error .type
  | .floor, [a] => match numOf a with
    | some q => chkInt (floorQ q) | none => .error .type
  | .ceil, [a] => match numOf a with
    | some q => chkInt (ceilQ q) | none => .error .type
  | .greatest, as => if as.isEmpty then .error .type else .ok (extreme true as)
  | .least, as => if as.isEmpty then .error .type else .ok (extreme false as)
  | .coalesce, as => .ok ((as.find? (fun v => !v.isNull)).getD .null)
  | .ifnull, [a, b] => .ok (if a.isNull then b else a)
  | .nullif, [a, b] => .ok (if a.isNull then .null else if !b.isNull && Val.same a b then .null else a)
  | .iff, [c, a, b] => .ok (if condTrue c then a else b)
  | .castInt, [.int i] => .ok (.int i)
  | .castInt, [.bool b] => .ok (.int (if b then 1 else 0))
  | .castInt, [.flt q] => chkInt (truncQ q)
  | .castInt, [.text s] => match parseIntChars s.toList with
    | some i => if inI64 i then .ok (.int i) else .ok .null
    | none => .ok .null
  | .castText, [.int i] => .ok (mkText (intChars i))
  | .castText, [.text s] => .ok (.text s)
  | .castText, [.flt q] => .ok (mkText (ratChars q))
  | .castBool, [.int i] => .ok (.bool (i != 0))
  | .castBool, [.bool b] => .ok (.bool b)
  | .castBool, [.flt q] => .ok (.bool (q != 0))
  | .castBool, [.text s] =>
    let l := lowerStr s.toList
    if l = "true".toList ∨ l = "t".toList ∨ l = "1".toList ∨ l = "yes".toList ∨ l = "on".toList then .ok (.bool true)
    else if l = "false".toList ∨ l = "f".toList ∨ l = "0".toList ∨ l = "no".toList ∨ l = "off".toList then .ok (.bool false)
    else .ok .null
  | .castFloat, [.int i] => .ok (.flt (i : Rat))
  | .castFloat, [.flt q] => .ok (.flt q)
  | .add, [a, b] => arith .add a b
  | .sub, [a, b] => arith .sub a b
  | .mul, [a, b] => arith .mul a b
  | .div, [a, b] => arith .div a b
  | .rem, [a, b] => arith .mod a b
  | .neg, [.int i] => chkInt (-i)
  | .neg, [.flt q] => .ok (.flt (-q))
  | _, _ => .error .type

/-- a scalar function / operator application -/
def apply (f : Fn) (args : List Val) : Except Err Val :=
  if f.isStrict && args.any Val.isNull then .ok .null else applyNN f args

end TurVerif.SqlFn
