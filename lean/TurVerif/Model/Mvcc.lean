import TurVerif.Model.Undo
/-
C08.  Two models.

M-spec `SI`: snapshot isolation over a versioned store.  `begin` takes `readTs` = the current
commit clock; a read inside a transaction sees the transaction's own latest write of the key, else
the newest committed version with commit timestamp ≤ readTs; an autocommit statement reads the
newest committed version and commits its write at once; `commit` fails (first committer wins) when
a written key has a committed version newer than readTs.

M-code:
  * src/mvcc/version.rs `is_visible_to`, `is_visible_with_clog`, `can_write` (record header flags);
  * the statement-level behaviour of the engine as it is: `execute_begin` commits the MVCC
    transaction at once and only opens an undo log on the handle (src/database/transaction.rs:251),
    DML of any handle writes the shared table B-tree in place, scans filter on DELETE_BIT only
    (src/sql/executor.rs:637), ROLLBACK replays the handle's own undo log.  This is `Multi`: the
    undo-log engine model `TurVerif.Undo.Eng` with one `ActiveTransaction` slot per handle.
Imports only the core-only `TurVerif.Model.Undo`.
-/
namespace TurVerif.Mvcc

/-! ### M-spec: snapshot isolation -/

/-- a committed version; `val = none` is a deletion -/
structure Version where
  key : Nat
  val : Option Nat
  cts : Nat
  deriving Repr, DecidableEq

structure Txn where
  readTs : Nat
  /-- newest first -/
  writes : List (Nat × Option Nat) := []
  deriving Repr

structure SI where
  /-- timestamp of the latest commit -/
  clock : Nat := 0
  /-- committed versions, newest first -/
  versions : List Version := []
  /-- open transaction of each handle -/
  txns : Nat → Option Txn := fun _ => none

/-- newest committed version of `k` with commit timestamp ≤ ts (none: no such row) -/
def committedAt : List Version → Nat → Nat → Option Nat
  | [], _, _ => none
  | v :: vs, ts, k => if v.key = k ∧ v.cts ≤ ts then v.val else committedAt vs ts k

def ownWrite : List (Nat × Option Nat) → Nat → Option (Option Nat)
  | [], _ => none
  | (k', v) :: ws, k => if k' = k then some v else ownWrite ws k

/-- what handle `h` reads for key `k` -/
def SI.read (s : SI) (h k : Nat) : Option Nat :=
  match s.txns h with
  | some t => match ownWrite t.writes k with
    | some v => v
    | none => committedAt s.versions t.readTs k
  | none => committedAt s.versions s.clock k

inductive Op where
  | begin | commit | rollback
  /-- write of key k: `some v` = INSERT / UPDATE to v, `none` = DELETE -/
  | write (k : Nat) (v : Option Nat)
  deriving Repr, DecidableEq

inductive Out where
  | ok | err | conflict
  deriving Repr, DecidableEq

def setTxn (f : Nat → Option Txn) (h : Nat) (t : Option Txn) : Nat → Option Txn :=
  fun h' => if h' = h then t else f h'

/-- versions a commit adds: one per write, all with the same new timestamp (newest first, so the
latest write of a key shadows earlier ones) -/
def commitVersions (ws : List (Nat × Option Nat)) (ts : Nat) : List Version :=
  ws.map (fun w => { key := w.1, val := w.2, cts := ts })

/-- some written key has a committed version newer than the snapshot -/
def conflicts (vs : List Version) (readTs : Nat) (ws : List (Nat × Option Nat)) : Bool :=
  ws.any (fun w => vs.any (fun v => v.key = w.1 ∧ readTs < v.cts))

def SI.step (s : SI) (h : Nat) : Op → SI × Out
  | .begin =>
    match s.txns h with
    | some _ => (s, .err)
    | none => ({ s with txns := setTxn s.txns h (some { readTs := s.clock }) }, .ok)
  | .rollback =>
    match s.txns h with
    | none => (s, .err)
    | some _ => ({ s with txns := setTxn s.txns h none }, .ok)
  | .commit =>
    match s.txns h with
    | none => (s, .err)
    | some t =>
      if conflicts s.versions t.readTs t.writes then
        ({ s with txns := setTxn s.txns h none }, .conflict)
      else
        ({ clock := s.clock + 1, versions := commitVersions t.writes (s.clock + 1) ++ s.versions,
           txns := setTxn s.txns h none }, .ok)
  | .write k v =>
    match s.txns h with
    | some t => ({ s with txns := setTxn s.txns h (some { t with writes := (k, v) :: t.writes }) }, .ok)
    | none =>
      -- autocommit: its own transaction, committed at once
      ({ s with clock := s.clock + 1, versions := { key := k, val := v, cts := s.clock + 1 } :: s.versions }, .ok)

/-- every open transaction's snapshot is not in the future -/
def SI.Inv (s : SI) : Prop := ∀ h t, s.txns h = some t → t.readTs ≤ s.clock

/-! ### M-code: record-header visibility rules (src/mvcc/version.rs) -/

structure Hdr where
  locked : Bool
  deleted : Bool
  txnId : Nat
  deriving Repr, DecidableEq

inductive Vis where
  | visible | invisible | deleted
  deriving Repr, DecidableEq

/-- `RecordHeader::is_visible_to` -/
def isVisibleTo (h : Hdr) (readTs : Nat) : Vis :=
  if h.locked then .invisible
  else if h.txnId > readTs then .invisible
  else if h.deleted then .deleted
  else .visible

/-- `RecordHeader::is_visible_with_clog` -/
def isVisibleWithClog (h : Hdr) (readTs : Nat) (clog : Nat → Option Nat) : Vis :=
  match (if h.locked then clog h.txnId else some h.txnId) with
  | none => .invisible
  | some eff =>
    if eff > readTs then .invisible
    else if h.deleted then .deleted
    else .visible

inductive WriteCheck where
  | canWrite | lockedByOther | concurrentModification
  deriving Repr, DecidableEq

/-- `RecordHeader::can_write` -/
def canWrite (h : Hdr) (writer readTs : Nat) : WriteCheck :=
  if h.locked then (if h.txnId = writer then .canWrite else .lockedByOther)
  else if h.txnId > readTs then .concurrentModification
  else .canWrite

/-- the filter the live scan applies (`BTreeSource::next_row`): DELETE_BIT only -/
def scanKeeps (h : Hdr) : Bool := !h.deleted

/-! ### M-code: the engine as it is, several handles on one shared store -/
open TurVerif.Undo

structure Multi where
  /-- shared store, row counter, header counter; the `st.txn` field is scratch -/
  eng : Eng := {}
  /-- `active_txn` of each handle -/
  txns : Nat → Option (Undo.Txn Rec) := fun _ => none

/-- run an engine operation with handle `h`'s `active_txn` installed -/
def Multi.on {β : Type} (m : Multi) (h : Nat) (f : Eng → Eng × β) : Multi × β :=
  let e : Eng := { m.eng with st := { m.eng.st with txn := m.txns h } }
  let r := f e
  ({ eng := r.1, txns := fun h' => if h' = h then r.1.st.txn else m.txns h' }, r.2)

/-- rows (id, v) a scan through any handle returns: all live rows, whoever wrote them -/
def Multi.scan (m : Multi) : List (Cell × Cell) :=
  m.eng.live.map (fun x => (cellAt x.2 0, cellAt x.2 1))

end TurVerif.Mvcc
