/-
M-code model of `CompiledPredicate::like_match_impl` (src/sql/predicate.rs): the greedy
single-backtrack-point wildcard matcher over BYTES, transcribed loop iteration by loop iteration.
`fuel` bounds the number of loop iterations; `none` = fuel exhausted.
-/
namespace TurVerif.Like

def pct : Nat := 37   -- '%'
def und : Nat := 95   -- '_'

def likeGo (t p : List Nat) : Nat → Nat → Nat → Option Nat → Nat → Option Bool
  | 0, _, _, _, _ => none
  | fuel + 1, ti, pi, star, starTi =>
    if ti < t.length then
      if pi < p.length ∧ (p.getD pi 0 = und ∨ p.getD pi 0 = t.getD ti 0) then
        likeGo t p fuel (ti + 1) (pi + 1) star starTi
      else if pi < p.length ∧ p.getD pi 0 = pct then
        likeGo t p fuel ti (pi + 1) (some pi) ti
      else match star with
        | some sp => likeGo t p fuel (starTi + 1) (sp + 1) star (starTi + 1)
        | none => some false
    else
      -- `while pi < pattern.len() && pattern[pi] == b'%' { pi += 1 }; pi == pattern.len()`
      some ((p.drop pi).all (· == pct))

/-- generous iteration bound: every iteration advances `ti`, or `pi`, or the backtrack point -/
def fuelFor (t p : List Nat) : Nat := (t.length + 2) * (t.length + p.length + 2) + 2

def likeImpl (t p : List Nat) : Option Bool := likeGo t p (fuelFor t p) 0 0 none 0

end TurVerif.Like
