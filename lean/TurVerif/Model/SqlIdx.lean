import TurVerif.Model.SqlDb
/-
M-spec extension for C10 / C43 / C21 (imports only the core-only `TurVerif.Model.SqlDb`).

* C10: an ordered secondary index as a list of `(key, rowid)` entries kept sorted by a key
  comparison `le`; `derive` builds it from the table, `idxInsert` / `idxDelete` maintain it,
  `scan` is the range scan (seek = `dropWhile`, stop = `takeWhile`), `prefixScan` the
  seek-then-`starts_with` loop of `PlanSource::SecondaryIndexScan`, `fetch` the row lookup by
  rowid.  The reference answer is `fullScan` = filter over the table.
* C43: `insertBatch` (one multi-row statement), `insertOne`, `loadSeq` (row-at-a-time loader that
  stops at the first failing row) over `SqlDb`.
* C21: catalogue of index definitions / schemas on top of `SqlDb.DbState`; `reopen` is the identity.
-/
namespace TurVerif.SqlIdx
open TurVerif.Sql TurVerif.SqlDb

/-! ## C10: ordered index -/
structure Entry (κ : Type) where
  key : κ
  rid : Nat
  deriving Repr

variable {κ : Type}

/-- insert keeping the list sorted by `le` on keys (before the first entry that is ≥) -/
def idxInsert (le : κ → κ → Bool) (e : Entry κ) : List (Entry κ) → List (Entry κ)
  | [] => [e]
  | x :: xs => if le e.key x.key then e :: x :: xs else x :: idxInsert le e xs

/-- remove the entries of one row -/
def idxDelete (rid : Nat) (l : List (Entry κ)) : List (Entry κ) := l.filter (fun e => e.rid != rid)

/-- table with row ids -/
abbrev RTable := List (Nat × Row)

def entryOf (keyOf : Row → κ) (r : Nat × Row) : Entry κ := ⟨keyOf r.2, r.1⟩

/-- the index a table determines -/
def derive (le : κ → κ → Bool) (keyOf : Row → κ) (tbl : RTable) : List (Entry κ) :=
  tbl.foldr (fun r acc => idxInsert le (entryOf keyOf r) acc) []

inductive Bound (κ : Type) where
  | unb
  | incl (k : κ)
  | excl (k : κ)
  deriving Repr

/-- key lies strictly below the lower bound -/
def belowLo (le : κ → κ → Bool) : Bound κ → κ → Bool
  | .unb, _ => false
  | .incl lo, k => !(le lo k)
  | .excl lo, k => le k lo

/-- key lies strictly above the upper bound -/
def aboveHi (le : κ → κ → Bool) : Bound κ → κ → Bool
  | .unb, _ => false
  | .incl hi, k => !(le k hi)
  | .excl hi, k => le hi k

def inRange (le : κ → κ → Bool) (lo hi : Bound κ) (k : κ) : Bool :=
  !(belowLo le lo k) && !(aboveHi le hi k)

/-- range scan with arbitrary "below the range" / "above the range" tests:
seek to the first entry not below, then advance while not above -/
def scanBy (below above : κ → Bool) (idx : List (Entry κ)) : List (Entry κ) :=
  (idx.dropWhile (fun e => below e.key)).takeWhile (fun e => !(above e.key))

def scan (le : κ → κ → Bool) (lo hi : Bound κ) (idx : List (Entry κ)) : List (Entry κ) :=
  scanBy (belowLo le lo) (aboveHi le hi) idx

def fetch (tbl : RTable) (rids : List Nat) : RTable :=
  rids.filterMap (fun rid => tbl.find? (fun r => r.1 == rid))

/-- answer through the index -/
def indexLookup (le : κ → κ → Bool) (lo hi : Bound κ) (tbl : RTable) (idx : List (Entry κ)) : RTable :=
  fetch tbl ((scan le lo hi idx).map (·.rid))

/-- answer by full scan -/
def fullScan (le : κ → κ → Bool) (keyOf : Row → κ) (lo hi : Bound κ) (tbl : RTable) : RTable :=
  tbl.filter (fun r => inRange le lo hi (keyOf r.2))

/-! ### byte keys: lexicographic order, prefix scan -/
abbrev Bytes := List Nat

def bytesLe : Bytes → Bytes → Bool
  | [], _ => true
  | _ :: _, [] => false
  | a :: as, b :: bs => if a < b then true else if b < a then false else bytesLe as bs

def startsWith : Bytes → Bytes → Bool     -- `startsWith p k`: p is a prefix of k
  | [], _ => true
  | _ :: _, [] => false
  | a :: as, b :: bs => a == b && startsWith as bs

/-- the loop of `PlanSource::SecondaryIndexScan` for `ScanRange::PrefixScan`:
`cursor_seek(prefix)`, then advance while `key.starts_with(prefix)` -/
def prefixScan (p : Bytes) (idx : List (Entry Bytes)) : List (Entry Bytes) :=
  (idx.dropWhile (fun e => !(bytesLe p e.key))).takeWhile (fun e => startsWith p e.key)

/-! ### M-code fragment: how the engine writes and erases entries of a non-unique index
`insert.rs:1038-1066` stores `enc(cols) ++ rowid(8 bytes BE)`; `delete.rs:575-600` erases the key
`enc(cols)` *without* the row-id suffix (the format of unique indexes) by exact match -/
def ridBytes (rid : Nat) : Bytes :=
  [rid / 256 / 256 / 256 / 256 / 256 / 256 / 256 % 256, rid / 256 / 256 / 256 / 256 / 256 / 256 % 256,
   rid / 256 / 256 / 256 / 256 / 256 % 256, rid / 256 / 256 / 256 / 256 % 256,
   rid / 256 / 256 / 256 % 256, rid / 256 / 256 % 256, rid / 256 % 256, rid % 256]

def engineSecondaryInsert (encKey : Bytes) (rid : Nat) (idx : List (Entry Bytes)) : List (Entry Bytes) :=
  idxInsert bytesLe ⟨encKey ++ ridBytes rid, rid⟩ idx

/-- exact-match erase of one key, as `BTree::delete(key)` does -/
def engineDeleteKey (key : Bytes) (idx : List (Entry Bytes)) : List (Entry Bytes) :=
  idx.filter (fun e => e.key != key)

/-! ### executable instance used by the driver: keys are value tuples -/
def keyLe : List Val → List Val → Bool
  | [], _ => true
  | _ :: _, [] => false
  | a :: as, b :: bs => if Val.le a b && Val.le b a then keyLe as bs else Val.le a b

def headVal (k : List Val) : Val := k.headD .null

/-- rows of a `SqlDb` table numbered by position -/
def withIds (rows : List Row) : RTable := rows.zipIdx.map (fun x => (x.2, x.1))

/-- first-column range query through an index on `cols` (bounds on the first index column;
NULL keys never satisfy a comparison, so every bounded scan also excludes them) -/
def idxQuery (rows : List Row) (cols : List Nat) (lo hi : Bound Val) : List Row :=
  let tbl := withIds rows
  let idx := derive keyLe (fun r => keyOf r cols) tbl
  let below := fun (k : List Val) => (headVal k).isNull || belowLo Val.le lo (headVal k)
  let above := fun (k : List Val) => !(headVal k).isNull && aboveHi Val.le hi (headVal k)
  (fetch tbl ((scanBy below above idx).map (·.rid))).map (·.2)

/-- the same query as a filter over the full scan -/
def scanQuery (rows : List Row) (cols : List Nat) (lo hi : Bound Val) : List Row :=
  rows.filter (fun r =>
    let v := headVal (keyOf r cols)
    !v.isNull && inRange Val.le lo hi v)

/-! ## C43: bulk load vs row-at-a-time -/
def insertBatch (t : String) (cols : List Nat) (rows : List (List Expr)) (s : DbState) : DbState × Res :=
  step s (.insert t cols rows)

def insertOne (t : String) (cols : List Nat) (s : DbState) (row : List Expr) : DbState :=
  (step s (.insert t cols [row])).1

def isErr : Res → Bool
  | .err _ => true
  | _ => false

/-- row-at-a-time loader: one INSERT per row, stops at the first failing row; returns the state,
the number of rows loaded and the error (if any) -/
def loadSeq (t : String) (cols : List Nat) : List (List Expr) → DbState → DbState × Nat × Option Err
  | [], s => (s, 0, none)
  | r :: rest, s =>
    match step s (.insert t cols [r]) with
    | (_, .err e) => (s, 0, some e)
    | (s1, _) =>
      let (s2, n, e) := loadSeq t cols rest s1
      (s2, n + 1, e)

/-! ## C21: catalogue on top of the relational state -/
structure IdxDef where
  name : String
  table : String
  cols : List Nat
  unique : Bool
  deriving Repr, Inhabited

structure St where
  db : DbState := {}
  idx : List IdxDef := []
  schemas : List String := []
  deriving Repr, Inhabited

inductive Ddl where
  | createTable (t : TableSt)
  | dropTable (n : String)
  | createIndex (d : IdxDef)
  | dropIndex (n : String)
  | createSchema (n : String)
  | dropSchema (n : String)
  | truncate (t : String)
  | addColumn (t : String) (c : ColDef)
  | dropColumn (t : String) (i : Nat)
  | renameColumn (t : String) (i : Nat) (n : String)
  | reopen
  deriving Repr, Inhabited

/-- renumber column references after column `i` is removed; `none` when the set mentions `i` -/
def shiftCols (i : Nat) (cs : List Nat) : Option (List Nat) :=
  if cs.contains i then none else some (cs.map (fun c => if c > i then c - 1 else c))

def okRes : Res → Bool
  | .err _ => false
  | _ => true

def ddl (s : St) : Ddl → St × Res
  | .createTable t =>
    if (s.db.find t.name).isSome then (s, .err .other)
    else ({ s with db := { s.db with tables := s.db.tables ++ [{ t with rows := [] }] } }, .done)
  | .dropTable n =>
    let (db, r) := step s.db (.dropTable n)
    if okRes r then ({ s with db := db, idx := s.idx.filter (·.table != n) }, r) else (s, r)
  | .createIndex d =>
    if s.idx.any (·.name == d.name) then (s, .err .other) else
    match s.db.find d.table with
    | none => (s, .err .missing)
    | some t =>
      if d.unique then
        if uniqueOk d.cols t.rows then
          ({ s with db := s.db.put { t with uniques := t.uniques ++ [d.cols] }, idx := s.idx ++ [d] }, .done)
        else (s, .err .constraint)
      else ({ s with idx := s.idx ++ [d] }, .done)
  | .dropIndex n =>
    match s.idx.find? (·.name == n) with
    | none => (s, .err .missing)
    | some d =>
      let s1 := { s with idx := s.idx.filter (·.name != n) }
      if d.unique then
        match s.db.find d.table with
        | none => (s1, .done)
        | some t => ({ s1 with db := s.db.put { t with uniques := t.uniques.erase d.cols } }, .done)
      else (s1, .done)
  | .createSchema n =>
    if s.schemas.contains n then (s, .err .other) else ({ s with schemas := s.schemas ++ [n] }, .done)
  | .dropSchema n =>
    -- tables of the schema are named `<schema>.<table>`; they go with it
    if s.schemas.contains n then
      ({ s with schemas := s.schemas.filter (· != n),
                db := { s.db with tables := s.db.tables.filter (fun t => !(t.name.startsWith (n ++ "."))) },
                idx := s.idx.filter (fun d => !(d.table.startsWith (n ++ "."))) }, .done)
    else (s, .err .missing)
  | .truncate t =>
    let (db, r) := step s.db (.truncate t)
    ({ s with db := db }, r)
  | .addColumn t c =>
    let (db, r) := step s.db (.addColumn t c)
    ({ s with db := db }, r)
  | .dropColumn tn i =>
    match s.db.find tn with
    | none => (s, .err .missing)
    | some t =>
      if i ≥ t.cols.length then (s, .err .missing) else
      let t1 := { t with uniques := t.uniques.filterMap (shiftCols i) }
      let (db, r) := step (s.db.put t1) (.dropColumn tn i)
      let idx := s.idx.filterMap (fun d =>
        if d.table != tn then some d else (shiftCols i d.cols).map (fun cs => { d with cols := cs }))
      ({ s with db := db, idx := idx }, r)
  | .renameColumn t i n =>
    let (db, r) := step s.db (.renameColumn t i n)
    ({ s with db := db }, r)
  | .reopen => (s, .done)

/-- closing and reopening the database is the identity on the logical state -/
def reopen (s : DbState) : DbState := s

end TurVerif.SqlIdx
