import TurVerif.Model.SqlDb
/-
M-spec: maintenance and configuration operations on the relational reference model
(`TurVerif.SqlDb`).  This is the *specification* C04 and C42 refer to:

* a checkpoint (explicit through the API, `PRAGMA wal_checkpoint`, automatic) and a configuration
  statement (`PRAGMA wal | synchronous | wal_autoflush | wal_checkpoint_threshold`) are the
  identity on the logical database, and return nothing a query could see;
* close + reopen is the identity when no transaction is open; with an open transaction it is a
  ROLLBACK (`Database::close` calls `abort_active_transaction`).

Imports only the core-only reference model.
-/
namespace TurVerif.SqlMaint
open TurVerif.SqlDb

inductive Maint where
  /-- `Database::checkpoint()` -/
  | checkpoint
  /-- `PRAGMA wal_checkpoint` / `Database::checkpoint_wal()` -/
  | pragmaCheckpoint
  /-- a checkpoint triggered by the frame-count threshold at COMMIT -/
  | autoCheckpoint
  /-- any configuration PRAGMA (name, value) -/
  | config (name value : String)
  /-- `Database::close()` (or dropping the handle) followed by `Database::open` -/
  | reopen
  deriving Repr, DecidableEq

inductive Item where
  | stmt (s : Stmt)
  | maint (m : Maint)
  deriving Repr

def Item.isReopen : Item → Bool
  | .maint .reopen => true
  | _ => false

/-- the logical effect of a maintenance operation -/
def maintStep (s : DbState) : Maint → DbState
  | .reopen =>
    match s.txn.getLast? with
    | none => s
    | some (_, snap) => { tables := snap, txn := [] }
  | _ => s

/-- run a history with maintenance operations; only statements produce results -/
def runItems (s : DbState) : List Item → DbState × List Res
  | [] => (s, [])
  | .stmt st :: rest =>
    let (s1, r) := step s st
    let (s2, rs) := runItems s1 rest
    (s2, r :: rs)
  | .maint m :: rest => runItems (maintStep s m) rest

/-- the history with the maintenance operations erased -/
def stmtsOf : List Item → List Stmt
  | [] => []
  | .stmt st :: rest => st :: stmtsOf rest
  | .maint _ :: rest => stmtsOf rest

/-- the history in which a reopen is replaced by what it means logically: a ROLLBACK if a
transaction is open (the flag is threaded through the statements), nothing otherwise -/
def txnOpen (s : DbState) : Bool := !s.txn.isEmpty

theorem maintStep_no_txn (s : DbState) (m : Maint) (h : s.txn = []) : maintStep s m = s := by
  cases m <;> simp [maintStep, h]

theorem maintStep_not_reopen (s : DbState) (m : Maint) (h : m ≠ .reopen) : maintStep s m = s := by
  cases m <;> simp_all [maintStep]

/-- reopen with an open transaction = ROLLBACK -/
theorem maintStep_reopen_in_txn (s : DbState) (h : s.txn ≠ []) :
    maintStep s .reopen = (step s .rollback).1 := by
  unfold maintStep step
  cases hg : s.txn.getLast? with
  | none => exact absurd (List.getLast?_eq_none_iff.mp hg) h
  | some e => rfl

/-- histories without reopen: maintenance and configuration are invisible -/
theorem runItems_eq_run (s : DbState) (items : List Item) (h : ∀ it ∈ items, it.isReopen = false) :
    runItems s items = run s (stmtsOf items) := by
  induction items generalizing s with
  | nil => rfl
  | cons it rest ih =>
    have hr : ∀ it ∈ rest, it.isReopen = false := fun x hx => h x (List.mem_cons_of_mem _ hx)
    cases it with
    | stmt st =>
      simp only [runItems, stmtsOf, run]
      rw [ih (step s st).1 hr]
    | maint m =>
      have hm : m ≠ .reopen := by
        intro e; have := h (.maint m) (List.mem_cons_self); simp [Item.isReopen, e] at this
      simp only [runItems, stmtsOf]
      rw [maintStep_not_reopen s m hm]
      exact ih s hr

end TurVerif.SqlMaint
