/-
M-code model of the group-commit protocol: `GroupCommitQueue` (src/database/group_commit.rs) as
driven by `execute_small_commit` (src/database/transaction.rs): every committer
  submit_and_wait(payload)  →  if Ok: take_pending() → [write the batch → complete_batch | fail_batch]
One step = one critical section under the queue's state mutex or one marked region between the
yield points installed by the hooks (gc.submit, gc.wait.lock, gc.take_pending, write,
gc.complete.mark / gc.fail.mark, gc.complete.clear_flag / gc.fail.clear_flag).
Default configuration (min_batch_size = 1): `should_flush` ⇔ pending is non-empty.
Thread i submits commit id i.  No imports.
-/
namespace TurVerif.GroupCommit

inductive Pc where
  | start
  /-- inside `wait_for_completion`, about to lock the state (the `while !completed` test passed) -/
  | waitLock
  /-- blocked in `flush_complete.wait_for` -/
  | condWait
  /-- `submit_and_wait` returned Ok; about to call `take_pending()` -/
  | take
  /-- owns a drained batch; about to write it to the WAL -/
  | write (batch : List Nat)
  /-- about to mark every commit of the batch completed (ok) or failed -/
  | mark (batch : List Nat) (ok : Bool)
  /-- about to clear `flush_in_progress` and `notify_all` -/
  | clear (batch : List Nat) (ok : Bool)
  /-- returned to the caller: `true` = COMMIT reported success -/
  | done (success : Bool)
  deriving DecidableEq, Repr, Inhabited

structure Thread where
  pc : Pc := .start
  /-- fault injection: this thread's WAL write fails -/
  failWrite : Bool := false
  deriving DecidableEq, Repr, Inhabited

structure State where
  pending : List Nat := []
  flushInProgress : Bool := false
  /-- per commit id: completed flag and error flag -/
  completed : List Bool
  errored : List Bool
  /-- the WAL: commit ids in write order -/
  log : List Nat := []
  threads : List Thread
  deriving DecidableEq, Repr, Inhabited

def init (fails : List Bool) : State :=
  { completed := fails.map (fun _ => false), errored := fails.map (fun _ => false),
    threads := fails.map (fun f => { failWrite := f }) }

def setThread (s : State) (tid : Nat) (t : Thread) : State :=
  { s with threads := s.threads.set tid t }

/-- what a thread does when it leaves the `while !pending.is_completed()` loop because its commit
is completed: `take_error()` decides Ok / Err; on Ok the caller goes on to `take_pending()` -/
def afterCompleted (s : State) (tid : Nat) : Pc :=
  if s.errored.getD tid false then .done false else .take

/-- `notify_all`: every thread blocked on the condition variable re-runs the loop head: a
completed commit leaves the loop, the others are back at the lock -/
def wakeAll (s : State) : State :=
  { s with threads := s.threads.zipIdx.map (fun (t, i) =>
      if t.pc = .condWait then
        { t with pc := if s.completed.getD i false then afterCompleted s i else .waitLock }
      else t) }

def step (s : State) (tid : Nat) : Option State :=
  match s.threads[tid]? with
  | none => none
  | some t =>
    match t.pc with
    | .start =>
      -- submit: push under the lock; the loop test `!completed` is true right after
      some (setThread { s with pending := s.pending ++ [tid] } tid { t with pc := .waitLock })
    | .waitLock =>
      if s.completed.getD tid false then
        some (setThread s tid { t with pc := afterCompleted s tid })
      else if s.flushInProgress = false ∧ s.pending ≠ [] then
        -- becomes the leader: sets the flag and returns Ok(())
        some (setThread { s with flushInProgress := true } tid { t with pc := .take })
      else some (setThread s tid { t with pc := .condWait })
    | .condWait => none     -- only `wakeAll` moves it
    | .take =>
      if s.pending = [] then some (setThread s tid { t with pc := .done true })
      else some (setThread { s with flushInProgress := true, pending := [] } tid
                  { t with pc := .write s.pending })
    | .write batch =>
      if t.failWrite then some (setThread s tid { t with pc := .mark batch false })
      else some (setThread { s with log := s.log ++ batch } tid { t with pc := .mark batch true })
    | .mark batch ok =>
      some (setThread { s with
          completed := s.completed.zipIdx.map (fun (c, i) => c || batch.contains i),
          errored := s.errored.zipIdx.map (fun (e, i) => e || (!ok && batch.contains i)) } tid
        { t with pc := .clear batch ok })
    | .clear _ ok =>
      some (wakeAll (setThread { s with flushInProgress := false } tid { t with pc := .done ok }))
    | .done _ => none

def run (s : State) : List Nat → State
  | [] => s
  | tid :: rest => run ((step s tid).getD s) rest

/-- the property's central safety clause: a committer that has been told "success" has its
payload in the log -/
def ackImpliesLogged (s : State) : Bool :=
  s.threads.zipIdx.all (fun (t, i) => t.pc != .done true || s.log.contains i)

def logNodup (s : State) : Bool := s.log.eraseDups.length == s.log.length

def quiescent (s : State) : Bool :=
  s.threads.all (fun t => match t.pc with | .done _ => true | _ => false)

end TurVerif.GroupCommit
