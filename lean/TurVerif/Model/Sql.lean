/-
M-spec: reference semantics for the SQL fragment the SQL-level properties talk about
(C05–C07, C09, C10, C12, C14–C21, C43).  This is the *definition* of what the property
statements demand (three-valued logic, NULL handling, ordering, aggregates, joins, set
operations, DML state machine); it is not a transcription of the executor.
No imports outside core.  `Rat` (core) stands for DOUBLE values: arithmetic on the
generated data is exact (dyadic rationals of small magnitude) or compared up to rounding.
-/
namespace TurVerif.Sql

/-! ## three-valued logic -/
inductive Tri where
  | t | f | u
  deriving DecidableEq, Repr, Inhabited

namespace Tri
def and : Tri → Tri → Tri
  | f, _ => f
  | _, f => f
  | t, t => t
  | _, _ => u
def or : Tri → Tri → Tri
  | t, _ => t
  | _, t => t
  | f, f => f
  | _, _ => u
def not : Tri → Tri
  | t => f
  | f => t
  | u => u
def isTrue : Tri → Bool
  | t => true
  | _ => false
end Tri

/-! ## values -/
inductive Val where
  | null
  | bool (b : Bool)
  | int (i : Int)
  | flt (q : Rat)
  | text (s : String)
  deriving DecidableEq, Repr, Inhabited

inductive Err where
  | overflow | divzero | type | card | missing | constraint | other
  deriving DecidableEq, Repr, Inhabited

abbrev Row := List Val

def Val.isNull : Val → Bool
  | .null => true
  | _ => false

def Val.ofTri : Tri → Val
  | .t => .bool true
  | .f => .bool false
  | .u => .null

/-- truth value of a value used as a condition -/
def Val.truth : Val → Except Err Tri
  | .null => .ok .u
  | .bool true => .ok .t
  | .bool false => .ok .f
  | _ => .error .type

def ratCmp (a b : Rat) : Ordering :=
  if a < b then .lt else if a = b then .eq else .gt

/-- three-way comparison of two non-NULL values of comparable types; `none` when either is
NULL; type mismatch is an error -/
def Val.cmp : Val → Val → Except Err (Option Ordering)
  | .null, _ => .ok none
  | _, .null => .ok none
  | .int a, .int b => .ok (some (compare a b))
  | .int a, .flt b => .ok (some (ratCmp (a : Rat) b))
  | .flt a, .int b => .ok (some (ratCmp a (b : Rat)))
  | .flt a, .flt b => .ok (some (ratCmp a b))
  | .text a, .text b => .ok (some (compare a b))
  | .bool a, .bool b => .ok (some (compare a b))
  | _, _ => .error .type

def i64Min : Int := -9223372036854775808
def i64Max : Int := 9223372036854775807

/-- checked 64-bit result: overflow is an error, never a wrapped value -/
def chkInt (i : Int) : Except Err Val :=
  if i64Min ≤ i ∧ i ≤ i64Max then .ok (.int i) else .error .overflow

inductive BinOp where
  | add | sub | mul | div | mod | concat
  | eq | ne | lt | le | gt | ge
  | and | or
  deriving DecidableEq, Repr, Inhabited

def cmpHolds (op : BinOp) (o : Ordering) : Bool :=
  match op with
  | .eq => o == .eq
  | .ne => o != .eq
  | .lt => o == .lt
  | .le => o != .gt
  | .gt => o == .gt
  | .ge => o != .lt
  | _ => false

def arith (op : BinOp) (a b : Val) : Except Err Val :=
  match a, b with
  | .null, _ => .ok .null
  | _, .null => .ok .null
  | .int x, .int y =>
    match op with
    | .add => chkInt (x + y)
    | .sub => chkInt (x - y)
    | .mul => chkInt (x * y)
    | .div => if y = 0 then .error .divzero else chkInt (Int.tdiv x y)
    | .mod => if y = 0 then .error .divzero else chkInt (Int.tmod x y)
    | _ => .error .type
  | .int x, .flt y => arithF op x y
  | .flt x, .int y => arithF op x y
  | .flt x, .flt y => arithF op x y
  | _, _ => .error .type
where
  arithF (op : BinOp) (x y : Rat) : Except Err Val :=
    match op with
    | .add => .ok (.flt (x + y))
    | .sub => .ok (.flt (x - y))
    | .mul => .ok (.flt (x * y))
    | .div => if y = 0 then .error .divzero else .ok (.flt (x / y))
    | _ => .error .type

def concatV (a b : Val) : Except Err Val :=
  match a, b with
  | .null, _ => .ok .null
  | _, .null => .ok .null
  | .text x, .text y => .ok (.text (x ++ y))
  | _, _ => .error .type

/-! ## LIKE: declarative specification (`%` any string, `_` exactly one character) -/
def tails {α : Type} : List α → List (List α)
  | [] => [[]]
  | x :: xs => (x :: xs) :: tails xs

/-- pattern-directed definition: `%` may consume any prefix of the text, `_` exactly one
character, any other pattern character itself -/
def likeSpec : List Char → List Char → Bool
  | [], s => s.isEmpty
  | c :: p, s =>
    if c = '%' then (tails s).any (fun s' => likeSpec p s')
    else match s with
      | [] => false
      | x :: s' => (c = '_' || c = x) && likeSpec p s'

/-! ## expressions -/
inductive Expr where
  | lit (v : Val)
  | col (i : Nat)
  | neg (e : Expr)
  | not (e : Expr)
  | bin (op : BinOp) (a b : Expr)
  | isNull (e : Expr) (negated : Bool)
  | inList (e : Expr) (l : List Expr) (negated : Bool)
  | between (e lo hi : Expr) (negated : Bool)
  | like (e pat : Expr) (negated : Bool)
  | coalesce (l : List Expr)
  | caseWhen (whens : List (Expr × Expr)) (els : Expr)
  deriving Repr, Inhabited

def cmpVals (op : BinOp) (a b : Val) : Except Err Val :=
  match Val.cmp a b with
  | .error e => .error e
  | .ok none => .ok .null
  | .ok (some o) => .ok (.bool (cmpHolds op o))

def triOf (v : Val) : Except Err Tri := v.truth

/-- `x IN (v₁ … vₙ)` folded as `x = v₁ OR … OR x = vₙ` in 3VL -/
def inFold (x : Val) : List Val → Except Err Tri
  | [] => .ok .f
  | v :: vs =>
    match cmpVals .eq x v with
    | .error e => .error e
    | .ok c =>
      match c.truth, inFold x vs with
      | .ok a, .ok b => .ok (Tri.or a b)
      | .error e, _ => .error e
      | _, .error e => .error e

mutual
def eval (r : Row) : Expr → Except Err Val
  | .lit v => .ok v
  | .col i => match r[i]? with
      | some v => .ok v
      | none => .error .missing
  | .neg e => match eval r e with
      | .error x => .error x
      | .ok .null => .ok .null
      | .ok (.int i) => chkInt (-i)
      | .ok (.flt q) => .ok (.flt (-q))
      | .ok _ => .error .type
  | .not e => match eval r e with
      | .error x => .error x
      | .ok v => match v.truth with
        | .error x => .error x
        | .ok tv => .ok (Val.ofTri tv.not)
  | .bin op a b =>
    match eval r a, eval r b with
    | .error x, _ => .error x
    | _, .error x => .error x
    | .ok va, .ok vb =>
      match op with
      | .and => match va.truth, vb.truth with
          | .ok x, .ok y => .ok (Val.ofTri (x.and y))
          | .error e, _ => .error e
          | _, .error e => .error e
      | .or => match va.truth, vb.truth with
          | .ok x, .ok y => .ok (Val.ofTri (x.or y))
          | .error e, _ => .error e
          | _, .error e => .error e
      | .eq | .ne | .lt | .le | .gt | .ge => cmpVals op va vb
      | .concat => concatV va vb
      | _ => arith op va vb
  | .isNull e negated => match eval r e with
      | .error x => .error x
      | .ok v => .ok (.bool (v.isNull != negated))
  | .inList e l negated =>
    match eval r e, evalList r l with
    | .error x, _ => .error x
    | _, .error x => .error x
    | .ok v, .ok vs => match inFold v vs with
      | .error x => .error x
      | .ok tv => .ok (Val.ofTri (if negated then tv.not else tv))
  | .between e lo hi negated =>
    match eval r e, eval r lo, eval r hi with
    | .ok v, .ok l, .ok h =>
      match cmpVals .ge v l, cmpVals .le v h with
      | .ok a, .ok b => match a.truth, b.truth with
        | .ok x, .ok y => .ok (Val.ofTri (if negated then (x.and y).not else x.and y))
        | .error e, _ => .error e
        | _, .error e => .error e
      | .error e, _ => .error e
      | _, .error e => .error e
    | .error x, _, _ => .error x
    | _, .error x, _ => .error x
    | _, _, .error x => .error x
  | .like e p negated =>
    match eval r e, eval r p with
    | .error x, _ => .error x
    | _, .error x => .error x
    | .ok .null, .ok _ => .ok .null
    | .ok _, .ok .null => .ok .null
    | .ok (.text s), .ok (.text pat) =>
      .ok (.bool (likeSpec pat.toList s.toList != negated))
    | .ok _, .ok _ => .error .type
  | .coalesce l => match evalList r l with
      | .error x => .error x
      | .ok vs => .ok ((vs.find? (fun v => !v.isNull)).getD .null)
  | .caseWhen whens els => match evalCase r whens with
      | .error x => .error x
      | .ok (some v) => .ok v
      | .ok none => eval r els
def evalList (r : Row) : List Expr → Except Err (List Val)
  | [] => .ok []
  | e :: es => match eval r e, evalList r es with
    | .ok v, .ok vs => .ok (v :: vs)
    | .error x, _ => .error x
    | _, .error x => .error x
def evalCase (r : Row) : List (Expr × Expr) → Except Err (Option Val)
  | [] => .ok none
  | (c, v) :: rest => match eval r c with
    | .error x => .error x
    | .ok cv => match cv.truth with
      | .error x => .error x
      | .ok .t => match eval r v with
        | .error x => .error x
        | .ok w => .ok (some w)
      | .ok _ => evalCase r rest
end

/-- the filter keeps exactly the rows whose predicate is TRUE -/
def keeps (p : Expr) (r : Row) : Except Err Bool :=
  match eval r p with
  | .error e => .error e
  | .ok v => match v.truth with
    | .error e => .error e
    | .ok tv => .ok tv.isTrue

def filterRows (p : Expr) : List Row → Except Err (List Row)
  | [] => .ok []
  | r :: rs => match keeps p r, filterRows p rs with
    | .ok b, .ok out => .ok (if b then r :: out else out)
    | .error e, _ => .error e
    | _, .error e => .error e

def projectRows (es : List Expr) : List Row → Except Err (List Row)
  | [] => .ok []
  | r :: rs => match evalList r es, projectRows es rs with
    | .ok v, .ok out => .ok (v :: out)
    | .error e, _ => .error e
    | _, .error e => .error e

/-! ## ordering: NULL is smaller than every non-NULL value -/
/-- total preorder used by ORDER BY on one key (ascending); mixed numeric types compare by value;
values of incomparable types are ranked by a fixed type rank so the relation stays total -/
def Val.rank : Val → Nat
  | .null => 0
  | .bool _ => 1
  | .int _ => 2
  | .flt _ => 2
  | .text _ => 3

def Val.le (a b : Val) : Bool :=
  match a, b with
  | .null, _ => true
  | _, .null => false
  | .int x, .int y => x ≤ y
  | .int x, .flt y => (x : Rat) ≤ y
  | .flt x, .int y => x ≤ (y : Rat)
  | .flt x, .flt y => x ≤ y
  | .text x, .text y => x ≤ y
  | .bool x, .bool y => x ≤ y
  | a, b => a.rank ≤ b.rank

def Val.equiv (a b : Val) : Bool := a.le b && b.le a

/-- lexicographic comparison of key tuples with per-key direction (`true` = DESC) -/
def keysLe : List (Val × Bool) → List (Val × Bool) → Bool
  | [], _ => true
  | _, [] => true
  | (a, d) :: as, (b, _) :: bs =>
    if Val.equiv a b then keysLe as bs
    else if d then Val.le b a else Val.le a b

structure OrderKey where
  e : Expr
  desc : Bool
  deriving Repr, Inhabited

def evalKeys (ks : List OrderKey) (r : Row) : Except Err (List (Val × Bool)) :=
  match ks with
  | [] => .ok []
  | k :: rest => match eval r k.e, evalKeys rest r with
    | .ok v, .ok vs => .ok ((v, k.desc) :: vs)
    | .error e, _ => .error e
    | _, .error e => .error e

def attachKeys (ks : List OrderKey) : List Row → Except Err (List (List (Val × Bool) × Row))
  | [] => .ok []
  | r :: rs => match evalKeys ks r, attachKeys ks rs with
    | .ok k, .ok out => .ok ((k, r) :: out)
    | .error e, _ => .error e
    | _, .error e => .error e

/-- stable sort by the keys -/
def orderBy (ks : List OrderKey) (rows : List Row) : Except Err (List Row) :=
  match attachKeys ks rows with
  | .error e => .error e
  | .ok kr => .ok ((kr.mergeSort (fun a b => keysLe a.1 b.1)).map (·.2))

def limitOffset (limit : Option Nat) (offset : Nat) (rows : List Row) : List Row :=
  match limit with
  | none => rows.drop offset
  | some l => (rows.drop offset).take l

/-- row equality for DISTINCT / GROUP BY / set operations: NULLs are not distinct from each
other; numeric values compare by value -/
def Val.same (a b : Val) : Bool :=
  match a, b with
  | .null, .null => true
  | .int x, .flt y => (x : Rat) == y
  | .flt x, .int y => x == (y : Rat)
  | a, b => a == b

def rowSame : Row → Row → Bool
  | [], [] => true
  | a :: as, b :: bs => Val.same a b && rowSame as bs
  | _, _ => false

/-- keep the first occurrence of each distinct row -/
def distinct : List Row → List Row
  | [] => []
  | r :: rs => r :: (distinct rs).filter (fun x => !rowSame r x)

/-! ## aggregates -/
inductive AggFn where
  | countStar | count | sum | avg | min | max
  deriving DecidableEq, Repr, Inhabited

structure Agg where
  fn : AggFn
  arg : Expr   -- ignored for countStar
  deriving Repr, Inhabited

def sumVals : List Val → Except Err Val
  | [] => .ok .null
  | v :: vs => match sumVals vs with
    | .error e => .error e
    | .ok .null => .ok v
    | .ok acc => arith .add v acc

def minMax (isMax : Bool) : List Val → Val
  | [] => .null
  | v :: vs =>
    match minMax isMax vs with
    | .null => v
    | m => if isMax then (if Val.le m v then v else m) else (if Val.le v m then v else m)

def toRat : Val → Option Rat
  | .int i => some (i : Rat)
  | .flt q => some q
  | _ => none

def sumRat : List Val → Rat
  | [] => 0
  | v :: vs => (toRat v).getD 0 + sumRat vs

/-- one aggregate over the rows of one group -/
def evalAgg (a : Agg) (rows : List Row) : Except Err Val :=
  match a.fn with
  | .countStar => .ok (.int rows.length)
  | _ =>
    match projectRows [a.arg] rows with
    | .error e => .error e
    | .ok cols =>
      let vs := (cols.map (fun r => r.headD .null)).filter (fun v => !v.isNull)
      match a.fn with
      | .count => .ok (.int vs.length)
      | .sum => sumVals vs
      | .avg => if vs.isEmpty then .ok .null else .ok (.flt (sumRat vs / (vs.length : Rat)))
      | .min => .ok (minMax false vs)
      | .max => .ok (minMax true vs)
      | .countStar => .ok (.int rows.length)

def evalAggs (as : List Agg) (rows : List Row) : Except Err (List Val) :=
  match as with
  | [] => .ok []
  | a :: rest => match evalAgg a rows, evalAggs rest rows with
    | .ok v, .ok vs => .ok (v :: vs)
    | .error e, _ => .error e
    | _, .error e => .error e

/-- group keys in first-occurrence order -/
def groupKeys (keys : List Expr) (rows : List Row) : Except Err (List Row) :=
  match projectRows keys rows with
  | .error e => .error e
  | .ok ks => .ok (distinct ks)

def groupRows (keys : List Expr) (k : Row) : List Row → Except Err (List Row)
  | [] => .ok []
  | r :: rs => match evalList r keys, groupRows keys k rs with
    | .ok kv, .ok out => .ok (if rowSame k kv then r :: out else out)
    | .error e, _ => .error e
    | _, .error e => .error e

/-- GROUP BY: one output row `key ++ aggregates` per distinct key; with no keys exactly one
group (also for empty input) -/
def aggregate (keys : List Expr) (aggs : List Agg) (rows : List Row) : Except Err (List Row) :=
  if keys.isEmpty then
    match evalAggs aggs rows with
    | .error e => .error e
    | .ok vs => .ok [vs]
  else
    match groupKeys keys rows with
    | .error e => .error e
    | .ok ks => go ks
where
  go : List Row → Except Err (List Row)
    | [] => .ok []
    | k :: rest => match groupRows keys k rows with
      | .error e => .error e
      | .ok g => match evalAggs aggs g, go rest with
        | .ok vs, .ok out => .ok ((k ++ vs) :: out)
        | .error e, _ => .error e
        | _, .error e => .error e

/-! ## joins (nested-loop definition) -/
inductive JoinKind where
  | inner | left | right | full | cross
  deriving DecidableEq, Repr, Inhabited

def nulls (n : Nat) : Row := List.replicate n .null

def matchesOf (on : Expr) (l : Row) : List Row → Except Err (List Row)
  | [] => .ok []
  | r :: rs => match keeps on (l ++ r), matchesOf on l rs with
    | .ok b, .ok out => .ok (if b then (l ++ r) :: out else out)
    | .error e, _ => .error e
    | _, .error e => .error e

def innerJoin (on : Expr) (ls rs : List Row) : Except Err (List Row) :=
  match ls with
  | [] => .ok []
  | l :: rest => match matchesOf on l rs, innerJoin on rest rs with
    | .ok a, .ok b => .ok (a ++ b)
    | .error e, _ => .error e
    | _, .error e => .error e

/-- left rows with their matches; unmatched left rows are NULL-extended -/
def leftJoin (on : Expr) (wr : Nat) (ls rs : List Row) : Except Err (List Row) :=
  match ls with
  | [] => .ok []
  | l :: rest => match matchesOf on l rs, leftJoin on wr rest rs with
    | .ok a, .ok b => .ok ((if a.isEmpty then [l ++ nulls wr] else a) ++ b)
    | .error e, _ => .error e
    | _, .error e => .error e

def hasMatch (on : Expr) (ls : List Row) (r : Row) : Except Err Bool :=
  match ls with
  | [] => .ok false
  | l :: rest => match keeps on (l ++ r), hasMatch on rest r with
    | .ok a, .ok b => .ok (a || b)
    | .error e, _ => .error e
    | _, .error e => .error e

/-- right rows without any match, NULL-extended on the left -/
def rightOnly (on : Expr) (wl : Nat) (ls : List Row) : List Row → Except Err (List Row)
  | [] => .ok []
  | r :: rs => match hasMatch on ls r, rightOnly on wl ls rs with
    | .ok m, .ok out => .ok (if m then out else (nulls wl ++ r) :: out)
    | .error e, _ => .error e
    | _, .error e => .error e

def join (k : JoinKind) (on : Expr) (wl wr : Nat) (ls rs : List Row) : Except Err (List Row) :=
  match k with
  | .cross => innerJoin (.lit (.bool true)) ls rs
  | .inner => innerJoin on ls rs
  | .left => leftJoin on wr ls rs
  | .right => match innerJoin on ls rs, rightOnly on wl ls rs with
    | .ok a, .ok b => .ok (a ++ b)
    | .error e, _ => .error e
    | _, .error e => .error e
  | .full => match leftJoin on wr ls rs, rightOnly on wl ls rs with
    | .ok a, .ok b => .ok (a ++ b)
    | .error e, _ => .error e
    | _, .error e => .error e

/-! ## set operations (bag semantics for ALL, set semantics otherwise) -/
def memRow (r : Row) (rs : List Row) : Bool := rs.any (rowSame r)

def unionAll (a b : List Row) : List Row := a ++ b
def union (a b : List Row) : List Row := distinct (a ++ b)
def intersect (a b : List Row) : List Row := distinct (a.filter (fun r => memRow r b))
def except (a b : List Row) : List Row := distinct (a.filter (fun r => !memRow r b))

/-! ## queries -/
inductive From where
  | table (name : String)
  | join (k : JoinKind) (l r : From) (on : Expr)
  deriving Repr, Inhabited

structure Table where
  name : String
  ncols : Nat
  rows : List Row
  deriving Repr, Inhabited

abbrev Db := List Table

def Db.find (db : Db) (n : String) : Option Table := List.find? (fun t => t.name == n) db

/-- rows and width of a FROM item -/
def evalFrom (db : Db) : From → Except Err (List Row × Nat)
  | .table n => match db.find n with
    | some t => .ok (t.rows, t.ncols)
    | none => .error .missing
  | .join k l r on =>
    match evalFrom db l, evalFrom db r with
    | .ok (ls, wl), .ok (rs, wr) =>
      match join k on wl wr ls rs with
      | .ok out => .ok (out, wl + wr)
      | .error e => .error e
    | .error e, _ => .error e
    | _, .error e => .error e

/-- a SELECT block.  Without aggregation: items/order keys are over the FROM row.  With
aggregation (`grouped = true`): the group row is `keys ++ aggs`; `having`, `items` and order keys
are over the group row. -/
structure Select where
  frm : From
  whr : Option Expr
  grouped : Bool
  keys : List Expr
  aggs : List Agg
  having : Option Expr
  items : List Expr
  isDistinct : Bool
  order : List OrderKey
  /-- when true the order keys refer to the output row (after projection), else to the input row -/
  orderOnOutput : Bool
  limit : Option Nat
  offset : Nat
  deriving Repr, Inhabited

def optFilter (p : Option Expr) (rows : List Row) : Except Err (List Row) :=
  match p with
  | none => .ok rows
  | some e => filterRows e rows

def groupStage (q : Select) (rows : List Row) : Except Err (List Row) :=
  if q.grouped then
    match aggregate q.keys q.aggs rows with
    | .error e => .error e
    | .ok g => optFilter q.having g
  else .ok rows

def runSelect (db : Db) (q : Select) : Except Err (List Row) :=
  match evalFrom db q.frm with
  | .error e => .error e
  | .ok (rows, _) =>
  match optFilter q.whr rows with
  | .error e => .error e
  | .ok rows =>
  match groupStage q rows with
  | .error e => .error e
  | .ok rows =>
  if q.orderOnOutput then
    match projectRows q.items rows with
    | .error e => .error e
    | .ok out =>
      let out := if q.isDistinct then distinct out else out
      match orderBy q.order out with
      | .error e => .error e
      | .ok s => .ok (limitOffset q.limit q.offset s)
  else
    match orderBy q.order rows with
    | .error e => .error e
    | .ok s =>
      match projectRows q.items s with
      | .error e => .error e
      | .ok out =>
        let out := if q.isDistinct then distinct out else out
        .ok (limitOffset q.limit q.offset out)

inductive SetOp where
  | union | unionAll | intersect | except
  deriving DecidableEq, Repr, Inhabited

inductive Query where
  | sel (s : Select)
  | setop (op : SetOp) (a b : Query)
  deriving Repr, Inhabited

def runQuery (db : Db) : Query → Except Err (List Row)
  | .sel s => runSelect db s
  | .setop op a b =>
    match runQuery db a, runQuery db b with
    | .ok x, .ok y => .ok (match op with
        | .union => union x y
        | .unionAll => unionAll x y
        | .intersect => intersect x y
        | .except => except x y)
    | .error e, _ => .error e
    | _, .error e => .error e

end TurVerif.Sql
