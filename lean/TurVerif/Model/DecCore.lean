/-
Shared vocabulary of the C23 decoder models (guard-structure transcriptions).

A buffer is its length plus a byte-at-index function (`Buf`), so that the compiled driver can
back it with an `Array` (O(1) reads of 16 KiB pages) while theorems quantify over *every*
length and *every* content function.  Every read of the input goes through `rd` / `slice`,
which produce the explicit outcome `oob` when the index or range is outside the buffer: this is
where the Rust code panics ("index out of bounds", "range end index .. out of range",
"slice index starts at ..").  The other ways the Rust code can panic on corrupt data are
explicit outcomes too:
  `arith`   checked arithmetic overflow / underflow (dev profile: `attempt to add with overflow`)
  `expect`  an `unwrap`/`expect` on data-dependent `Err`/`None`
  `fuel`    a loop of the model ran out of fuel (= the Rust loop would not terminate in the
            model's bound; proved unreachable for the loops that are modelled)
`err` is the decoder returning `Err(..)`.
-/
namespace TurVerif.Dec

structure Buf where
  len : Nat
  get : Nat → Nat

def Buf.ofList (l : List Nat) : Buf := ⟨l.length, fun i => l.getD i 0⟩
def Buf.ofArray (a : Array Nat) : Buf := ⟨a.size, fun i => a.getD i 0⟩

inductive Res (α : Type) where
  | ok (a : α)
  | err (e : String)
  | oob
  | arith
  | expect
  | fuel
  deriving Repr, DecidableEq

def Res.bind {α β : Type} (r : Res α) (f : α → Res β) : Res β :=
  match r with
  | .ok a => f a
  | .err e => .err e
  | .oob => .oob
  | .arith => .arith
  | .expect => .expect
  | .fuel => .fuel

def Res.map {α β : Type} (r : Res α) (f : α → β) : Res β := r.bind fun a => .ok (f a)

/-- the outcome is one of the panic / non-termination classes -/
def Res.panics {α : Type} : Res α → Bool
  | .ok _ => false
  | .err _ => false
  | _ => true

/-- `.unwrap()` / `.expect(..)` on a `Result`: `Err` becomes a panic -/
def Res.unwrap {α : Type} : Res α → Res α
  | .err _ => .expect
  | r => r

/-- `data[i]` -/
def rd (b : Buf) (i : Nat) : Res Nat := if i < b.len then .ok (b.get i) else .oob

/-- the `n` bytes starting at `s` (unchecked; only used under a `slice` guard) -/
def bytes (b : Buf) (s n : Nat) : List Nat := (List.range n).map fun k => b.get (s + k)

/-- `&data[s..e]`: panics when `s > e` or `e > len` -/
def slice (b : Buf) (s e : Nat) : Res (List Nat) :=
  if s ≤ e ∧ e ≤ b.len then .ok (bytes b s (e - s)) else .oob

/-- `&data[s..e]` kept as a buffer (for code that indexes into the sub-slice) -/
def sliceB (b : Buf) (s e : Nat) : Res Buf :=
  if s ≤ e ∧ e ≤ b.len then .ok ⟨e - s, fun i => b.get (s + i)⟩ else .oob

/-- `&data[s..]` -/
def sliceFromB (b : Buf) (s : Nat) : Res Buf :=
  if s ≤ b.len then .ok ⟨b.len - s, fun i => b.get (s + i)⟩ else .oob

/-- `ensure!(c, msg)` -/
def ensure (c : Bool) (e : String) : Res Unit := if c then .ok () else .err e

/-- checked `a + b` on a 64-bit `usize` (dev profile) -/
def addUsize (a b : Nat) : Res Nat := if a + b < 18446744073709551616 then .ok (a + b) else .arith

/-- checked `a - b` on an unsigned integer (dev profile) -/
def subChecked (a b : Nat) : Res Nat := if b ≤ a then .ok (a - b) else .arith

/-- little-endian value of a byte list (Horner) -/
def le : List Nat → Nat
  | [] => 0
  | x :: xs => x + 256 * le xs

/-- `u16::from_le_bytes([data[i], data[i+1]])` with checked reads -/
def rd16 (b : Buf) (i : Nat) : Res Nat :=
  (rd b i).bind fun x => (rd b (i + 1)).bind fun y => .ok (x + 256 * y)

/-- four checked reads, little endian -/
def rd32 (b : Buf) (i : Nat) : Res Nat :=
  (rd b i).bind fun x0 => (rd b (i + 1)).bind fun x1 => (rd b (i + 2)).bind fun x2 =>
  (rd b (i + 3)).bind fun x3 => .ok (x0 + 256 * (x1 + 256 * (x2 + 256 * x3)))

/-- eight checked reads, little endian -/
def rd64 (b : Buf) (i : Nat) : Res Nat :=
  (rd32 b i).bind fun lo => (rd32 b (i + 4)).bind fun hi => .ok (lo + 4294967296 * hi)

/-- `<[u8] as Ord>::lt` -/
def ltBytes : List Nat → List Nat → Bool
  | [], [] => false
  | [], _ :: _ => true
  | _ :: _, [] => false
  | a :: as, b :: bs => if a < b then true else if b < a then false else ltBytes as bs

end TurVerif.Dec
