import TurVerif.Model.SqlDb
/-
M-code: the storage-level mechanics of the engine's DML paths that the properties C05/C06 are
about, transcribed from
  src/database/dml/insert.rs  execute_insert_internal   (per-row validate-then-write loop; the
                                                          header row_count is written once, after
                                                          the loop, only when the loop completes)
  src/database/dml/delete.rs  execute_delete            (collect matching rows, overwrite each with
                                                          a tombstone, header row_count -= n,
                                                          saturating)
  src/database/database.rs    is_simple_count_star      (COUNT(*) answered from the header)
A table is a list of slots in key order (row keys are a monotonically increasing counter, so new
rows go to the end); a slot is live or a tombstone.  Scans (`visible`) skip tombstones.
Imports only the core-only reference model (for `Row`).
-/
namespace TurVerif.SqlDml
open TurVerif.Sql TurVerif.SqlDb

structure Slot where
  row : Row
  dead : Bool := false
  deriving Repr, Inhabited, DecidableEq

structure TStore where
  slots : List Slot := []
  /-- `TableFileHeader.row_count`: what `SELECT COUNT(*) FROM t` returns -/
  rowCount : Nat := 0
  deriving Repr, Inhabited, DecidableEq

/-- what a table scan returns: the live rows in key order -/
def visible (st : TStore) : List Row := (st.slots.filter (fun s => !s.dead)).map (·.row)

/-- the header-based COUNT(*) fast path -/
def countStar (st : TStore) : Nat := st.rowCount

def push (st : TStore) (r : Row) : TStore := { st with slots := st.slots ++ [{ row := r }] }

theorem visible_push (st : TStore) (r : Row) : visible (push st r) = visible st ++ [r] := by
  simp [visible, push, List.filter_append]

/-- The INSERT loop.  `ok vis r` is the per-row validation (NOT NULL, CHECK, unique-index lookups)
evaluated against what is stored at that moment – including the rows of the same statement that
were already written.  Row i failing returns `some i` immediately: rows 0..i-1 stay in the B-tree
and the header count is not touched.  When every row passes, the header count is raised by the
number of rows. -/
def insertLoop (ok : List Row → Row → Bool) (st : TStore) (rows : List Row) : TStore × Option Nat :=
  go st.rowCount st 0 rows
where
  go (hdr : Nat) (cur : TStore) (i : Nat) : List Row → TStore × Option Nat
    | [] => ({ cur with rowCount := hdr + i }, none)
    | r :: rest =>
      if ok (visible cur) r then go hdr (push cur r) (i + 1) rest
      else (cur, some i)

/-- DELETE (`execute_delete`): the statement walks the B-tree with a raw cursor and evaluates the
predicate on every record – it does NOT look at the tombstone flag.  Every slot (live or already
deleted) whose row satisfies `p` is selected, (re)written as a tombstone, counted in
`rows_affected`, and the header count is decreased by that number (saturating). -/
def deleteWhere (p : Row → Bool) (st : TStore) : TStore × Nat :=
  let n := (st.slots.filter (fun s => p s.row)).length
  ({ slots := st.slots.map (fun s => if p s.row then { s with dead := true } else s),
     rowCount := st.rowCount - n }, n)

/-- UPDATE (`execute_update`, multipass path): same raw walk; every slot whose row satisfies `p`
is rewritten in place with a *fresh live* record header (`wrap_record_for_update`), so a matching
tombstone comes back to life.  The header count is not touched. -/
def updateWhere (p : Row → Bool) (f : Row → Row) (st : TStore) : TStore × Nat :=
  let n := (st.slots.filter (fun s => p s.row)).length
  ({ st with slots := st.slots.map (fun s => if p s.row then { row := f s.row, dead := false } else s) }, n)

/-- TRUNCATE (`execute_truncate`): physically deletes every key, header count := 0; reports the
number of keys (tombstones included) -/
def truncate (st : TStore) : TStore × Nat := ({}, st.slots.length)

/-- the abstraction invariant the COUNT(*) fast path relies on -/
def countOk (st : TStore) : Prop := st.rowCount = (visible st).length

instance (st : TStore) : Decidable (countOk st) := inferInstanceAs (Decidable (_ = _))

/-! ### the statements of the engine over a store, driven by the spec's expression semantics

These glue the storage mechanics above to the statement forms (`TurVerif.SqlDb.Stmt`) so that the
driver can run the M-code in lock-step with the engine.  Expression evaluation, DEFAULT/AUTO_INCREMENT
filling and the per-row constraint predicates are shared with the spec. -/

/-- the row selection of UPDATE/DELETE as a Bool: the predicate evaluates to TRUE -/
def sel (whr : Option Expr) (r : Row) : Bool :=
  match optKeeps whr r with
  | .ok true => true
  | _ => false

/-- the post-image of one row (identity when an assignment fails to evaluate) -/
def upd (sets : List (Nat × Expr)) (r : Row) : Row :=
  match updateRow sets r with
  | .ok r' => r'
  | .error _ => r


mutual
/-- does the expression mention a column?  (`expr_contains_column_ref` of update.rs) -/
def hasCol : Expr → Bool
  | .lit _ => false
  | .col _ => true
  | .neg e => hasCol e
  | .not e => hasCol e
  | .bin _ a b => hasCol a || hasCol b
  | .isNull e _ => hasCol e
  | .inList e l _ => hasCol e || hasColList l
  | .between e lo hi _ => hasCol e || hasCol lo || hasCol hi
  | .like e p _ => hasCol e || hasCol p
  | .coalesce l => hasColList l
  | .caseWhen ws els => hasColCases ws || hasCol els
def hasColList : List Expr → Bool
  | [] => false
  | e :: es => hasCol e || hasColList es
def hasColCases : List (Expr × Expr) → Bool
  | [] => false
  | (c, v) :: rest => hasCol c || hasCol v || hasColCases rest
end

/-- `ConstraintValidator::apply_defaults`: EVERY NULL in a column that has a DEFAULT is replaced,
whether the column was omitted or an explicit NULL was given -/
def applyDefaults (t : TableSt) (r : Row) : Row :=
  (r.zip t.cols).map (fun (vc : Val × ColDef) => if vc.1.isNull && !vc.2.dflt.isNull then vc.2.dflt else vc.1)

/-- assignment evaluation order of `execute_update`: assignments without a column reference are
pre-computed and stored into the row first; the remaining ones are then all evaluated on that
partially updated row, and stored -/
def updE (sets : List (Nat × Expr)) (r : Row) : Except Err Row :=
  let consts := sets.filter (fun s => !hasCol s.2)
  let defer := sets.filter (fun s => hasCol s.2)
  match evalList r (consts.map (·.2)) with
  | .error e => .error e
  | .ok cv =>
    let r1 := ((consts.map (·.1)).zip cv).foldl (fun acc iv => setAt acc iv.1 iv.2) r
    match evalList r1 (defer.map (·.2)) with
    | .error e => .error e
    | .ok dv => .ok (((defer.map (·.1)).zip dv).foldl (fun acc iv => setAt acc iv.1 iv.2) r1)

/-- the engine's post-image of one row (identity when an assignment fails to evaluate) -/
def updM (sets : List (Nat × Expr)) (r : Row) : Row :=
  match updE sets r with
  | .ok r' => r'
  | .error _ => r

/-- NOT NULL and CHECK on one row -/
def rowLocalOk (t : TableSt) (r : Row) : Bool :=
  notNullOk t r && (match checkOk t r with | .ok b => b | .error _ => false)

/-- per-row validation of INSERT: row-local constraints, then one unique-index lookup per
unique key; the indexes hold the keys of the live rows (deleted rows' entries are removed) -/
def rowOk (t : TableSt) (vis : List Row) (r : Row) : Bool :=
  rowLocalOk t r &&
  (uniqueSets t).all (fun ix =>
    keyHasNull (keyOf r ix) || vis.all (fun r' => !(rowSame (keyOf r ix) (keyOf r' ix))))

inductive MRes where
  | ok (affected : Nat) (deadSelected : Nat)
  | err (row : Nat)
  | evalErr
  deriving Repr, Inhabited, DecidableEq

def deadSel (p : Row → Bool) (st : TStore) : Nat := (st.slots.filter (fun s => s.dead && p s.row)).length

/-- INSERT: expressions of all rows are evaluated first (an error there has no effect), then the
per-row loop runs -/
def mInsert (t : TableSt) (cols : List Nat) (rows : List (List Expr)) (st : TStore) : TStore × MRes :=
  match buildInsertRows t cols rows t.nextAuto with
  | .error _ => (st, .evalErr)
  | .ok (newRows0, _) =>
    let newRows := newRows0.map (applyDefaults t)
    match insertLoop (rowOk t) st newRows with
    | (st', none) => (st', .ok newRows.length 0)
    | (st', some k) => (st', .err k)

/-- the primary-key point path of `execute_delete` / `execute_update`: a WHERE clause of the exact
shape `pk = literal` (either side) is answered through the PK index.  The index holds the keys of
the live rows; when it has the key, only the record it points to is visited. -/
def pkPoint (t : TableSt) : Option Expr → Option (Nat × Val)
  | some (.bin .eq (.col i) (.lit v)) =>
    if ((t.cols[i]?).map (·.pk)).getD false && !v.isNull then some (i, v) else none
  | some (.bin .eq (.lit v) (.col i)) =>
    if ((t.cols[i]?).map (·.pk)).getD false && !v.isNull then some (i, v) else none
  | _ => none

/-- the slot the PK index points to -/
def pkSlot (t : TableSt) (whr : Option Expr) (st : TStore) : Option Nat :=
  match pkPoint t whr with
  | none => none
  | some (i, v) => st.slots.findIdx? (fun s => !s.dead && Val.same (s.row.getD i .null) v)

def deleteAt (k : Nat) (st : TStore) : TStore × Nat :=
  ({ slots := st.slots.modify k (fun s => { s with dead := true }), rowCount := st.rowCount - 1 }, 1)

def updateAt (k : Nat) (f : Row → Row) (st : TStore) : TStore × Nat :=
  ({ st with slots := st.slots.modify k (fun s => { row := f s.row, dead := false }) }, 1)

/-- tombstones the statement's row selection reaches -/
def deadReached (t : TableSt) (whr : Option Expr) (st : TStore) : Nat :=
  match pkSlot t whr st with
  | some _ => 0
  | none => deadSel (sel whr) st

def mDelete (t : TableSt) (whr : Option Expr) (st : TStore) : TStore × MRes :=
  match pkSlot t whr st with
  | some k => let r := deleteAt k st; (r.1, .ok r.2 0)
  | none =>
    let r := deleteWhere (sel whr) st
    (r.1, .ok r.2 (deadSel (sel whr) st))

/-- UPDATE (multipass path): pass 1 walks the tree, computes and validates (NOT NULL, CHECK) the
new image of every selected record; pass 2 looks up every new non-NULL value of a *modified*
unique column in its index and fails when the entry belongs to another record; only then are
records written.  A failure in pass 1 or 2 therefore has no effect. -/
def mUpdate (t : TableSt) (sets : List (Nat × Expr)) (whr : Option Expr) (st : TStore) : TStore × MRes :=
  let p := sel whr
  let point := pkSlot t whr st
  let selected : List (Slot × Nat) := match point with
    | some k => (st.slots.zipIdx).filter (fun (x : Slot × Nat) => x.2 == k)
    | none => (st.slots.zipIdx).filter (fun (x : Slot × Nat) => p x.1.row)
  if selected.any (fun x => match updE sets x.1.row with | .ok _ => false | .error _ => true) then
    (st, .evalErr)
  else if selected.any (fun x => !(rowLocalOk t (updM sets x.1.row))) then (st, .err 0)
  else
    let modified := sets.map (·.1)
    let ucols := (uniqueSets t).filter (fun ix => match ix with | [c] => modified.contains c | _ => false)
    let clash := ucols.any (fun ix => selected.any (fun x =>
      let k := keyOf (updM sets x.1.row) ix
      !keyHasNull k && (st.slots.zipIdx).any (fun y => y.2 != x.2 && !y.1.dead && rowSame k (keyOf y.1.row ix))))
    if clash then (st, .err 1)
    else
      match point with
      | some k => let r := updateAt k (updM sets) st; (r.1, .ok r.2 0)
      | none =>
        let r := updateWhere p (updM sets) st
        (r.1, .ok r.2 (deadSel p st))

def mTruncate (st : TStore) : TStore × MRes :=
  let r := truncate st
  (r.1, .ok r.2 (st.slots.filter (·.dead)).length)

end TurVerif.SqlDml
