/-!
Catalog persistence (C40).  Import-free transcription of src/schema/persistence.rs:
`CatalogPersistence::serialize / deserialize` (same field order, widths, flag bytes, the same lenient
end-of-buffer cases) and the `save` / `load` file protocol (128-byte header, in-place rewrite).

Names, defaults and CHECK expressions are byte strings (UTF-8 validation of the Rust code is not
modelled: every byte string counts as valid).  Referential actions are their wire codes 0..5
(0 = none).  The data type is its wire byte.
-/
namespace TurVerif.Catalog

abbrev Bytes := List Nat

/-- little-endian, `w` bytes -/
def le (n : Nat) : Nat → Bytes
  | 0 => []
  | w + 1 => n % 256 :: le (n / 256) w

def leVal : Bytes → Nat
  | [] => 0
  | x :: xs => x + 256 * leVal xs

def encStr (s : Bytes) : Bytes := le s.length 2 ++ s

inductive Constraint
  | notNull
  | primaryKey
  | unique
  | foreignKey (table column : Bytes) (onDelete onUpdate : Nat)
  | check (expr : Bytes)
  | autoIncrement
  deriving DecidableEq, Repr

structure Column where
  name : Bytes
  dataType : Nat
  constraints : List Constraint
  dflt : Option Bytes
  maxLen : Option Nat
  deriving DecidableEq, Repr

/-- `IndexColumnDef`: a plain column (`name` = column name) or an expression (`name` = its text) -/
structure IndexCol where
  name : Bytes
  isExpr : Bool := false
  desc : Bool
  deriving DecidableEq, Repr

structure Index where
  name : Bytes
  cols : List IndexCol
  unique : Bool
  hnsw : Bool
  /-- partial-index predicate (`IndexDef.where_clause`); the format has no field for it -/
  whereClause : Option Bytes := none
  deriving DecidableEq, Repr

structure Table where
  id : Nat
  name : Bytes
  columns : List Column
  pk : Option (List Bytes)
  indexes : List Index
  toast : Option Nat
  deriving DecidableEq, Repr

structure Schema where
  id : Nat
  name : Bytes
  tables : List Table
  deriving DecidableEq, Repr

/-! ### serialize -/

def flag (b : Bool) : Nat := if b then 1 else 0

def encConstraint : Constraint → Bytes
  | .notNull => [0]
  | .primaryKey => [1]
  | .unique => [2]
  | .foreignKey t c od ou => [3] ++ encStr t ++ encStr c ++ [od, ou]
  | .check e => [4] ++ encStr e
  | .autoIncrement => [5]

def encColumn (c : Column) : Bytes :=
  encStr c.name ++ [c.dataType] ++ le c.constraints.length 2 ++ c.constraints.flatMap encConstraint ++
  (match c.dflt with | some d => [1] ++ encStr d | none => [0]) ++
  (match c.maxLen with | some m => [1] ++ le m 4 | none => [0])

/-- `col_def.as_column().unwrap_or("")`: an expression column is written as the empty name -/
def encIndexCol (c : IndexCol) : Bytes := encStr (if c.isExpr then [] else c.name) ++ [flag c.desc]

def encIndex (i : Index) : Bytes :=
  encStr i.name ++ le i.cols.length 2 ++ i.cols.flatMap encIndexCol ++ [flag i.unique] ++ [flag i.hnsw]

def encTable (t : Table) : Bytes :=
  le t.id 8 ++ encStr t.name ++ le t.columns.length 4 ++ t.columns.flatMap encColumn ++
  (match t.pk with | some l => [1] ++ le l.length 2 ++ l.flatMap encStr | none => [0]) ++
  le t.indexes.length 4 ++ t.indexes.flatMap encIndex ++
  (match t.toast with | some x => [1] ++ le x 8 | none => [0])

def encSchema (s : Schema) : Bytes :=
  le s.id 4 ++ encStr s.name ++ le s.tables.length 4 ++ s.tables.flatMap encTable

def serialize (c : List Schema) : Bytes := c.flatMap encSchema

/-! ### deserialize: parsers return the value and the rest of the buffer; `none` = the Rust `bail!/ensure!` -/

def rdN (n : Nat) (b : Bytes) : Option (Bytes × Bytes) :=
  if n ≤ b.length then some (b.take n, b.drop n) else none

def rdLe (w : Nat) (b : Bytes) : Option (Nat × Bytes) :=
  match rdN w b with
  | some (x, r) => some (leVal x, r)
  | none => none

def rdByte : Bytes → Option (Nat × Bytes)
  | [] => none
  | x :: r => some (x, r)

def rdStr (b : Bytes) : Option (Bytes × Bytes) :=
  match rdLe 2 b with
  | some (n, r) => rdN n r
  | none => none

def rdMany {α : Type} (rd : Bytes → Option (α × Bytes)) : Nat → Bytes → Option (List α × Bytes)
  | 0, b => some ([], b)
  | n + 1, b =>
    match rd b with
    | none => none
    | some (x, r) =>
      match rdMany rd n r with
      | none => none
      | some (xs, r') => some (x :: xs, r')

/-- `decode_referential_action`: unknown codes become "none" -/
def decAction (b : Nat) : Nat := if b ≤ 5 then b else 0

def validType (t : Nat) : Bool :=
  t ≤ 13 || (20 ≤ t && t ≤ 25) || t == 30 || t == 31 || (40 ≤ t && t ≤ 43) || t == 50 ||
  (60 ≤ t && t ≤ 62) || t == 70 || t == 71

def rdConstraint (b : Bytes) : Option (Constraint × Bytes) :=
  match rdByte b with
  | none => none
  | some (tag, r) =>
    if tag = 0 then some (.notNull, r)
    else if tag = 1 then some (.primaryKey, r)
    else if tag = 2 then some (.unique, r)
    else if tag = 3 then
      match rdStr r with
      | none => none
      | some (t, r1) =>
        match rdStr r1 with
        | none => none
        | some (c, r2) =>
          match r2 with
          | od :: ou :: r3 => some (.foreignKey t c (decAction od) (decAction ou), r3)
          | _ => some (.foreignKey t c 0 0, r2)
    else if tag = 4 then
      match rdStr r with
      | none => none
      | some (e, r1) => some (.check e, r1)
    else if tag = 5 then some (.autoIncrement, r)
    else none

def rdColumn (b : Bytes) : Option (Column × Bytes) :=
  match rdStr b with
  | none => none
  | some (name, r) =>
    match rdByte r with
    | none => none
    | some (ty, r1) =>
      if !validType ty then none else
      match rdLe 2 r1 with
      | none => none
      | some (n, r2) =>
        match rdMany rdConstraint n r2 with
        | none => none
        | some (cs, r3) =>
          match rdByte r3 with
          | none => none
          | some (hasD, r4) =>
            let dres : Option (Option Bytes × Bytes) :=
              if hasD ≠ 0 then
                match rdStr r4 with
                | none => none
                | some (d, r5) => some (some d, r5)
              else some (none, r4)
            match dres with
            | none => none
            | some (d, r5) =>
              match r5 with
              | [] => some ({ name := name, dataType := ty, constraints := cs, dflt := d, maxLen := none }, [])
              | hasM :: r6 =>
                if hasM ≠ 0 then
                  match rdLe 4 r6 with
                  | none => none
                  | some (m, r7) => some ({ name := name, dataType := ty, constraints := cs, dflt := d, maxLen := some m }, r7)
                else some ({ name := name, dataType := ty, constraints := cs, dflt := d, maxLen := none }, r6)

def rdIndexCol (b : Bytes) : Option (IndexCol × Bytes) :=
  match rdStr b with
  | none => none
  | some (name, r) =>
    match rdByte r with
    | none => none
    | some (d, r1) => some ({ name := name, isExpr := false, desc := d == 1 }, r1)

def rdIndex (b : Bytes) : Option (Index × Bytes) :=
  match rdStr b with
  | none => none
  | some (name, r) =>
    match rdLe 2 r with
    | none => none
    | some (n, r1) =>
      match rdMany rdIndexCol n r1 with
      | none => none
      | some (cols, r2) =>
        match rdByte r2 with
        | none => none
        | some (u, r3) =>
          match rdByte r3 with
          | none => none
          | some (t, r4) =>
            if t = 0 then some ({ name := name, cols := cols, unique := u != 0, hnsw := false }, r4)
            else if t = 1 then some ({ name := name, cols := cols, unique := u != 0, hnsw := true }, r4)
            else none

def rdTable (b : Bytes) : Option (Table × Bytes) :=
  match rdLe 8 b with
  | none => none
  | some (id, r) =>
    match rdStr r with
    | none => none
    | some (name, r1) =>
      match rdLe 4 r1 with
      | none => none
      | some (nc, r2) =>
        match rdMany rdColumn nc r2 with
        | none => none
        | some (cols, r3) =>
          match rdByte r3 with
          | none => none
          | some (hasPk, r4) =>
            let pres : Option (Option (List Bytes) × Bytes) :=
              if hasPk ≠ 0 then
                match rdLe 2 r4 with
                | none => none
                | some (np, r5) =>
                  match rdMany rdStr np r5 with
                  | none => none
                  | some (l, r6) => some (some l, r6)
              else some (none, r4)
            match pres with
            | none => none
            | some (pk, r6) =>
              match rdLe 4 r6 with
              | none => none
              | some (ni, r7) =>
                match rdMany rdIndex ni r7 with
                | none => none
                | some (ixs, r8) =>
                  match r8 with
                  | [] => some ({ id := id, name := name, columns := cols, pk := pk, indexes := ixs, toast := none }, [])
                  | hasT :: r9 =>
                    if hasT ≠ 0 ∧ 8 ≤ r9.length then
                      some ({ id := id, name := name, columns := cols, pk := pk, indexes := ixs,
                              toast := some (leVal (r9.take 8)) }, r9.drop 8)
                    else some ({ id := id, name := name, columns := cols, pk := pk, indexes := ixs, toast := none }, r9)

def rdSchema (b : Bytes) : Option (Schema × Bytes) :=
  match rdLe 4 b with
  | none => none
  | some (id, r) =>
    match rdStr r with
    | none => none
    | some (name, r1) =>
      match rdLe 4 r1 with
      | none => none
      | some (nt, r2) =>
        match rdMany rdTable nt r2 with
        | none => none
        | some (ts, r3) => some ({ id := id, name := name, tables := ts }, r3)

/-- `while pos < bytes.len() { deserialize_schema }` (fuel = buffer length; every schema consumes ≥ 10 bytes) -/
def deserializeAux : Nat → Bytes → Option (List Schema)
  | 0, b => if b.isEmpty then some [] else none
  | fuel + 1, b =>
    if b.isEmpty then some [] else
    match rdSchema b with
    | none => none
    | some (s, r) =>
      match deserializeAux fuel r with
      | none => none
      | some ss => some (s :: ss)

def deserialize (b : Bytes) : Option (List Schema) := deserializeAux b.length b

/-! ### file protocol -/

/-- "TurDB Rust v1\0\0\0" -/
def magic : Bytes := [84, 117, 114, 68, 66, 32, 82, 117, 115, 116, 32, 118, 49, 0, 0, 0]

def zeros : Nat → Bytes
  | 0 => []
  | n + 1 => 0 :: zeros n

/-- the 128-byte header `save` writes (`schemaCount`, `defaultSchemaId` are stored but never read back) -/
def header (schemaCount defaultSchemaId bodyLen : Nat) : Bytes :=
  magic ++ le 1 4 ++ le 16384 4 ++ le schemaCount 8 ++ le defaultSchemaId 8 ++ zeros 24 ++ le 128 8 ++
  le bodyLen 8 ++ zeros 48

def fileOf (c : List Schema) (defaultSchemaId : Nat) : Bytes :=
  header c.length defaultSchemaId (serialize c).length ++ serialize c

/-- `CatalogPersistence::load` on the file content -/
def load (f : Bytes) : Option (List Schema) :=
  if f.length < 128 then none
  else if f.take 16 ≠ magic then none
  else if leVal ((f.drop 16).take 4) ≠ 1 then none
  else if leVal ((f.drop 64).take 8) ≠ 128 then none
  else
    let n := leVal ((f.drop 72).take 8)
    match rdN n (f.drop 128) with
    | none => none
    | some (body, _) => deserialize body

/-- contents of `turdb.catalog` as seen by a crash at each step of the pinned `save`:
before, after `File::create` (truncate), after the header write, after the body write (+sync) -/
def saveStates (old : Bytes) (c : List Schema) (dflt : Nat) : List Bytes :=
  [old, [], header c.length dflt (serialize c).length, fileOf c dflt]

/-- the repaired protocol (fix_catalog_save.patch): write `turdb.catalog.tmp` completely, sync it,
then `rename` over `turdb.catalog` (atomic), then sync the directory.  Contents of `turdb.catalog`
at each step: before, tmp created, tmp header written, tmp body written + synced, renamed. -/
def saveStatesFixed (old : Bytes) (c : List Schema) (dflt : Nat) : List Bytes :=
  [old, old, old, old, fileOf c dflt]

end TurVerif.Catalog
