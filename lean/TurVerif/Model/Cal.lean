/-!
# Cal — calendar / date-time conversion (property C41)

Import-free executable model.

* **M-spec**: the proleptic Gregorian calendar, defined by counting: `daysFromCivil y m d`
  (Rata Die, 0001-01-01 ↦ 1) is the sum of the lengths of all earlier years, all earlier months
  of the year, plus the day of month.  Leap rule `isLeap`.
* **M-code**: transcriptions of every calendar converter in /repo
  - `src/parsing/literal.rs`   : `is_leap_year`, `days_in_month`, `date_to_days_since_epoch` (year
    loop), `parse_date`, `parse_time`, `parse_timestamp`            (prefix `lit`)
  - `src/constraints/mod.rs`   : `days_from_ymd` (JDN formula), `parse_date_default`,
    `parse_time_default`, `parse_timestamp_default`                 (prefix `def`)
  - `src/sql/predicate.rs`     : CAST(text AS DATE/TIME/TIMESTAMP)  (prefix `cast`)
  - `src/sql/functions/datetime.rs`: `date_to_days`, `days_to_date`, `day_of_week`, `day_of_year`,
    `days_in_month`, `parse_date`, `format_unix_timestamp`           (prefix `fn`)
  - `src/cli/table.rs`         : `jdn_to_ymd`, `format_date`, `format_time`, `format_timestamp`
                                                                     (prefix `cli`)

Conventions: Rust `i32`/`i64` are `Int`, `u32` is `Nat`; Rust `/` and `%` on signed integers are
`Int.tdiv` / `Int.tmod` (truncation toward zero).  Integer overflow is NOT modelled: the model is
only claimed faithful where no intermediate overflows (|year| ≤ 100 000 is far inside that
domain for every converter; the property is about years 1..9999).  `x as u32` of a signed value is
`asU32` (wrap modulo 2^32).  Text is a list of bytes (`Nat`); only ASCII text is claimed faithful
(Rust `trim` also strips non-ASCII Unicode white space).
-/
namespace TurVerif.Cal

/-! ## M-spec: the proleptic Gregorian calendar -/

def isLeap (y : Nat) : Bool := (y % 4 == 0 && y % 100 != 0) || y % 400 == 0

def yearLen (y : Nat) : Nat := if isLeap y then 366 else 365

def monthLen (y m : Nat) : Nat :=
  if m = 2 then (if isLeap y then 29 else 28)
  else if m = 4 ∨ m = 6 ∨ m = 9 ∨ m = 11 then 30
  else if 1 ≤ m ∧ m ≤ 12 then 31
  else 0

/-- total length of years 1..n -/
def daysUpToYear : Nat → Nat
  | 0 => 0
  | n + 1 => daysUpToYear n + yearLen (n + 1)

/-- total length of months 1..k of year y -/
def daysUpToMonth (y : Nat) : Nat → Nat
  | 0 => 0
  | k + 1 => daysUpToMonth y k + monthLen y (k + 1)

/-- `y-m-d` is a date of the calendar (year ≥ 1) -/
def validDate (y m d : Nat) : Bool :=
  decide (1 ≤ y) && decide (1 ≤ m) && decide (m ≤ 12) && decide (1 ≤ d) && decide (d ≤ monthLen y m)

/-- Rata Die day number: 0001-01-01 ↦ 1 -/
def daysFromCivil (y m d : Nat) : Nat := daysUpToYear (y - 1) + daysUpToMonth y (m - 1) + d

/-- Rata Die of 1970-01-01 (the Unix epoch) -/
def unixEpochRD : Nat := 719163

/-- 0 = Sunday … 6 = Saturday (0001-01-01, RD 1, is a Monday) -/
def weekdaySpec (y m d : Nat) : Nat := daysFromCivil y m d % 7

/-! ## Rust integer helpers -/

def asU32 (x : Int) : Nat := (x % 4294967296).toNat

/-- `x as i32` for a `u32` value -/
def asI32 (n : Nat) : Int := if n % 4294967296 < 2147483648 then (n % 4294967296 : Nat) else ((n % 4294967296 : Nat) : Int) - 4294967296

/-! ## src/parsing/literal.rs -/

def litIsLeap (y : Int) : Bool :=
  (y.tmod 4 == 0 && y.tmod 100 != 0) || y.tmod 400 == 0

def litDaysInMonth (y : Int) (m : Nat) : Nat :=
  if m = 1 ∨ m = 3 ∨ m = 5 ∨ m = 7 ∨ m = 8 ∨ m = 10 ∨ m = 12 then 31
  else if m = 4 ∨ m = 6 ∨ m = 9 ∨ m = 11 then 30
  else if m = 2 then (if litIsLeap y then 29 else 28)
  else 0

/-- `for y in start..start+n { days += sign * len(y) }` -/
def litYearLoop (sign : Int) : Nat → Int → Int → Int
  | 0, _, acc => acc
  | n + 1, y, acc => litYearLoop sign n (y + 1) (acc + sign * (if litIsLeap y then 366 else 365))

/-- `for m in start..start+n { days += days_in_month(year, m) }` -/
def litMonthLoop (y : Int) : Nat → Nat → Int → Int
  | 0, _, acc => acc
  | n + 1, m, acc => litMonthLoop y n (m + 1) (acc + (litDaysInMonth y m : Nat))

/-- the first (year) loop of `date_to_days_since_epoch` -/
def litYearPart (y : Int) : Int :=
  if y ≥ 1970 then litYearLoop 1 (y - 1970).toNat 1970 0
  else litYearLoop (-1) (1970 - y).toNat y 0

/-- the rest of `date_to_days_since_epoch`, given the value of `days` after the year loop -/
def litDateFrom (days : Int) (y : Int) (m d : Nat) : Int :=
  let days := litMonthLoop y (m - 1) 1 days
  days + ((d : Int) - 1)

/-- `date_to_days_since_epoch` -/
def litDateToDays (y : Int) (m d : Nat) : Int := litDateFrom (litYearPart y) y m d

/-- the two range checks of `parse_date` -/
def litDateOk (y : Int) (m d : Nat) : Bool :=
  decide (1 ≤ m) && decide (m ≤ 12) && decide (1 ≤ d) && decide (d ≤ litDaysInMonth y m)

/-! ### text helpers (bytes) -/

abbrev Text := List Nat

def isWs (b : Nat) : Bool := b = 32 || (9 ≤ b && b ≤ 13)

def trimStart : Text → Text
  | [] => []
  | b :: bs => if isWs b then trimStart bs else b :: bs

def trim (s : Text) : Text := (trimStart (trimStart s).reverse).reverse

/-- `str::split(sep)` for a one-byte separator -/
def splitOn (sep : Nat) : Text → Text → List Text
  | [], cur => [cur.reverse]
  | b :: bs, cur => if b = sep then cur.reverse :: splitOn sep bs [] else splitOn sep bs (b :: cur)

def isDigit (b : Nat) : Bool := 48 ≤ b && b ≤ 57

/-- value of a digit string (`none` if a non-digit occurs) -/
def digitsVal : Text → Nat → Option Nat
  | [], acc => some acc
  | b :: bs, acc => if isDigit b then digitsVal bs (acc * 10 + (b - 48)) else none

/-- Rust `str::parse` for an unsigned integer type with `bound = MAX+1`: optional `+`, at least one
digit, no overflow -/
def parseU (bound : Nat) (s : Text) : Option Nat :=
  let body := if s.head? = some 43 then s.tail else s
  if body.isEmpty then none
  else match digitsVal body 0 with
    | some v => if v < bound then some v else none
    | none => none

/-- Rust `str::parse` for a signed integer type with range `[-bound, bound)` -/
def parseI (bound : Nat) (s : Text) : Option Int :=
  if s.head? = some 45 then
    let r := s.tail
    if r.isEmpty then none
    else match digitsVal r 0 with
      | some v => if v ≤ bound then some (-(v : Int)) else none
      | none => none
  else (parseU bound s).map Int.ofNat

def u32Bound : Nat := 4294967296
def i32Bound : Nat := 2147483648
def i64Bound : Nat := 9223372036854775808

/-- decimal digits of `n`, least significant first (fuel = max number of digits) -/
def decRev : Nat → Nat → Text
  | 0, _ => []
  | f + 1, n => (48 + n % 10) :: (if n / 10 = 0 then [] else decRev f (n / 10))

def dec (n : Nat) : Text := (decRev 20 n).reverse

/-- `format!("{:0w$}", n)` for unsigned `n` -/
def padNat (w n : Nat) : Text :=
  let ds := dec n
  List.replicate (w - ds.length) 48 ++ ds

/-- `format!("{:0w$}", n)` for signed `n` (the sign counts toward the width) -/
def padInt (w : Nat) (n : Int) : Text :=
  if n < 0 then 45 :: padNat (w - 1) n.natAbs else padNat w n.toNat

/-- first index of byte `c` -/
def findByte (c : Nat) : Text → Nat → Option Nat
  | [], _ => none
  | b :: bs, i => if b = c then some i else findByte c bs (i + 1)

/-- `format!("{:0<6}", s)`: pad with '0' on the right up to 6 characters -/
def padRight6 (s : Text) : Text := s ++ List.replicate (6 - s.length) 48

/-! ### `parse_date`, `parse_time`, `parse_timestamp` of literal.rs -/

def litParseDate (s : Text) : Option Int :=
  match splitOn 45 (trim s) [] with
  | [ys, ms, ds] =>
    match parseI i32Bound ys with
    | none => none
    | some y =>
      match parseU u32Bound ms with
      | none => none
      | some m =>
        match parseU u32Bound ds with
        | none => none
        | some d => if litDateOk y m d then some (litDateToDays y m d) else none
  | _ => none

def litParseTime (s0 : Text) : Option Int :=
  let s := trim s0
  let (timePart, frac) : Text × Option Text :=
    match findByte 46 s 0 with
    | some i => (s.take i, some (s.drop (i + 1)))
    | none => (s, none)
  match splitOn 58 timePart [] with
  | [hs, ms, ss] =>
    match parseU u32Bound hs with
    | none => none
    | some h =>
      match parseU u32Bound ms with
      | none => none
      | some mi =>
        match parseU u32Bound ss with
        | none => none
        | some sec =>
          if h > 23 then none
          else if mi > 59 then none
          else if sec > 59 then none
          else
            let base : Int := ((h : Int) * 3600 + (mi : Int) * 60 + (sec : Int)) * 1000000
            match frac with
            | none => some base
            | some f =>
              match parseI i64Bound ((padRight6 f).take 6) with
              | some v => some (base + v)
              | none => none
  | _ => none

def microsPerDay : Int := 86400 * 1000000

def litParseTimestamp (s0 : Text) : Option Int :=
  let s := trim s0
  let idx := match findByte 84 s 0 with
    | some i => some i
    | none => findByte 32 s 0
  match idx with
  | none => none
  | some i =>
    match litParseDate (s.take i) with
    | none => none
    | some days =>
      match litParseTime (s.drop (i + 1)) with
      | none => none
      | some t => some (days * microsPerDay + t)

/-! ## src/constraints/mod.rs (DEFAULT values) and src/sql/predicate.rs (CAST): the JDN formula -/

/-- `days_from_ymd`; the same expression is inlined in predicate.rs `parse_date` -/
def defDaysFromYmd (year : Int) (month day : Nat) : Int :=
  let a := (14 - asI32 month).tdiv 12
  let y := year + 4800 - a
  let m := asI32 month + 12 * a - 3
  let jdn := asI32 day + (153 * m + 2).tdiv 5 + 365 * y + y.tdiv 4 - y.tdiv 100 + y.tdiv 400 - 32045
  jdn - 2440588

/-- `parse_date_default` on a literal (not CURRENT_DATE): NO trimming, NO range validation.
`none` = the function returns `OwnedValue::Null`. -/
def defParseDate (s : Text) : Option Int :=
  match splitOn 45 s [] with
  | [ys, ms, ds] =>
    match parseI i32Bound ys, parseU u32Bound ms, parseU u32Bound ds with
    | some y, some m, some d => some (defDaysFromYmd y m d)
    | _, _, _ => none
  | _ => none

/-- `parse_time_default` on a literal -/
def defParseTime (s : Text) : Option Int :=
  match splitOn 58 s [] with
  | hs :: ms :: rest =>
    match parseI i64Bound hs, parseI i64Bound ms with
    | some h, some mi =>
      let (sec, frac) : Int × Int :=
        match rest with
        | [] => (0, 0)
        | p2 :: _ =>
          match splitOn 46 p2 [] with
          | [] => (0, 0)
          | [a] => ((parseI i64Bound a).getD 0, 0)
          | a :: f :: _ =>
            ((parseI i64Bound a).getD 0, (parseI i64Bound ((padRight6 f).take 6)).getD 0)
      some (h * 3600000000 + mi * 60000000 + sec * 1000000 + frac)
    | _, _ => none
  | _ => none

/-- `split(&[' ', 'T'][..])` -/
def splitOn2 (s1 s2 : Nat) : Text → Text → List Text
  | [], cur => [cur.reverse]
  | b :: bs, cur =>
    if b = s1 ∨ b = s2 then cur.reverse :: splitOn2 s1 s2 bs [] else splitOn2 s1 s2 bs (b :: cur)

/-- `parse_timestamp_default` on a literal -/
def defParseTimestamp (s : Text) : Option Int :=
  match splitOn2 32 84 s [] with
  | [] => none
  | dp :: rest =>
    match defParseDate dp with
    | none => none
    | some days =>
      let t : Int := match rest with
        | [] => 0
        | tp :: _ => (defParseTime tp).getD 0
      some (days * 86400000000 + t)

/-- predicate.rs `parse_date` (CAST(text AS DATE)): validation of literal.rs + JDN formula -/
def castParseDate (s : Text) : Option Int :=
  match splitOn 45 (trim s) [] with
  | [ys, ms, ds] =>
    match parseI i32Bound ys, parseU u32Bound ms, parseU u32Bound ds with
    | some y, some m, some d =>
      if litDateOk y m d then some (defDaysFromYmd y m d) else none
    | _, _, _ => none
  | _ => none

/-- predicate.rs `parse_time` (CAST(text AS TIME)) -/
def castParseTime (s : Text) : Option Int :=
  let parts := splitOn 58 (trim s) []
  match parts with
  | hs :: ms :: rest =>
    if rest.length > 1 then none
    else
      match parseU u32Bound hs, parseU u32Bound ms with
      | some h, some mi =>
        if h > 23 ∨ mi > 59 then none
        else
          let fin (sec : Nat) (frac : Int) : Option Int :=
            some (((h : Int) * 3600 + (mi : Int) * 60 + (sec : Int)) * 1000000 + frac)
          match rest with
          | [] => fin 0 0
          | p2 :: _ =>
            match splitOn 46 p2 [] with
            | [] => none
            | a :: more =>
              match parseU u32Bound a with
              | none => none
              | some sec =>
                if sec > 59 then none
                else
                  match more with
                  | [] => fin sec 0
                  | f :: _ => fin sec ((parseI i64Bound (padRight6 (f.take 6))).getD 0)
      | _, _ => none
  | _ => none

/-- `splitn(2, [' ', 'T'])` -/
def splitn2 (s1 s2 : Nat) : Text → Text → List Text
  | [], cur => [cur.reverse]
  | b :: bs, cur => if b = s1 ∨ b = s2 then [cur.reverse, bs] else splitn2 s1 s2 bs (b :: cur)

/-- predicate.rs `parse_timestamp` (CAST(text AS TIMESTAMP)) -/
def castParseTimestamp (s : Text) : Option Int :=
  match splitn2 32 84 (trim s) [] with
  | [dp] => (castParseDate dp).map (fun d => d * 86400 * 1000000)
  | [dp, tp] =>
    match castParseDate dp, castParseTime tp with
    | some d, some t => some (d * 86400 * 1000000 + t)
    | _, _ => none
  | _ => none

/-! ## src/sql/functions/datetime.rs -/

def fnIsLeap (y : Int) : Bool := (y.tmod 4 == 0 && y.tmod 100 != 0) || y.tmod 400 == 0

def fnDaysInMonth (y : Int) (m : Nat) : Nat :=
  if m = 1 ∨ m = 3 ∨ m = 5 ∨ m = 7 ∨ m = 8 ∨ m = 10 ∨ m = 12 then 31
  else if m = 4 ∨ m = 6 ∨ m = 9 ∨ m = 11 then 30
  else if m = 2 then (if fnIsLeap y then 29 else 28)
  else 30

/-- `date_to_days` -/
def fnDateToDays (year : Int) (month day : Nat) : Int :=
  let y := if month ≤ 2 then year - 1 else year
  let m : Int := if month ≤ 2 then (month : Int) + 12 else month
  365 * y + y.tdiv 4 - y.tdiv 100 + y.tdiv 400 + (153 * (m - 3) + 2).tdiv 5 + (day : Int) - 306

/-- `days_to_date`; results before the `as u32` casts -/
def fnDaysToDateRaw (days : Int) : Int × Int × Int :=
  let z := days + 306
  let h := 100 * z - 25
  let a := h.tdiv 3652425
  let b := a - a.tdiv 4
  let y := (100 * b + h).tdiv 36525
  let c := b + z - 365 * y - y.tdiv 4
  let m := (5 * c + 456).tdiv 153
  let d := c - (153 * m - 457).tdiv 5
  if m > 12 then (y + 1, m - 12, d) else (y, m, d)

/-- `days_to_date` -/
def fnDaysToDate (days : Int) : Int × Nat × Nat :=
  let r := fnDaysToDateRaw days
  (r.1, asU32 r.2.1, asU32 r.2.2)

/-- `day_of_week` (Zeller), before the final `as u32` -/
def fnDayOfWeekRaw (year : Int) (month day : Nat) : Int :=
  let y := if month < 3 then year - 1 else year
  let m : Int := if month < 3 then (month : Int) + 12 else month
  let q : Int := day
  let k := y.tmod 100
  let j := y.tdiv 100
  let h := (q + (13 * (m + 1)).tdiv 5 + k + k.tdiv 4 + j.tdiv 4 - 2 * j).tmod 7
  (h + 6).tmod 7

def fnDayOfWeek (year : Int) (month day : Nat) : Nat := asU32 (fnDayOfWeekRaw year month day)

/-- `day_of_year` -/
def fnDayOfYear (year : Int) (month day : Nat) : Nat :=
  asU32 (fnDateToDays year month day - fnDateToDays year 1 1 + 1)

/-- datetime.rs `parse_date`: first space-separated word, ≥ 3 dash-separated fields, no checks -/
def fnParseDate (s : Text) : Option (Int × Nat × Nat) :=
  match splitOn 32 s [] with
  | [] => none
  | w :: _ =>
    match splitOn 45 w [] with
    | ys :: ms :: ds :: _ =>
      match parseI i64Bound ys, parseU u32Bound ms, parseU u32Bound ds with
      | some y, some m, some d => some (y, m, d)
      | _, _, _ => none
    | _ => none

/-- `format!("{:04}-{:02}-{:02}", y, m, d)` -/
def fmtYmd (y : Int) (m d : Nat) : Text := padInt 4 y ++ [45] ++ padNat 2 m ++ [45] ++ padNat 2 d

/-- FROM_DAYS -/
def fnFromDays (n : Int) : Text :=
  let r := fnDaysToDate n
  fmtYmd r.1 r.2.1 r.2.2

/-- `format_unix_timestamp`'s date part (a variant of Hinnant's civil_from_days — note the code
divides by 1461 and 146097 where the published algorithm has 1460 and 146096), input: days since
1970-01-01.  `doe`, `yoe`, `doy`, `mp` are `u32` in the code; the one subtraction that can
underflow (`doe - (365*yoe + yoe/4 - yoe/100)`) is modelled with its dev-profile outcome:
`none` = panic "attempt to subtract with overflow". -/
def fnCivilFromUnixDays (days0 : Int) : Option (Int × Nat × Nat) :=
  let days := days0 + 719468
  let era := if days ≥ 0 then days.tdiv 146097 else (days - 146096).tdiv 146097
  let doe : Nat := asU32 (days - era * 146097)
  let yoe : Nat := (doe - doe / 1461 + doe / 36524 - doe / 146097) / 365
  let y : Int := (yoe : Int) + era * 400
  let sub : Nat := 365 * yoe + yoe / 4 - yoe / 100
  if doe < sub then none
  else
    let doy : Nat := doe - sub
    let mp : Nat := (5 * doy + 2) / 153
    let d : Nat := doy - (153 * mp + 2) / 5 + 1
    let m : Nat := if mp < 10 then mp + 3 else mp - 9
    let y := if m ≤ 2 then y + 1 else y
    some (y, m, d)

/-- `format_unix_timestamp` (`none` = the panic above) -/
def fnFormatUnixTimestamp (secs : Int) : Option Text :=
  let days := secs.tdiv 86400
  let daySecs := secs.tmod 86400
  let hours := daySecs.tdiv 3600
  let minutes := (daySecs.tmod 3600).tdiv 60
  let seconds := daySecs.tmod 60
  match fnCivilFromUnixDays days with
  | none => none
  | some r =>
    some (fmtYmd r.1 r.2.1 r.2.2 ++ [32] ++ padInt 2 hours ++ [58] ++ padInt 2 minutes ++ [58] ++
      padInt 2 seconds)

/-! ## src/cli/table.rs (rendering) -/

/-- `jdn_to_ymd`, before the `as u32` casts -/
def cliJdnToYmdRaw (jdn : Int) : Int × Int × Int :=
  let a := jdn + 32044
  let b := (4 * a + 3).tdiv 146097
  let c := a - (146097 * b).tdiv 4
  let d := (4 * c + 3).tdiv 1461
  let e := c - (1461 * d).tdiv 4
  let m := (5 * e + 2).tdiv 153
  let day := e - (153 * m + 2).tdiv 5 + 1
  let month := m + 3 - 12 * m.tdiv 10
  let year := 100 * b + d - 4800 + m.tdiv 10
  (year, month, day)

def cliJdnToYmd (jdn : Int) : Int × Nat × Nat :=
  let r := cliJdnToYmdRaw jdn
  (r.1, asU32 r.2.1, asU32 r.2.2)

/-- `format_date` -/
def cliFormatDate (days : Int) : Text :=
  let r := cliJdnToYmd (2440588 + days)
  fmtYmd r.1 r.2.1 r.2.2

def fmtHms (h m s : Int) : Text := padInt 2 h ++ [58] ++ padInt 2 m ++ [58] ++ padInt 2 s

/-- `format_time` -/
def cliFormatTime (micros : Int) : Text :=
  let total := micros.tdiv 1000000
  let hours := total.tdiv 3600
  let minutes := (total.tmod 3600).tdiv 60
  let seconds := total.tmod 60
  let part := micros.tmod 1000000
  if part = 0 then fmtHms hours minutes seconds
  else fmtHms hours minutes seconds ++ [46] ++ padInt 6 part

/-- `format_timestamp` -/
def cliFormatTimestamp (micros : Int) : Text :=
  let seconds := micros.tdiv 1000000
  let part : Int := (micros.tmod 1000000).natAbs
  let days := seconds.tdiv 86400
  let tod : Int := (seconds.tmod 86400).natAbs
  let r := cliJdnToYmd (2440588 + days)
  let hours := tod.tdiv 3600
  let minutes := (tod.tmod 3600).tdiv 60
  let secs := tod.tmod 60
  let base := fmtYmd r.1 r.2.1 r.2.2 ++ [32] ++ fmtHms hours minutes secs
  if part = 0 then base else base ++ [46] ++ padInt 6 part

end TurVerif.Cal
