import TurVerif.Model.Simd
/-
M-spec: an ordered map from byte-string keys to byte-string values as a key-sorted association
list (the simplest definition of what C28 demands).  Order = `<[u8] as Ord>` (`Simd.cmpBytes`).
All functions scan from the front and stop at the first key that is not smaller than the probe.
-/
namespace TurVerif.OMap
open TurVerif.Simd (cmpBytes)

abbrev Entry := List Nat × List Nat

def lookup : List Entry → List Nat → Option (List Nat)
  | [], _ => none
  | (k', v') :: m, k =>
    match cmpBytes k' k with
    | .lt => lookup m k
    | .eq => some v'
    | .gt => none

/-- insert a key that is not yet present (a present key leaves the map unchanged) -/
def insertNew : List Entry → List Nat → List Nat → List Entry
  | [], k, v => [(k, v)]
  | (k', v') :: m, k, v =>
    match cmpBytes k' k with
    | .lt => (k', v') :: insertNew m k v
    | .eq => (k', v') :: m
    | .gt => (k, v) :: (k', v') :: m

def erase : List Entry → List Nat → List Entry
  | [], _ => []
  | (k', v') :: m, k =>
    match cmpBytes k' k with
    | .lt => (k', v') :: erase m k
    | .eq => m
    | .gt => (k', v') :: m

/-- replace the value of a present key (absent key: unchanged) -/
def replace : List Entry → List Nat → List Nat → List Entry
  | [], _, _ => []
  | (k', v') :: m, k, v =>
    match cmpBytes k' k with
    | .lt => (k', v') :: replace m k v
    | .eq => (k', v) :: m
    | .gt => (k', v') :: m

/-- entries with key ≥ probe (what a cursor positioned by `seek` must enumerate) -/
def fromKey : List Entry → List Nat → List Entry
  | [], _ => []
  | (k', v') :: m, k =>
    match cmpBytes k' k with
    | .lt => fromKey m k
    | _ => (k', v') :: m

end TurVerif.OMap
