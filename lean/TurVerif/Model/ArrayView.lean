import TurVerif.Model.DecCore
import TurVerif.Model.Jsonb
/-
M-code model of /repo/src/records/array.rs `ArrayView`.
Layout: [total_size u32][elem_type u8][ndims u8][len u16][null bitmap ceil(len/8)]
        then either fixed-size elements, or [offset u32 × len][variable data].
`ArrayView::new` checks only `len(data) ≥ 8`.
-/
namespace TurVerif.ArrayView
open TurVerif.Dec

def HEADER_SIZE : Nat := 8

def new (b : Buf) : Res Unit := ensure (decide (HEADER_SIZE ≤ b.len)) "short"

/-- the bytes `DataType::try_from` accepts (types/data_type.rs) -/
def knownElemType (t : Nat) : Bool :=
  t ≤ 13 || (20 ≤ t && t ≤ 25) || t = 30 || t = 31 || (40 ≤ t && t ≤ 43) || t = 50 ||
  (60 ≤ t && t ≤ 62) || t = 70 || t = 71

/-- `elem_type()`: `DataType::try_from(self.data[4]).expect(..)` -/
def elemType (b : Buf) : Res Nat :=
  (rd b 4).bind fun t => if knownElemType t then .ok t else .expect

def len (b : Buf) : Res Nat := rd16 b 6
def totalSize (b : Buf) : Res Nat := rd32 b 0

/-- `is_null` -/
def isNull (b : Buf) (idx : Nat) : Res Bool :=
  (len b).bind fun n =>
  if n ≤ idx then .ok true else
  (rd b (HEADER_SIZE + idx / 8)).bind fun x => .ok (x / 2 ^ (idx % 8) % 2 == 1)

/-- `get_bool/int2/int4/int8/float4/float8` (`w` = element width): raw little-endian bytes -/
def getFixed (b : Buf) (idx w : Nat) : Res (List Nat) :=
  (len b).bind fun n =>
  (ensure (decide (idx < n)) "index").bind fun _ =>
  let off := HEADER_SIZE + (n + 7) / 8 + idx * w
  let rec go (o : Nat) : Nat → Res (List Nat)
    | 0 => .ok []
    | k + 1 => (rd b o).bind fun x => (go (o + 1) k).bind fun xs => .ok (x :: xs)
  go off w

/-- `read_offset` -/
def readOffset (b : Buf) (n idx : Nat) : Res Nat := rd32 b (HEADER_SIZE + (n + 7) / 8 + idx * 4)

/-- `get_var_bounds`; `total_size as usize - data_start` is a checked subtraction -/
def getVarBounds (b : Buf) (idx : Nat) : Res (Nat × Nat) :=
  (len b).bind fun n =>
  (ensure (decide (idx < n)) "index").bind fun _ =>
  let ds := HEADER_SIZE + (n + 7) / 8 + n * 4
  (readOffset b n idx).bind fun st =>
  (if idx + 1 < n then readOffset b n (idx + 1)
   else (totalSize b).bind fun t => subChecked t ds).bind fun en =>
  .ok (ds + st, ds + en)

/-- `get_blob` -/
def getBlob (b : Buf) (idx : Nat) : Res (List Nat) :=
  (isNull b idx).bind fun nul =>
  if nul then .err "null" else
  (getVarBounds b idx).bind fun (st, en) => slice b st en

/-- `get_text` -/
def getText (b : Buf) (idx : Nat) : Res (List Nat) :=
  (getBlob b idx).bind fun bs => if TurVerif.Jsonb.validUtf8 bs then .ok bs else .err "utf8"

end TurVerif.ArrayView
