import TurVerif.Model.Sql
/-
M-spec for C19: the relational operators the equivalence laws talk about, over an ARBITRARY row
type `α` and an ARBITRARY three-valued row predicate `p : α → Tri` (so the laws do not depend on
the expression language: they cover vector / JSON / window expressions the reference evaluator
`TurVerif.Sql.eval` does not define).  Imports only the core-only `TurVerif.Model.Sql` (for `Tri`).
-/
namespace TurVerif.SqlRewrite
open TurVerif.Sql

/-- `WHERE p`: keep exactly the rows on which `p` is TRUE -/
def filterT {α : Type} (p : α → Tri) (rows : List α) : List α :=
  rows.filter (fun r => (p r).isTrue)

/-- pointwise connectives on predicates -/
def pAnd {α : Type} (p q : α → Tri) : α → Tri := fun r => (p r).and (q r)
def pOr {α : Type} (p q : α → Tri) : α → Tri := fun r => (p r).or (q r)
def pNot {α : Type} (p : α → Tri) : α → Tri := fun r => (p r).not
/-- `p IS NULL` (two-valued) -/
def pIsNull {α : Type} (p : α → Tri) : α → Tri := fun r =>
  match p r with
  | .u => .t
  | _ => .f
def pTrue {α : Type} : α → Tri := fun _ => .t
def pFalse {α : Type} : α → Tri := fun _ => .f

/-- `FROM a, b` / `a CROSS JOIN b`: every left row concatenated with every right row -/
def cross {β : Type} (ls rs : List (List β)) : List (List β) :=
  ls.flatMap (fun l => rs.map (fun r => l ++ r))

/-- `a JOIN b ON on` -/
def innerJoinT {β : Type} (on : List β → Tri) (ls rs : List (List β)) : List (List β) :=
  filterT on (cross ls rs)

/-- the column permutation that turns a row of `b ⋈ a` (b's `wr` columns first) into the
corresponding row of `a ⋈ b` -/
def swapCols {β : Type} (wr : Nat) (row : List β) : List β := row.drop wr ++ row.take wr

/-- select list: one output cell per item -/
def project {α γ : Type} (items : List (α → γ)) (rows : List α) : List (List γ) :=
  rows.map (fun r => items.map (fun f => f r))

/-- reorder a list by a list of indices (`σ[k]` = index of the item placed at position k) -/
def permuteBy {γ : Type} (σ : List Nat) (d : γ) (xs : List γ) : List γ :=
  σ.map (fun i => xs.getD i d)

end TurVerif.SqlRewrite
