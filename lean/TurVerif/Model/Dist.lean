/-
Model of /repo/src/hnsw/distance.rs over `Rat` (rounding is NOT modelled, DESIGN §1.1).

M-spec: `sumDef f a b = Σ_i f a_i b_i` over the zipped vectors (the "scalar definition").
M-code:
  * `scalarLoop`  – `for (x, y) in a.iter().zip(b.iter()) { sum += f(x, y) }` (left fold from 0);
  * `kernel W hs` – the AVX2 (W = 8) / NEON (W = 4) kernels:
        n = a.len(); i = 0; acc = [0; W]
        while i + W <= n { acc[l] += f(a[i+l], b[i+l])  for l < W;  i += W }
        result = hs(acc)                      -- horizontal sum
        while i < n { result += f(a[i], b[i]); i += 1 }
    Every element read goes through a checked read (`[i]?`); an index outside a vector is the
    explicit outcome `none` (= out-of-bounds read in the `unsafe` Rust code), so "every index is
    used exactly once and none beyond n" is a statement about the model.
  * cosine: the three accumulators (dot, |a|², |b|²) run in the same loop in the code; they do not
    interact, so they are modelled as three kernels with the same `n = a.len()`; then the
    zero-norm guard.  `sqrt` is not rational: the model exposes the ordering key
    `cosSimSq = sign(dot)·dot²/(|a|²|b|²)` (0 when the guard fires, i.e. distance 1), which orders
    rows exactly as `1 - dot/sqrt(|a|²|b|²)` does (reverse order).
-/
namespace TurVerif.Dist

/-- term of the squared Euclidean distance -/
def sqd (x y : Rat) : Rat := (x - y) * (x - y)
/-- term of the dot product -/
def prd (x y : Rat) : Rat := x * y
/-- terms of the two squared norms -/
def fstSq (x _y : Rat) : Rat := x * x
def sndSq (_x y : Rat) : Rat := y * y

/-! ### M-spec -/

/-- the scalar definition: Σ_i f a_i b_i over the common prefix of the two vectors -/
def sumDef (f : Rat → Rat → Rat) : List Rat → List Rat → Rat
  | x :: xs, y :: ys => f x y + sumDef f xs ys
  | _, _ => 0

def l2sqDef (a b : List Rat) : Rat := sumDef sqd a b
def dotDef (a b : List Rat) : Rat := sumDef prd a b

def sgnMulSq (d : Rat) : Rat := if d < 0 then -(d * d) else d * d

/-- ordering key of the cosine distance (larger key = smaller distance); `0` when a norm is zero
(the code returns distance 1.0, i.e. similarity 0, in that case) -/
def cosSimSqOf (dot na nb : Rat) : Rat :=
  if na * nb = 0 then 0 else sgnMulSq dot / (na * nb)

def cosSimSqDef (a b : List Rat) : Rat :=
  cosSimSqOf (sumDef prd a b) (sumDef fstSq a b) (sumDef sndSq a b)

/-! ### M-code: scalar loops -/

def scalarLoop (f : Rat → Rat → Rat) : List Rat → List Rat → Rat → Rat
  | x :: xs, y :: ys, acc => scalarLoop f xs ys (acc + f x y)
  | _, _, acc => acc

def l2sqScalar (a b : List Rat) : Rat := scalarLoop sqd a b 0
def dotScalar (a b : List Rat) : Rat := scalarLoop prd a b 0
def cosSimSqScalar (a b : List Rat) : Rat :=
  cosSimSqOf (scalarLoop prd a b 0) (scalarLoop fstSq a b 0) (scalarLoop sndSq a b 0)

/-! ### M-code: vector kernels -/

/-- `W` consecutive checked reads starting at `i` (`_mm256_loadu_ps(ptr.add(i))`) -/
def loadW (v : List Rat) (i : Nat) : Nat → Option (List Rat)
  | 0 => some []
  | w + 1 =>
    match v[i]? with
    | none => none
    | some x =>
      match loadW v (i + 1) w with
      | none => none
      | some r => some (x :: r)

/-- lane-wise `acc + f(va, vb)` (`_mm256_fmadd_ps` / `vfmaq_f32`, rounding not modelled) -/
def fmaddW (f : Rat → Rat → Rat) : List Rat → List Rat → List Rat → List Rat
  | c :: cs, x :: xs, y :: ys => (c + f x y) :: fmaddW f cs xs ys
  | _, _, _ => []

/-- `while i + W <= n { … i += W }`; fuel-bounded, `none` = out-of-bounds read or fuel exhausted -/
def vecLoop (W : Nat) (f : Rat → Rat → Rat) (a b : List Rat) (n : Nat) :
    Nat → Nat → List Rat → Option (Nat × List Rat)
  | 0, _, _ => none
  | fuel + 1, i, acc =>
    if i + W ≤ n then
      match loadW a i W, loadW b i W with
      | some va, some vb => vecLoop W f a b n fuel (i + W) (fmaddW f acc va vb)
      | _, _ => none
    else some (i, acc)

/-- `while i < n { result += f(a[i], b[i]); i += 1 }` -/
def tailLoop (f : Rat → Rat → Rat) (a b : List Rat) (n : Nat) : Nat → Nat → Rat → Option Rat
  | 0, _, _ => none
  | fuel + 1, i, r =>
    if i < n then
      match a[i]?, b[i]? with
      | some x, some y => tailLoop f a b n fuel (i + 1) (r + f x y)
      | _, _ => none
    else some r

/-- `horizontal_sum_avx2`: extractf128/add, movehl/add, shuffle/add_ss -/
def hsum8 : List Rat → Rat
  | [l0, l1, l2, l3, l4, l5, l6, l7] => ((l0 + l4) + (l2 + l6)) + ((l1 + l5) + (l3 + l7))
  | _ => 0

/-- `vaddvq_f32`: pairwise add across the vector -/
def hsum4 : List Rat → Rat
  | [l0, l1, l2, l3] => (l0 + l1) + (l2 + l3)
  | _ => 0

/-- the vector kernel with lane width `W` and horizontal sum `hs`; `n = a.len()` -/
def kernel (W : Nat) (hs : List Rat → Rat) (f : Rat → Rat → Rat) (a b : List Rat) : Option Rat :=
  let n := a.length
  match vecLoop W f a b n (n + 1) 0 (List.replicate W 0) with
  | none => none
  | some (i, acc) => tailLoop f a b n (n + 1) i (hs acc)

def l2sqAvx2 (a b : List Rat) : Option Rat := kernel 8 hsum8 sqd a b
def dotAvx2 (a b : List Rat) : Option Rat := kernel 8 hsum8 prd a b
def l2sqNeon (a b : List Rat) : Option Rat := kernel 4 hsum4 sqd a b
def dotNeon (a b : List Rat) : Option Rat := kernel 4 hsum4 prd a b

/-- `cosine_avx2` / `cosine_neon` up to the final `1 - dot/sqrt(..)`: three accumulators in one loop -/
def cosSimSqKernel (W : Nat) (hs : List Rat → Rat) (a b : List Rat) : Option Rat :=
  match kernel W hs prd a b, kernel W hs fstSq a b, kernel W hs sndSq a b with
  | some d, some na, some nb => some (cosSimSqOf d na nb)
  | _, _, _ => none

/-! ### M-spec: k nearest rows (SQL `ORDER BY dist [LIMIT k]`) -/

/-- rows sorted by a rational key (stable merge sort), then the first `k` -/
def knn {α : Type} (d : α → Rat) (rows : List α) (k : Nat) : List α :=
  (rows.mergeSort (fun x y => decide (d x ≤ d y))).take k

end TurVerif.Dist
