/-
M-code (abstract state) of TurDB's page store + write-ahead log as the *database layer* uses them:

  src/database/macros.rs        with_btree_storage!   WAL on: pages are written through
                                                       `WalStoragePerTable` = written IN PLACE into the
                                                       table file's shared mapping AND recorded in the
                                                       dirty tracker; WAL off: written in place only
  src/storage/wal_storage.rs    flush_wal_for_table    copies the CURRENT image of every dirty page of a
                                                       table into the WAL, clears the dirty set
  src/database/database.rs      flush_wal_if_autocommit (no-op when WAL is off or a transaction is open)
                                SharedDatabase::checkpoint (= PRAGMA wal_checkpoint, checkpoint_wal(),
                                automatic checkpoint, Drop): rotate the segment, replay every frame of
                                the closed segments onto the table files, delete the segments.  Does
                                NOT flush dirty pages first.
  src/database/lifecycle.rs     Database::checkpoint   flush all dirty tables, truncate the WAL
                                                       (nothing is replayed: the table file already
                                                       holds the pages)
                                Database::close        = Database::checkpoint + closed flag
  src/database/transaction.rs   execute_commit         flush dirty tables; maybe_auto_checkpoint:
                                                       `frame_count >= threshold` → SharedDatabase::checkpoint
  src/database/recovery.rs      recover_all_tables     (Database::open) replay all frames onto the table
                                                       files in log order, truncate the WAL
  src/database/database.rs      open_with_recovery     fresh process state: dirty tracker empty,
                                                       `wal_enabled = false`

Queries read the table file mapping only (never the WAL): `view`.  The WAL matters for what a
checkpoint / recovery writes back: `logical = table ⊕ replay(wal)`.

Abstractions: a page image is a `Nat`; a key is (file id, page number); the WAL is one frame list
(segments are created and consumed inside one checkpoint call; size-triggered rotation is not
modelled); every frame's file is replayable (the harness only uses `root/*.tbd` tables, the only
files `SharedDatabase::checkpoint` replays).  No imports outside core.
-/
namespace TurVerif.PageLog

structure Key where
  file : Nat
  page : Nat
  deriving Repr, DecidableEq, Inhabited

/-- page store as an association list, newest binding first; unbound pages read as 0 -/
def rd (t : List (Key × Nat)) (k : Key) : Nat :=
  match t with
  | [] => 0
  | (k', v) :: rest => if k' = k then v else rd rest k

def wr (t : List (Key × Nat)) (k : Key) (v : Nat) : List (Key × Nat) := (k, v) :: t

/-- replay frames (oldest first) onto a page store: `page_mut(no).copy_from_slice(data)` per frame -/
def replay (t : List (Key × Nat)) : List (Key × Nat) → List (Key × Nat)
  | [] => t
  | (k, v) :: rest => replay (wr t k v) rest

/-- the last frame of a page in the log -/
def lastFrame (w : List (Key × Nat)) (k : Key) : Option Nat :=
  match w with
  | [] => none
  | (k', v) :: rest =>
    match lastFrame rest k with
    | some x => some x
    | none => if k' = k then some v else none

structure St where
  /-- table files as seen through the shared mappings -/
  table : List (Key × Nat) := []
  /-- WAL frames, oldest first -/
  wal : List (Key × Nat) := []
  /-- dirty tracker: the dirty pages -/
  dirty : List Key := []
  /-- dirty tracker: some table has an entry (`ShardedDirtyTracker::is_empty` is false).  Entries
  are created by `mark_dirty` and survive `drain_for_table` (the bitmap is cleared, the entry
  stays), so once a page was written with the WAL on the tracker never reports empty again on
  this handle. -/
  touched : Bool := false
  /-- `wal_enabled` -/
  walOn : Bool := false
  /-- `Wal.frame_count` (reset only by `truncate`) -/
  frames : Nat := 0
  /-- `checkpoint_threshold` -/
  threshold : Nat := 1000
  deriving Repr, Inhabited

inductive Op where
  /-- a B-tree page write through `with_btree_storage!` -/
  | write (k : Key) (v : Nat)
  /-- `flush_wal_if_autocommit` for one table -/
  | flush (file : Nat)
  /-- `PRAGMA wal = ON|OFF` -/
  | setWal (on : Bool)
  /-- `PRAGMA wal_checkpoint_threshold = n` -/
  | setThreshold (n : Nat)
  /-- `SharedDatabase::checkpoint` -/
  | ckptShared
  /-- `Database::checkpoint` -/
  | ckptDb
  /-- `COMMIT` -/
  | commit
  /-- `Database::close` then `Database::open` -/
  | reopen
  /-- drop the handle without `close` then `Database::open` -/
  | dropReopen
  deriving Repr, DecidableEq

def view (s : St) (k : Key) : Nat := rd s.table k

def logical (s : St) (k : Key) : Nat := rd (replay s.table s.wal) k

def markDirty (d : List Key) (k : Key) : List Key := if d.contains k then d else k :: d

/-- frames written by a flush of the dirty keys `ks`: the current image of each -/
def framesOf (t : List (Key × Nat)) (ks : List Key) : List (Key × Nat) := ks.map (fun k => (k, rd t k))

def flushKeys (s : St) (ks : List Key) : St :=
  { s with wal := s.wal ++ framesOf s.table ks,
           dirty := s.dirty.filter (fun k => !(ks.contains k)),
           frames := s.frames + ks.length }

def flushFile (s : St) (f : Nat) : St :=
  if s.walOn then flushKeys s (s.dirty.filter (fun k => k.file == f)) else s

def flushAll (s : St) : St := flushKeys s s.dirty

/-- rotate + replay closed segments + remove them.  `frame_count` is NOT reset. -/
def ckptShared (s : St) : St := { s with table := replay s.table s.wal, wal := [] }

/-- `Database::checkpoint`: `dirty_tracker.is_empty()` → only old segment files are cleaned up;
otherwise flush every dirty table and, if the log holds a frame (`current_offset() > 0`), truncate
it (`frame_count` reset).  NB `is_empty()` means "no table entry", not "no dirty page" (see
`touched`): after the first logged write of a handle every `Database::checkpoint` / `close`
truncates the log.  (`s.dirty.isEmpty` is implied by `!s.touched` in every reachable state; it is
spelled out so that `ckptDb` leaves no dirty page in ANY state.) -/
def ckptDb (s : St) : St :=
  if !s.touched && s.dirty.isEmpty then s
  else
    let s1 := flushAll s
    if s1.wal.isEmpty then s1 else { s1 with wal := [], frames := 0 }

def commit (s : St) : St :=
  if s.walOn then
    let s1 := flushAll s
    if s1.frames ≥ s1.threshold then ckptShared s1 else s1
  else s

/-- `Database::open`: recovery replays the log and truncates it; fresh process state -/
def recover (s : St) : St :=
  { table := replay s.table s.wal, wal := [], dirty := [], touched := false, walOn := false, frames := 0,
    threshold := 1000 }

def step (s : St) : Op → St
  | .write k v => { s with table := wr s.table k v, dirty := if s.walOn then markDirty s.dirty k else s.dirty,
                            touched := s.touched || s.walOn }
  | .flush f => flushFile s f
  | .setWal b => { s with walOn := b }
  | .setThreshold n => { s with threshold := n }
  | .ckptShared => ckptShared s
  | .ckptDb => ckptDb s
  | .commit => commit s
  | .reopen => recover (ckptDb s)
  | .dropReopen => recover (ckptShared s)

def run (s : St) : List Op → St
  | [] => s
  | op :: rest => run (step s op) rest

/-- what the history means for a reader: only the writes count -/
def specStep (t : List (Key × Nat)) : Op → List (Key × Nat)
  | .write k v => wr t k v
  | _ => t

def specRun (t : List (Key × Nat)) : List Op → List (Key × Nat)
  | [] => t
  | op :: rest => specRun (specStep t op) rest

/-- a page has no frame in the log -/
def noFrame (s : St) (k : Key) : Bool := (lastFrame s.wal k).isNone

/-- the precondition under which an operation cannot bring back an old page image:
* a write with WAL off must not hit a page that still has a frame in the log;
* a replaying checkpoint (or dropping the handle) must not find a dirty (= written, not yet
  flushed) page that has an older frame in the log. -/
def safeOp (s : St) : Op → Bool
  | .write k _ => s.walOn || noFrame s k
  | .ckptShared => s.dirty.all (noFrame s)
  | .dropReopen => s.dirty.all (noFrame s)
  | .commit => true
  | _ => true

def safeRun (s : St) : List Op → Bool
  | [] => true
  | op :: rest => safeOp s op && safeRun (step s op) rest

end TurVerif.PageLog
