/-
M-code model of the order in which concurrent committers put page images into the WAL
(`execute_small_commit`, src/database/transaction.rs): a committer
  (1) modifies pages in place (the mmap'd table file is shared by all handles),
  (2) CAPTURES the current image of each of its dirty pages under the file-manager lock,
  (3) releases the lock and SUBMITS the captured images to the group-commit queue,
  (4) some leader FLUSHES the queue to the WAL in queue order.
A page image is abstracted to the page's version number (each in-place modification increments
it).  `atomic = true` is the variant in which capture and submit are one atomic step (what a
repair would have to guarantee); `atomic = false` is the code.
-/
namespace TurVerif.CommitOrder

inductive Pc where
  | modify | capture | submit (img : Nat) | waitFlush | done
  deriving DecidableEq, Repr, Inhabited

structure State where
  atomic : Bool
  /-- current in-place version of the single contended page -/
  page : Nat := 0
  /-- queue of captured images, submit order -/
  pending : List Nat := []
  /-- WAL: images in write order -/
  wal : List Nat := []
  threads : List Pc
  deriving DecidableEq, Repr, Inhabited

def init (atomic : Bool) (n : Nat) : State := { atomic := atomic, threads := List.replicate n .modify }

def step (s : State) (tid : Nat) : Option State :=
  match s.threads[tid]? with
  | none => none
  | some pc =>
    match pc with
    | .modify => some { s with page := s.page + 1, threads := s.threads.set tid .capture }
    | .capture =>
      if s.atomic then
        some { s with pending := s.pending ++ [s.page], threads := s.threads.set tid .waitFlush }
      else some { s with threads := s.threads.set tid (.submit s.page) }
    | .submit img => some { s with pending := s.pending ++ [img], threads := s.threads.set tid .waitFlush }
    | .waitFlush =>
      -- this committer acts as leader: everything pending goes to the WAL in queue order;
      -- every waiting committer whose image is flushed is done (completion is collapsed)
      some { s with wal := s.wal ++ s.pending, pending := [],
                    threads := (s.threads.set tid .done).map (fun p => if p = .waitFlush then .done else p) }
    | .done => none

def run (s : State) : List Nat → State
  | [] => s
  | t :: rest => run ((step s t).getD s) rest

/-- recovery replays the WAL: the page ends with the LAST image written -/
def replayed (s : State) : Option Nat := s.wal.getLast?

def quiescent (s : State) : Bool := s.threads.all (· == .done)

/-- images are queued / logged in non-decreasing version order -/
def sortedImgs : List Nat → Bool
  | [] => true
  | [_] => true
  | a :: b :: rest => a ≤ b && sortedImgs (b :: rest)

end TurVerif.CommitOrder
