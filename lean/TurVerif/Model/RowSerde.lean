/-
M-code model of /repo/src/sql/row_serde.rs (RowSerde::serialize_row_into, serialize_value_into,
deserialize_row_into, deserialize_value, row_size, value_size) and of the sequential reader of
src/sql/partition_spiller.rs (`read_next` called `row_count` times over one buffer).

Conventions
* bytes are `Nat`s (< 256 when well formed); a buffer is a `List Nat`.
* every fixed-width number (i64, f64, i32, u16, i16, i128, f32) is represented by its **bit
  pattern** as a `Nat` (two's complement for the signed ones); `to_be_bytes` is `beBytes w`,
  `from_be_bytes` is `beVal`.  `Value::Int(i)` with `i < 0` is `bits ≥ 2^63`.
* floats are bit patterns; `is_nan`, `== ±INFINITY`, `< 0.0`, `== 0.0` are defined on the bits
  exactly as IEEE-754 defines them (`-0.0 < 0.0` is false, `-0.0 == 0.0` is true).
* `x as u16` / `x as u32` are `% 65536` / `% 4294967296`.
* every read of the input goes through `rd`/`rdByte`, which yield the explicit outcome `oob`
  when the requested range is outside the buffer, so "never reads past the input" is a statement
  about the model.
* `Text` carries its UTF-8 bytes; `std::str::from_utf8` is modelled by `utf8Valid`
  (Unicode table 3-7 well-formed byte sequences).
-/
namespace TurVerif.RowSerde

/-! ### big-endian codecs -/

/-- `to_be_bytes` of the low `w` bytes of `v` -/
def beBytes : Nat → Nat → List Nat
  | 0, _ => []
  | w + 1, v => beBytes w (v / 256) ++ [v % 256]

/-- `from_be_bytes` (Horner) -/
def beVal (bs : List Nat) : Nat := bs.foldl (fun acc b => acc * 256 + b) 0

def u16 (n : Nat) : Nat := n % 65536
def u32 (n : Nat) : Nat := n % 4294967296

/-! ### f64 classification on bit patterns -/
abbrev F64_INF : Nat := 0x7ff0000000000000
abbrev F64_NEG_ZERO : Nat := 0x8000000000000000
abbrev F64_NEG_INF : Nat := 0xfff0000000000000
/-- `f64::NAN` -/
abbrev F64_NAN : Nat := 0x7ff8000000000000
abbrev I64_SIGN : Nat := 0x8000000000000000

/-- `f.is_nan()`: exponent all ones, mantissa non-zero (either sign) -/
def isNan (b : Nat) : Bool := (F64_INF < b && b < F64_NEG_ZERO) || F64_NEG_INF < b
/-- `f < 0.0` (IEEE: false for NaN and for -0.0) -/
def fLtZero (b : Nat) : Bool := !isNan b && F64_NEG_ZERO < b
/-- `f == 0.0` (IEEE: true for +0.0 and -0.0) -/
def fEqZero (b : Nat) : Bool := b == 0 || b == F64_NEG_ZERO

/-! ### values -/
inductive Value where
  | null
  | int (bits : Nat)                       -- i64 pattern
  | float (bits : Nat)                     -- f64 pattern
  | text (utf8 : List Nat)
  | blob (bytes : List Nat)
  | vector (f32s : List Nat)               -- f32 patterns
  | uuid (b : List Nat)                    -- 16 bytes
  | macaddr (b : List Nat)                 -- 6 bytes
  | inet4 (b : List Nat)                   -- 4 bytes
  | inet6 (b : List Nat)                   -- 16 bytes
  | jsonb (bytes : List Nat)
  | timestamptz (micros offset : Nat)      -- i64, i32 patterns
  | interval (micros days months : Nat)    -- i64, i32, i32
  | point (x y : Nat)                      -- f64 patterns
  | geobox (l0 l1 h0 h1 : Nat)
  | circle (c0 c1 r : Nat)
  | enum (typeId ordinal : Nat)            -- u16, u16
  | decimal (digits scale : Nat)           -- i128, i16 patterns
  | toast (bytes : List Nat)
  deriving Repr, DecidableEq

/-- which float-zero treatment: `cur` = the code as pinned (zero shares the `ZERO` discriminant
with `Int(0)`), `fix` = fix_rowserde.patch (zeros are written as POS_FLOAT/NEG_FLOAT with
their bits) -/
inductive Variant where
  | cur | fix
  deriving Repr, DecidableEq

/-! ### serialisation -/

def serializeFloat : Variant → Nat → List Nat
  | .cur, f =>
    if isNan f then [0x19]
    else if f = F64_NEG_INF then [0x10]
    else if f = F64_INF then [0x18]
    else if fLtZero f then 0x13 :: beBytes 8 f
    else if fEqZero f then [0x14]
    else 0x15 :: beBytes 8 f
  | .fix, f =>
    if isNan f then [0x19]
    else if f = F64_NEG_INF then [0x10]
    else if f = F64_INF then [0x18]
    else if F64_NEG_ZERO ≤ f then 0x13 :: beBytes 8 f      -- `f.is_sign_negative()`
    else 0x15 :: beBytes 8 f

def serializeValue (var : Variant) : Value → List Nat
  | .null => [0x01]
  | .int i =>
    if I64_SIGN ≤ i then 0x12 :: beBytes 8 i
    else if i = 0 then [0x14]
    else 0x16 :: beBytes 8 i
  | .float f => serializeFloat var f
  | .text s => 0x20 :: (beBytes 4 (u32 s.length) ++ s)
  | .blob b => 0x21 :: (beBytes 4 (u32 b.length) ++ b)
  | .vector v => 0x70 :: (beBytes 4 (u32 v.length) ++ v.flatMap (beBytes 4))
  | .uuid u => 0x40 :: u
  | .macaddr m => 0x43 :: m
  | .inet4 ip => 0x41 :: ip
  | .inet6 ip => 0x42 :: ip
  | .jsonb b => 0x50 :: (beBytes 4 (u32 b.length) ++ b)
  | .timestamptz m o => 0x33 :: (beBytes 8 m ++ beBytes 4 o)
  | .interval m d mo => 0x34 :: (beBytes 8 m ++ (beBytes 4 d ++ beBytes 4 mo))
  | .point x y => 0x80 :: (beBytes 8 x ++ beBytes 8 y)
  | .geobox a b c d => 0x81 :: (beBytes 8 a ++ (beBytes 8 b ++ (beBytes 8 c ++ beBytes 8 d)))
  | .circle a b r => 0x82 :: (beBytes 8 a ++ (beBytes 8 b ++ beBytes 8 r))
  | .enum t o => 0x63 :: (beBytes 2 t ++ beBytes 2 o)
  | .decimal d s => 0x83 :: (beBytes 16 d ++ beBytes 2 s)
  | .toast b => 0x84 :: (beBytes 4 (u32 b.length) ++ b)

def serializeValues (var : Variant) : List Value → List Nat
  | [] => []
  | v :: vs => serializeValue var v ++ serializeValues var vs

/-- `serialize_row_into` (appends to `buf`; here: the appended bytes) -/
def serializeRow (var : Variant) (row : List Value) : List Nat :=
  beBytes 2 (u16 row.length) ++ serializeValues var row

/-! ### sizes -/

def floatSize : Variant → Nat → Nat
  | .cur, f => if isNan f || f == F64_NEG_INF || f == F64_INF || fEqZero f then 1 else 1 + 8
  | .fix, f => if isNan f || f == F64_NEG_INF || f == F64_INF then 1 else 1 + 8

def valueSize (var : Variant) : Value → Nat
  | .null => 1
  | .int i => if i = 0 then 1 else 1 + 8
  | .float f => floatSize var f
  | .text s => 1 + 4 + s.length
  | .blob b => 1 + 4 + b.length
  | .vector v => 1 + 4 + v.length * 4
  | .uuid _ => 1 + 16
  | .macaddr _ => 1 + 6
  | .inet4 _ => 1 + 4
  | .inet6 _ => 1 + 16
  | .jsonb b => 1 + 4 + b.length
  | .timestamptz .. => 1 + 12
  | .interval .. => 1 + 16
  | .point .. => 1 + 16
  | .geobox .. => 1 + 32
  | .circle .. => 1 + 24
  | .enum .. => 1 + 4
  | .decimal .. => 1 + 18
  | .toast b => 1 + 4 + b.length

def valuesSize (var : Variant) : List Value → Nat
  | [] => 0
  | v :: vs => valueSize var v + valuesSize var vs

/-- `row_size` -/
def rowSize (var : Variant) (row : List Value) : Nat := 2 + valuesSize var row

/-! ### UTF-8 validation (`std::str::from_utf8`) -/

def cont (b : Nat) : Bool := 0x80 ≤ b && b ≤ 0xBF

def utf8ValidFuel : Nat → List Nat → Bool
  | _, [] => true
  | 0, _ => false
  | fuel + 1, a :: rest =>
    if a ≤ 0x7F then utf8ValidFuel fuel rest
    else if 0xC2 ≤ a && a ≤ 0xDF then
      match rest with
      | b :: r => cont b && utf8ValidFuel fuel r
      | _ => false
    else if a = 0xE0 then
      match rest with
      | b :: c :: r => (0xA0 ≤ b && b ≤ 0xBF) && cont c && utf8ValidFuel fuel r
      | _ => false
    else if (0xE1 ≤ a && a ≤ 0xEC) || a = 0xEE || a = 0xEF then
      match rest with
      | b :: c :: r => cont b && cont c && utf8ValidFuel fuel r
      | _ => false
    else if a = 0xED then
      match rest with
      | b :: c :: r => (0x80 ≤ b && b ≤ 0x9F) && cont c && utf8ValidFuel fuel r
      | _ => false
    else if a = 0xF0 then
      match rest with
      | b :: c :: d :: r => (0x90 ≤ b && b ≤ 0xBF) && cont c && cont d && utf8ValidFuel fuel r
      | _ => false
    else if 0xF1 ≤ a && a ≤ 0xF3 then
      match rest with
      | b :: c :: d :: r => cont b && cont c && cont d && utf8ValidFuel fuel r
      | _ => false
    else if a = 0xF4 then
      match rest with
      | b :: c :: d :: r => (0x80 ≤ b && b ≤ 0x8F) && cont c && cont d && utf8ValidFuel fuel r
      | _ => false
    else false

def utf8Valid (bs : List Nat) : Bool := utf8ValidFuel bs.length bs

/-! ### deserialisation -/

inductive Res (α : Type) where
  | ok (value : α) (offset : Nat)
  | err (kind : String)
  | oob
  deriving Repr, DecidableEq

/-- checked slice `data[off .. off+n]` -/
def slice (data : List Nat) (off n : Nat) : Option (List Nat) :=
  if off + n ≤ data.length then some ((data.drop off).take n) else none

/-- checked multi-byte read; outside the buffer is the `oob` outcome -/
def rd {α : Type} (data : List Nat) (off n : Nat) (k : List Nat → Res α) : Res α :=
  match slice data off n with
  | none => .oob
  | some bs => k bs

/-- the vector element loop: `count` reads of 4 bytes each, each one checked -/
def readF32s (data : List Nat) : Nat → Nat → List Nat → Res (List Nat)
  | 0, off, acc => .ok acc.reverse off
  | count + 1, off, acc => rd data off 4 fun bs => readF32s data count (off + 4) (beVal bs :: acc)

/-- `[len: u32][bytes]` payload shared by TEXT/BLOB/JSONB/TOAST_POINTER; `what` names the
error messages -/
def readLenPrefixed {α : Type} (data : List Nat) (off : Nat) (what : String)
    (k : List Nat → Nat → Res α) : Res α :=
  if data.length < off + 4 then .err ("truncated " ++ what ++ " length") else
  rd data off 4 fun lb =>
  let len := beVal lb
  let off := off + 4
  if data.length < off + len then .err ("truncated " ++ what ++ " data") else
  rd data off len fun bs => k bs (off + len)

/-- the `match disc { … }` of `deserialize_value`; `off` is `*offset` after the discriminant has
been consumed, the result carries `*offset` on exit.  Same guards, in the same order. -/
def deserializeBody (data : List Nat) (disc off : Nat) : Res Value :=
  if disc = 0x01 then .ok .null off
  else if disc = 0x14 then .ok (.int 0) off
  else if disc = 0x12 then
    if data.length < off + 8 then .err "truncated neg int" else
    rd data off 8 fun bs => .ok (.int (beVal bs)) (off + 8)
  else if disc = 0x16 then
    if data.length < off + 8 then .err "truncated pos int" else
    rd data off 8 fun bs => .ok (.int (beVal bs)) (off + 8)
  else if disc = 0x19 then .ok (.float F64_NAN) off
  else if disc = 0x10 then .ok (.float F64_NEG_INF) off
  else if disc = 0x18 then .ok (.float F64_INF) off
  else if disc = 0x13 then
    if data.length < off + 8 then .err "truncated neg float" else
    rd data off 8 fun bs => .ok (.float (beVal bs)) (off + 8)
  else if disc = 0x15 then
    if data.length < off + 8 then .err "truncated pos float" else
    rd data off 8 fun bs => .ok (.float (beVal bs)) (off + 8)
  else if disc = 0x20 then
    readLenPrefixed data off "text" fun bs off' =>
      if utf8Valid bs then .ok (.text bs) off' else .err "utf8"
  else if disc = 0x21 then
    readLenPrefixed data off "blob" fun bs off' => .ok (.blob bs) off'
  else if disc = 0x70 then
    if data.length < off + 4 then .err "truncated vector count" else
    rd data off 4 fun cb =>
    let count := beVal cb
    let off := off + 4
    if data.length < off + count * 4 then .err "truncated vector data" else
    match readF32s data count off [] with
    | .ok v off' => .ok (.vector v) off'
    | .err e => .err e
    | .oob => .oob
  else if disc = 0x40 then
    if data.length < off + 16 then .err "truncated uuid" else
    rd data off 16 fun bs => .ok (.uuid bs) (off + 16)
  else if disc = 0x43 then
    if data.length < off + 6 then .err "truncated macaddr" else
    rd data off 6 fun bs => .ok (.macaddr bs) (off + 6)
  else if disc = 0x41 then
    if data.length < off + 4 then .err "truncated inet4" else
    rd data off 4 fun bs => .ok (.inet4 bs) (off + 4)
  else if disc = 0x42 then
    if data.length < off + 16 then .err "truncated inet6" else
    rd data off 16 fun bs => .ok (.inet6 bs) (off + 16)
  else if disc = 0x50 then
    readLenPrefixed data off "jsonb" fun bs off' => .ok (.jsonb bs) off'
  else if disc = 0x33 then
    if data.length < off + 12 then .err "truncated timestamptz" else
    rd data off 8 fun m => rd data (off + 8) 4 fun o =>
      .ok (.timestamptz (beVal m) (beVal o)) (off + 8 + 4)
  else if disc = 0x34 then
    if data.length < off + 16 then .err "truncated interval" else
    rd data off 8 fun m => rd data (off + 8) 4 fun d => rd data (off + 8 + 4) 4 fun mo =>
      .ok (.interval (beVal m) (beVal d) (beVal mo)) (off + 8 + 4 + 4)
  else if disc = 0x80 then
    if data.length < off + 16 then .err "truncated point" else
    rd data off 8 fun x => rd data (off + 8) 8 fun y =>
      .ok (.point (beVal x) (beVal y)) (off + 8 + 8)
  else if disc = 0x81 then
    if data.length < off + 32 then .err "truncated geobox" else
    rd data off 8 fun a => rd data (off + 8) 8 fun b => rd data (off + 8 + 8) 8 fun c =>
    rd data (off + 8 + 8 + 8) 8 fun d =>
      .ok (.geobox (beVal a) (beVal b) (beVal c) (beVal d)) (off + 8 + 8 + 8 + 8)
  else if disc = 0x82 then
    if data.length < off + 24 then .err "truncated circle" else
    rd data off 8 fun a => rd data (off + 8) 8 fun b => rd data (off + 8 + 8) 8 fun r =>
      .ok (.circle (beVal a) (beVal b) (beVal r)) (off + 8 + 8 + 8)
  else if disc = 0x63 then
    if data.length < off + 4 then .err "truncated enum" else
    rd data off 2 fun t => rd data (off + 2) 2 fun o =>
      .ok (.enum (beVal t) (beVal o)) (off + 2 + 2)
  else if disc = 0x83 then
    if data.length < off + 18 then .err "truncated decimal" else
    rd data off 16 fun dg => rd data (off + 16) 2 fun s =>
      .ok (.decimal (beVal dg) (beVal s)) (off + 16 + 2)
  else if disc = 0x84 then
    readLenPrefixed data off "toast pointer" fun bs off' => .ok (.toast bs) off'
  else .err "unknown discriminant"

/-- `deserialize_value`: guard, read the discriminant byte, advance, dispatch -/
def deserializeValue (data : List Nat) (off : Nat) : Res Value :=
  if data.length ≤ off then .err "truncated row: missing discriminant" else
  rd data off 1 fun d1 => deserializeBody data (beVal d1) (off + 1)

/-- the column loop of `deserialize_row_into` -/
def deserializeValues (data : List Nat) : Nat → Nat → List Value → Res (List Value)
  | 0, off, acc => .ok acc.reverse off
  | n + 1, off, acc =>
    match deserializeValue data off with
    | .ok v off' => deserializeValues data n off' (v :: acc)
    | .err e => .err e
    | .oob => .oob

/-- `deserialize_row_into` -/
def deserializeRow (data : List Nat) (off : Nat) : Res (List Value) :=
  if data.length < off + 2 then .err "truncated row: missing column count" else
  rd data off 2 fun cb => deserializeValues data (beVal cb) (off + 2) []

/-- `n` consecutive `deserialize_row_into` calls sharing one offset (PartitionSpiller::read_next
called `row_count` times over the mapped file, data starting at `off`) -/
def deserializeRows (data : List Nat) : Nat → Nat → List (List Value) → Res (List (List Value))
  | 0, off, acc => .ok acc.reverse off
  | n + 1, off, acc =>
    match deserializeRow data off with
    | .ok r off' => deserializeRows data n off' (r :: acc)
    | .err e => .err e
    | .oob => .oob

/-- what a value turns into across serialise → deserialise (the exact characterisation):
NaNs lose sign and payload; in the pinned code both float zeros turn into `Int(0)`. -/
def norm (var : Variant) : Value → Value
  | .float f =>
    if isNan f then .float F64_NAN
    else match var with
      | .cur => if fEqZero f then .int 0 else .float f
      | .fix => .float f
  | v => v

/-! ### what the Rust types guarantee about a `Value` (used as hypotheses, decidable) -/

/-- field widths, array lengths, `str` is UTF-8, byte strings shorter than 4 GiB (so that
`len as u32` does not truncate) -/
def Value.WF : Value → Prop
  | .null => True
  | .int i => i < 256 ^ 8
  | .float f => f < 256 ^ 8
  | .text s => s.length < 4294967296 ∧ utf8Valid s = true
  | .blob b => b.length < 4294967296
  | .vector v => v.length < 4294967296 ∧ ∀ x ∈ v, x < 256 ^ 4
  | .uuid b => b.length = 16
  | .macaddr b => b.length = 6
  | .inet4 b => b.length = 4
  | .inet6 b => b.length = 16
  | .jsonb b => b.length < 4294967296
  | .timestamptz m o => m < 256 ^ 8 ∧ o < 256 ^ 4
  | .interval m d mo => m < 256 ^ 8 ∧ d < 256 ^ 4 ∧ mo < 256 ^ 4
  | .point x y => x < 256 ^ 8 ∧ y < 256 ^ 8
  | .geobox a b c d => a < 256 ^ 8 ∧ b < 256 ^ 8 ∧ c < 256 ^ 8 ∧ d < 256 ^ 8
  | .circle a b r => a < 256 ^ 8 ∧ b < 256 ^ 8 ∧ r < 256 ^ 8
  | .enum t o => t < 256 ^ 2 ∧ o < 256 ^ 2
  | .decimal d s => d < 256 ^ 16 ∧ s < 256 ^ 2
  | .toast b => b.length < 4294967296

/-- a row the format can represent: every value well formed and fewer than 2^16 columns
(`row.len() as u16` must not truncate) -/
def RowWF (row : List Value) : Prop := row.length < 65536 ∧ ∀ v ∈ row, v.WF

end TurVerif.RowSerde
