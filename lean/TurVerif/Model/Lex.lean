/-
M-code model of the SQL lexer /repo/src/sql/lexer.rs (`Lexer::next_token` and every `scan_*`
helper), of the parser's string-literal un-escaping (src/sql/parser.rs, `Token::String` arm:
`s.replace("''", "'")`), of `value_to_sql_literal` and `substitute_parameters`
(src/database/prepared.rs) and of integer-literal evaluation (`eval_literal_with_type`,
src/database/convert.rs).

Representation.  The Rust lexer works on the UTF-8 *bytes* of the statement (`self.bytes[self.pos]`);
the model works on `List Nat` (bytes) and is formulated on the *remaining input*: a scanner takes the
suffix that starts at `self.pos` and returns the token together with the suffix at the new
`self.pos`.  `Lexer::span()` of a token is therefore
`(total - |input after trivia|, total - |rest|)`; the driver prints spans in exactly that form.

Differences in formulation (not in behaviour):
* `next_token` re-enters itself after a `--` or `/* */` comment; here whitespace and comments are
  consumed by one structurally recursive state machine `trivia` (modes: normal / inside a line
  comment / inside a block comment of depth d).  The line-comment loop of the code stops *at* the
  `\n` and the recursive `next_token` call then skips it as whitespace; `trivia` consumes it directly.
* keywords and identifiers are one token class `word` (the 400-entry keyword table is not part of
  any property here); the harness maps `Keyword`/`Ident` to `word` with the token text.
* error tokens carry the code's message text.
-/
namespace TurVerif.Lex

/-! ### byte classes -/
def isDigit (b : Nat) : Bool := 48 ≤ b && b ≤ 57
def isAlpha (b : Nat) : Bool := (65 ≤ b && b ≤ 90) || (97 ≤ b && b ≤ 122)
def isIdStart (b : Nat) : Bool := isAlpha b || b == 95
def isIdCont (b : Nat) : Bool := isAlpha b || isDigit b || b == 95
def isHex (b : Nat) : Bool := isDigit b || (65 ≤ b && b ≤ 70) || (97 ≤ b && b ≤ 102)
def isBin (b : Nat) : Bool := b == 48 || b == 49
def isOct (b : Nat) : Bool := 48 ≤ b && b ≤ 55
def isWs (b : Nat) : Bool := b == 32 || b == 9 || b == 13 || b == 10

inductive Param where
  | anon
  | pos (n : Nat)
  | named (name : List Nat)
  deriving Repr, DecidableEq

inductive Tok where
  | eof
  | word (s : List Nat)
  | int (s : List Nat)
  | float (s : List Nat)
  | hexnum (s : List Nat)
  | binnum (s : List Nat)
  | octnum (s : List Nat)
  | str (raw : List Nat)
  | qident (raw : List Nat)
  | param (p : Param)
  | op (name : String)
  | error (msg : String)
  deriving Repr, DecidableEq

/-! ### whitespace and comments -/
inductive Mode where
  | normal
  | line
  | block (depth : Nat)
  deriving Repr, DecidableEq

/-- `skip_whitespace` + the `--` arm of `scan_minus` + `scan_slash`/`scan_block_comment`.
`.inr start` = "unterminated block comment": the code returns `Token::Error` with `pos` at end of
input and `token_start` at the `/` that opened the comment; `start` is the input from that `/`
(carried in `cs` while inside a block comment, reset to `[]` when the comment ends). -/
def trivia : Mode → List Nat → List Nat → Sum (List Nat) (List Nat)
  | .normal, _, [] => .inl []
  | .normal, _, [c] => if isWs c then .inl [] else .inl [c]
  | .normal, cs, c :: c2 :: t2 =>
    if isWs c then trivia .normal cs (c2 :: t2)
    else if c = 45 ∧ c2 = 45 then trivia .line cs t2
    else if c = 47 ∧ c2 = 42 then trivia (.block 1) (c :: c2 :: t2) t2
    else .inl (c :: c2 :: t2)
  | .line, _, [] => .inl []
  | .line, cs, c :: t => if c = 10 then trivia .normal cs t else trivia .line cs t
  | .block _, cs, [] => .inr cs
  | .block _, cs, [_] => .inr cs
  | .block d, cs, c :: c2 :: t2 =>
    if c = 47 ∧ c2 = 42 then trivia (.block (d + 1)) cs t2
    else if c = 42 ∧ c2 = 47 then (if d ≤ 1 then trivia .normal [] t2 else trivia (.block (d - 1)) cs t2)
    else trivia (.block d) cs (c2 :: t2)

/-! ### delimited scanners -/

/-- `scan_string` / `scan_quoted_identifier` / `scan_backtick_identifier` after the opening
delimiter `q`: a doubled delimiter stays in the raw slice, a single one ends the token.
`none` = unterminated (the code returns `Token::Error` with `pos` at end of input). -/
def scanDelim (q : Nat) : List Nat → Option (List Nat × List Nat)
  | [] => none
  | c :: t =>
    if c = q then
      match t with
      | c2 :: t2 =>
        if c2 = q then (scanDelim q t2).map (fun p => (q :: q :: p.1, p.2))
        else some ([], t)
      | [] => some ([], [])
    else (scanDelim q t).map (fun p => (c :: p.1, p.2))

/-- `scan_dollar_string` after the opening tag: ends at the first `$` from which `endTag` matches. -/
def scanDollar (endTag : List Nat) : List Nat → Option (List Nat × List Nat)
  | [] => none
  | c :: t =>
    if c = 36 ∧ endTag.isPrefixOf (c :: t) then some ([], (c :: t).drop endTag.length)
    else (scanDollar endTag t).map (fun p => (c :: p.1, p.2))

/-- value of a decimal digit string -/
def decVal (ds : List Nat) : Nat := ds.foldl (fun acc d => acc * 10 + (d - 48)) 0

/-- the bytes of `l` consumed when the remaining input is `rest` (a suffix of `l`) -/
def consumed (l rest : List Nat) : List Nat := l.take (l.length - rest.length)

/-- exponent part shared by `scan_number` and `scan_dot`: `e|E`, optional sign, digits.
Returns (saw an exponent marker, remaining input). -/
def scanExp (l : List Nat) : Bool × List Nat :=
  match l with
  | e :: t =>
    if e = 101 ∨ e = 69 then
      let t' := match t with
        | s :: u => if s = 43 ∨ s = 45 then u else t
        | [] => t
      (true, t'.dropWhile isDigit)
    else (false, l)
  | [] => (false, l)

/-- `scan_number` on `l` (whose first byte is a digit) -/
def scanNumber (l : List Nat) : Tok × List Nat :=
  let radix : Option (Nat × (Nat → Bool) × (List Nat → Tok) × String) :=
    match l with
    | 48 :: n :: _ =>
      if n = 120 ∨ n = 88 then some (0, isHex, Tok.hexnum, "invalid hex number")
      else if n = 98 ∨ n = 66 then some (1, isBin, Tok.binnum, "invalid binary number")
      else if n = 111 ∨ n = 79 then some (2, isOct, Tok.octnum, "invalid octal number")
      else none
    | _ => none
  match radix with
  | some (_, p, mk, msg) =>
    let body := l.drop 2
    let ds := body.takeWhile p
    if ds.isEmpty then (Tok.error msg, body) else (mk ds, body.dropWhile p)
  | none =>
    let r1 := l.dropWhile isDigit
    let (isFloat, r2) : Bool × List Nat :=
      match r1 with
      | 46 :: n :: t =>
        if isDigit n then (true, (n :: t).dropWhile isDigit)
        else if n = 46 then (false, r1)
        else (true, n :: t)
      | _ => (false, r1)
    let (hasExp, r3) := scanExp r2
    let text := consumed l r3
    if isFloat || hasExp then (Tok.float text, r3) else (Tok.int text, r3)

/-- `scan_hex_string_literal` after `x'` -/
def scanHexStr (l : List Nat) : Tok × List Nat :=
  let h := l.takeWhile isHex
  match l.dropWhile isHex with
  | [] => (Tok.error "unterminated hex string literal", [])
  | c :: t =>
    if c = 39 then (Tok.hexnum h, t)
    else (Tok.error "invalid hex character in hex string literal", c :: t)

/-- `scan_dollar_or_param` after the `$` -/
def scanDollarOrParam (t : List Nat) : Tok × List Nat :=
  match t with
  | [] => (Tok.error "unexpected end after $", [])
  | c :: t' =>
    if isDigit c then
      let ds := t.takeWhile isDigit
      let rest := t.dropWhile isDigit
      if decVal ds < 4294967296 then (Tok.param (.pos (decVal ds)), rest)
      else (Tok.error "invalid positional parameter", rest)
    else if c = 36 then
      match scanDollar [36, 36] t' with
      | some (body, rest) => (Tok.str body, rest)
      | none => (Tok.error "unterminated dollar-quoted string", [])
    else if isIdStart c then
      let tag := t.takeWhile isIdCont
      match t.dropWhile isIdCont with
      | d :: after =>
        if d = 36 then
          match scanDollar (36 :: tag ++ [36]) after with
          | some (body, rest) => (Tok.str body, rest)
          | none => (Tok.error "unterminated dollar-quoted string", [])
        else (Tok.error "invalid dollar-quoted string tag", d :: after)
      | [] => (Tok.error "invalid dollar-quoted string tag", [])
    else (Tok.error "invalid token after $", t)

/-- one token from input that starts with a non-trivia byte `c` -/
def scanTok (c : Nat) (t : List Nat) : Tok × List Nat :=
  if isIdStart c then
    if (c = 120 ∨ c = 88) ∧ t.head? = some 39 then scanHexStr (t.drop 1)
    else (Tok.word ((c :: t).takeWhile isIdCont), (c :: t).dropWhile isIdCont)
  else if isDigit c then scanNumber (c :: t)
  else if c = 39 then
    match scanDelim 39 t with
    | some (raw, rest) => (Tok.str raw, rest)
    | none => (Tok.error "unterminated string", [])
  else if c = 34 then
    match scanDelim 34 t with
    | some (raw, rest) => (Tok.qident raw, rest)
    | none => (Tok.error "unterminated quoted identifier", [])
  else if c = 96 then
    match scanDelim 96 t with
    | some (raw, rest) => (Tok.qident raw, rest)
    | none => (Tok.error "unterminated backtick identifier", [])
  else if c = 36 then scanDollarOrParam t
  else if c = 58 then  -- ':'
    match t with
    | [] => (Tok.op "Colon", [])
    | d :: t' =>
      if d = 58 then (Tok.op "DoubleColon", t')
      else if d = 61 then (Tok.op "Assign", t')
      else if isIdStart d then (Tok.param (.named (t.takeWhile isIdCont)), t.dropWhile isIdCont)
      else (Tok.op "Colon", t)
  else if c = 64 then  -- '@'
    match t with
    | [] => (Tok.error "unexpected end after @", [])
    | d :: t' =>
      if d = 62 then (Tok.op "AtGt", t')
      else if isIdStart d then (Tok.param (.named (t.takeWhile isIdCont)), t.dropWhile isIdCont)
      else (Tok.error "invalid @ parameter", t)
  else if c = 63 then  -- '?'
    match t with
    | [] => (Tok.param .anon, [])
    | d :: t' =>
      if d = 124 then (Tok.op "QuestionPipe", t')
      else if d = 38 then (Tok.op "QuestionAmpersand", t')
      else (Tok.param .anon, t)
  else if c = 45 then  -- '-'  (`--` was consumed by `trivia`)
    match t with
    | [] => (Tok.op "Minus", [])
    | d :: t' =>
      if d = 62 then
        match t' with
        | e :: t'' => if e = 62 then (Tok.op "DoubleArrow", t'') else (Tok.op "Arrow", t')
        | [] => (Tok.op "Arrow", [])
      else (Tok.op "Minus", t)
  else if c = 47 then (Tok.op "Slash", t)  -- `/*` was consumed by `trivia`
  else if c = 43 then (Tok.op "Plus", t)
  else if c = 42 then (Tok.op "Star", t)
  else if c = 37 then (Tok.op "Percent", t)
  else if c = 94 then (Tok.op "Caret", t)
  else if c = 38 then  -- '&'
    match t with
    | d :: t' => if d = 38 then (Tok.op "DoubleAmpersand", t') else (Tok.op "Ampersand", t)
    | [] => (Tok.op "Ampersand", [])
  else if c = 124 then  -- '|'
    match t with
    | d :: t' => if d = 124 then (Tok.op "DoublePipe", t') else (Tok.op "Pipe", t)
    | [] => (Tok.op "Pipe", [])
  else if c = 126 then (Tok.op "Tilde", t)
  else if c = 35 then  -- '#'
    match t with
    | [] => (Tok.op "Hash", [])
    | d :: t' =>
      if d = 62 then
        match t' with
        | e :: t'' => if e = 62 then (Tok.op "HashDoubleArrow", t'') else (Tok.op "HashArrow", t')
        | [] => (Tok.op "HashArrow", [])
      else (Tok.op "Hash", t)
  else if c = 61 then  -- '='
    match t with
    | d :: t' => if d = 62 then (Tok.op "FatArrow", t') else (Tok.op "Eq", t)
    | [] => (Tok.op "Eq", [])
  else if c = 60 then  -- '<'
    match t with
    | [] => (Tok.op "Lt", [])
    | d :: t' =>
      if d = 61 then
        match t' with
        | e :: t'' => if e = 62 then (Tok.op "Spaceship", t'') else (Tok.op "LtEq", t')
        | [] => (Tok.op "LtEq", [])
      else if d = 62 then (Tok.op "NotEq", t')
      else if d = 60 then (Tok.op "LeftShift", t')
      else if d = 64 then (Tok.op "LtAt", t')
      else if d = 45 then
        match t' with
        | e :: t'' => if e = 62 then (Tok.op "LtMinusGt", t'') else (Tok.op "Lt", t)
        | [] => (Tok.op "Lt", t)
      else if d = 35 then
        match t' with
        | e :: t'' => if e = 62 then (Tok.op "LtHashGt", t'') else (Tok.op "Lt", t)
        | [] => (Tok.op "Lt", t)
      else (Tok.op "Lt", t)
  else if c = 62 then  -- '>'
    match t with
    | [] => (Tok.op "Gt", [])
    | d :: t' =>
      if d = 61 then (Tok.op "GtEq", t')
      else if d = 62 then (Tok.op "RightShift", t')
      else (Tok.op "Gt", t)
  else if c = 33 then  -- '!'
    match t with
    | d :: t' => if d = 61 then (Tok.op "NotEq", t') else (Tok.error "expected '=' after '!'", t)
    | [] => (Tok.error "expected '=' after '!'", [])
  else if c = 40 then (Tok.op "LParen", t)
  else if c = 41 then (Tok.op "RParen", t)
  else if c = 91 then (Tok.op "LBracket", t)
  else if c = 93 then (Tok.op "RBracket", t)
  else if c = 123 then (Tok.op "LBrace", t)
  else if c = 125 then (Tok.op "RBrace", t)
  else if c = 44 then (Tok.op "Comma", t)
  else if c = 59 then (Tok.op "Semicolon", t)
  else if c = 46 then  -- '.'
    match t with
    | d :: t' =>
      if d = 46 then (Tok.op "DoubleDot", t')
      else if isDigit d then
        let r1 := t.dropWhile isDigit
        let r2 := (scanExp r1).2
        (Tok.float (consumed (c :: t) r2), r2)
      else (Tok.op "Dot", t)
    | [] => (Tok.op "Dot", [])
  else (Tok.error "unexpected character", t)

/-- result of `Lexer::next_token`: the input at `token_start` (after whitespace and comments),
the token, the input at the new `pos` -/
structure Lexed where
  start : List Nat
  tok : Tok
  rest : List Nat
  deriving Repr, DecidableEq

def nextToken (inp : List Nat) : Lexed :=
  match trivia .normal [] inp with
  | .inr cs => ⟨cs, Tok.error "unterminated block comment", []⟩
  | .inl [] => ⟨[], Tok.eof, []⟩
  | .inl (c :: t) => let r := scanTok c t; ⟨c :: t, r.1, r.2⟩

/-- all tokens up to `Eof`.  The `else` branch (a non-Eof token that consumed nothing) only makes the
definition total without fuel; every scanner consumes at least one byte, and the driver's token
loop reports `stuck` if the branch were ever taken (never observed in the correspondence runs).
The theorems of Props/C13 do not depend on its unreachability. -/
def lex (inp : List Nat) : List Tok :=
  let r := nextToken inp
  if r.tok = Tok.eof then []
  else if h : r.rest.length < inp.length then r.tok :: lex r.rest
  else [r.tok]
termination_by inp.length

/-! ### literal printing (`value_to_sql_literal`) -/

/-- `s.replace('\'', "''")` -/
def escape : List Nat → List Nat
  | [] => []
  | c :: t => if c = 39 then 39 :: 39 :: escape t else c :: escape t

/-- `format!("'{}'", escaped)` -/
def quote (s : List Nat) : List Nat := 39 :: (escape s ++ [39])

/-- the parser's `s.replace("''", "'")` (leftmost, non-overlapping) -/
def unescape : List Nat → List Nat
  | [] => []
  | c :: t =>
    if c = 39 then
      match t with
      | c2 :: t2 => if c2 = 39 then 39 :: unescape t2 else c :: c2 :: unescape t2
      | [] => [c]
    else c :: unescape t

def hexDigit (n : Nat) : Nat := if n < 10 then 48 + n else 87 + n

/-- `format!("{:02x}", byte)` for every byte -/
def hexOf : List Nat → List Nat
  | [] => []
  | b :: t => hexDigit (b / 16 % 16) :: hexDigit (b % 16) :: hexOf t

/-- decimal digits of a natural number, most significant first (`u64::to_string`) -/
def natDigitsAux : Nat → Nat → List Nat → List Nat
  | 0, _, acc => acc
  | fuel + 1, n, acc =>
    if n < 10 then (48 + n) :: acc else natDigitsAux fuel (n / 10) ((48 + n % 10) :: acc)

def natDigits (n : Nat) : List Nat := natDigitsAux (n + 1) n []

/-- `i64::to_string` -/
def intToString (i : Int) : List Nat :=
  if i < 0 then 45 :: natDigits i.natAbs else natDigits i.natAbs

/-- bound values the engines bind; finite floats, vectors etc. are printed by Rust's `Display`
and enter the model as the already printed text (`raw`, trusted, see DESIGN §1.1). -/
inductive PVal where
  | null
  | bool (b : Bool)
  | int (i : Int)
  | text (s : List Nat)
  | blob (b : List Nat)
  | nan
  | inf (positive : Bool)
  | raw (printed : List Nat)          -- finite Float: `f.to_string()`
  | quotedRaw (printed : List Nat)    -- Date/Time/Timestamp: `format!("'{}'", n)`
  | uuid (b : List Nat)
  | jsonb (b : List Nat)
  deriving Repr, DecidableEq

def strBytes (s : String) : List Nat := s.toList.map Char.toNat

def valueToLiteral : PVal → List Nat
  | .null => strBytes "NULL"
  | .bool true => strBytes "TRUE"
  | .bool false => strBytes "FALSE"
  | .int i => intToString i
  | .text s => quote s
  | .blob b => 88 :: 39 :: (hexOf b ++ [39])
  | .nan => strBytes "'NaN'"
  | .inf true => strBytes "'Infinity'"
  | .inf false => strBytes "'-Infinity'"
  | .raw p => p
  | .quotedRaw p => 39 :: (p ++ [39])
  | .uuid b =>
    let h := hexOf b
    39 :: (h.take 8 ++ 45 :: (h.drop 8).take 4 ++ 45 :: (h.drop 12).take 4 ++ 45 ::
      (h.drop 16).take 4 ++ 45 :: (h.drop 20).take 12 ++ [39])
  | .jsonb b => 88 :: 39 :: (hexOf b ++ [39])

/-! ### `substitute_parameters` -/

/-- The code copies `sql[last_end .. span.start]` before each parameter token and the tail after
the last one, i.e. every byte that is not part of a parameter token is copied verbatim; the model
copies token by token.  `idx` is `param_idx` (next anonymous/named parameter).
`none` = "parameter index out of range". -/
def substFrom (params : List PVal) (idx : Nat) (inp : List Nat) : Option (List Nat) :=
  let r := nextToken inp
  if r.tok = Tok.eof then some inp
  else if h : r.rest.length < inp.length then
    match r.tok with
    | .param p =>
      let i := match p with
        | .anon => idx
        | .pos n => n - 1
        | .named _ => idx
      let idx' := match p with
        | .pos _ => idx
        | _ => idx + 1
      match params[i]? with
      | none => none
      | some v =>
        (substFrom params idx' r.rest).map
          (fun out => consumed inp r.start ++ valueToLiteral v ++ out)
    | _ => (substFrom params idx r.rest).map (fun out => consumed inp r.rest ++ out)
  else some inp
termination_by inp.length

def substitute (sql : List Nat) (params : List PVal) : Option (List Nat) := substFrom params 0 sql

/-- `count_parameters` -/
def countFrom (maxPos anon : Nat) (inp : List Nat) : Nat × Nat :=
  let r := nextToken inp
  if r.tok = Tok.eof then (maxPos, anon)
  else if h : r.rest.length < inp.length then
    match r.tok with
    | .param (.pos n) => countFrom (max maxPos n) anon r.rest
    | .param _ => countFrom maxPos (anon + 1) r.rest
    | _ => countFrom maxPos anon r.rest
  else (maxPos, anon)
termination_by inp.length

def countParameters (sql : List Nat) : Nat :=
  let r := countFrom 0 0 sql
  if r.1 > 0 then r.1 else r.2

/-! ### integer literal evaluation (`Literal::Integer(s) => s.parse::<i64>()`, unary minus) -/

/-- `str::parse::<i64>` on a digit string produced by the lexer's `Integer` token -/
def parseI64Digits (ds : List Nat) : Option Int :=
  if ds.isEmpty then none
  else if decVal ds ≤ 9223372036854775807 then some (Int.ofNat (decVal ds)) else none

/-- value of the token sequence `[-] Integer` as evaluated by `eval_literal_with_type`
(`UnaryOperator::Minus` applied to the parsed magnitude) -/
def evalIntTokens : List Tok → Option Int
  | [Tok.int ds] => parseI64Digits ds
  | [Tok.op "Minus", Tok.int ds] => (parseI64Digits ds).map (fun i => -i)
  | _ => none

end TurVerif.Lex
