/-
M-code: the engine's undo log (C07).  Transcribed from
  src/database/transaction.rs  `ActiveTransaction` (write_entries / undo_data / savepoints,
      create_savepoint, find_savepoint, rollback_to_savepoint, release_savepoint,
      take_write_entries), `execute_begin/commit/rollback/savepoint/release`,
      `undo_write_entries` (reverse replay), `undo_write_entry` (table B-tree part, header
      row_count, unique-column index part), `abort_active_transaction`;
  src/database/dml/insert.rs  (row key = global `next_row_id` counter, write entry
      `is_insert = true` without undo data, header row_count += n);
  src/database/dml/update.rs / delete.rs  (write entry `is_insert = false` with the old raw value
      as undo data; DELETE overwrites the record with a tombstone and decrements row_count).

The table B-tree is abstracted to a key -> value association list (`get` / `put` / `del`);
a table B-tree key is (table id, row key).  No imports outside core Lean.
-/
namespace TurVerif.Undo

/-- key of a table B-tree entry: (table id, row key); row keys come from one global counter -/
abbrev TKey := Nat × Nat

section Core
variable {α : Type}

def get : List (TKey × α) → TKey → Option α
  | [], _ => none
  | (k', v) :: m, k => if k' = k then some v else get m k

/-- `btree.delete(key)` -/
def del : List (TKey × α) → TKey → List (TKey × α)
  | [], _ => []
  | (k', v) :: m, k => if k' = k then del m k else (k', v) :: del m k

/-- `btree.delete(key); btree.insert(key, v)` (also `btree.update`, and `insert` of a fresh key) -/
def put (m : List (TKey × α)) (k : TKey) (v : α) : List (TKey × α) := (k, v) :: del m k

/-- `WriteEntry` + the parallel `undo_data` slot -/
structure Entry (α : Type) where
  key : TKey
  isInsert : Bool
  undo : Option α

/-- table-B-tree part of `undo_write_entry`: an insert entry deletes the key; any other entry
with undo data deletes the key and re-inserts the old raw value; an entry without undo data is
skipped -/
def undoEntry (m : List (TKey × α)) (e : Entry α) : List (TKey × α) :=
  if e.isInsert then del m e.key
  else match e.undo with
    | some old => put m e.key old
    | none => m

/-- `undo_write_entries`: the log is kept newest first here, so reverse replay is a left fold -/
def undoAll (m : List (TKey × α)) : List (Entry α) → List (TKey × α)
  | [] => m
  | e :: es => undoAll (undoEntry m e) es

/-- `ActiveTransaction`: `log` = write_entries zipped with undo_data, newest first;
`sps` = savepoints in creation order (name, write_entry_idx) -/
structure Txn (α : Type) where
  log : List (Entry α) := []
  sps : List (String × Nat) := []

structure St (α : Type) where
  map : List (TKey × α) := []
  nextRow : Nat := 1
  txn : Option (Txn α) := none

inductive Op (α : Type) where
  /-- INSERT of one row into table `table` (fresh row key from the counter) -/
  | insert (table : Nat) (v : α)
  /-- UPDATE / DELETE of the row at `k`: the stored value becomes `f old`
      (new record, or tombstone of the old record); no effect when the key is absent -/
  | modify (k : TKey) (f : α → α)
  | begin | commit | rollback
  | savepoint (n : String) | rollbackTo (n : String) | release (n : String)

/-- `add_write_entry` / `add_write_entry_with_undo`: only inside a transaction -/
def logEntry (s : St α) (e : Entry α) : St α :=
  match s.txn with
  | some t => { s with txn := some { t with log := e :: t.log } }
  | none => s

/-- `find_savepoint`: position of the FIRST savepoint with that name -/
def findSp : List (String × Nat) → String → Option (Nat × Nat)
  | [], _ => none
  | (m, idx) :: rest, n =>
    if m = n then some (0, idx)
    else match findSp rest n with
      | some (i, x) => some (i + 1, x)
      | none => none

/-- one statement; the Bool is Ok / Err -/
def step (s : St α) : Op α → St α × Bool
  | .insert tb v =>
    let k : TKey := (tb, s.nextRow)
    (logEntry { s with map := put s.map k v, nextRow := s.nextRow + 1 }
      { key := k, isInsert := true, undo := none }, true)
  | .modify k f =>
    match get s.map k with
    | some old =>
      (logEntry { s with map := put s.map k (f old) } { key := k, isInsert := false, undo := some old },
       true)
    | none => (s, true)
  | .begin =>
    match s.txn with
    | some _ => (s, false)
    | none => ({ s with txn := some {} }, true)
  | .commit =>
    match s.txn with
    | none => (s, false)
    | some _ => ({ s with txn := none }, true)
  | .rollback =>
    match s.txn with
    | none => (s, false)
    | some t => ({ s with map := undoAll s.map t.log, txn := none }, true)
  | .savepoint n =>
    match s.txn with
    | none => (s, false)
    | some t => ({ s with txn := some { t with sps := t.sps ++ [(n, t.log.length)] } }, true)
  | .rollbackTo n =>
    match s.txn with
    | none => (s, false)
    | some t =>
      match findSp t.sps n with
      | none => (s, false)
      | some (i, idx) =>
        -- write_entries.drain(idx..) = the newest `length - idx` entries
        let k := t.log.length - idx
        ({ s with map := undoAll s.map (t.log.take k),
                  txn := some { log := t.log.drop k, sps := t.sps.take (i + 1) } }, true)
  | .release n =>
    match s.txn with
    | none => (s, false)
    | some t =>
      match findSp t.sps n with
      | none => (s, false)
      | some (i, _) => ({ s with txn := some { t with sps := t.sps.eraseIdx i } }, true)

def run (s : St α) : List (Op α) → St α
  | [] => s
  | op :: ops => run (step s op).1 ops

end Core

/-! ### The B-tree handle the undo code opens: `BTree::new(storage, 1)`

After the root leaf (page 1) has split, `create_new_root` moves the root to a new page and
page 1 stays the leftmost leaf.  A tree opened at page 1 then sees only the entries of that leaf:
`delete` of a key that lives elsewhere returns false, `insert` puts the entry into page 1
regardless of its key range.  Model: the table is `page1 ++ rest` (scan order), `split` says the
root has moved; the DML code goes through the header's root (both parts), the undo code through
page 1 only. -/
structure Tree (α : Type) where
  page1 : List (TKey × α) := []
  rest : List (TKey × α) := []
  /-- none: the root is still page 1 (then `rest = []`); some s: the root has moved and row keys
  ≥ s live in leaves other than page 1 -/
  sep : Option Nat := none

/-- full scan from the real root (leaf chain order) -/
def Tree.scan {α : Type} (t : Tree α) : List (TKey × α) := t.page1 ++ t.rest

def Tree.inRest {α : Type} (t : Tree α) (k : TKey) : Bool :=
  match t.sep with
  | some s => decide (s ≤ k.2)
  | none => false

/-- point lookup from the real root (header `root_page`) -/
def Tree.get {α : Type} (t : Tree α) (k : TKey) : Option α :=
  if t.inRest k then TurVerif.Undo.get t.rest k else TurVerif.Undo.get t.page1 k

/-- DML write through the real root -/
def Tree.put {α : Type} (t : Tree α) (k : TKey) (v : α) : Tree α :=
  if t.inRest k then { t with rest := TurVerif.Undo.put t.rest k v }
  else { t with page1 := TurVerif.Undo.put t.page1 k v }

/-- `undo_write_entry`: the tree is opened with `BTree::new(storage, 1)`, so every delete /
insert of the undo acts on page 1 only -/
def Tree.undoEntry {α : Type} (t : Tree α) (e : Entry α) : Tree α :=
  { t with page1 := TurVerif.Undo.undoEntry t.page1 e }

/-! ### Concrete engine layer used by the driver: one table, records with the two header flags
the scans and the undo code look at, the header row counter, and the unique-column index. -/

inductive Cell where
  | null
  | int (i : Int)
  | text (code : Nat)
  deriving DecidableEq, Repr, Inhabited

structure Rec where
  locked : Bool      -- LOCK_BIT: written inside a transaction
  deleted : Bool     -- DELETE_BIT: tombstone
  cells : List Cell
  deriving DecidableEq, Repr, Inhabited

/-- a unique-column index (`<col>_pkey` / `<col>_key`): encoded value -> 8-byte row id -/
abbrev UIdx := List (Cell × Nat)

def ixGet : UIdx → Cell → Option Nat
  | [], _ => none
  | (c, r) :: m, k => if c = k then some r else ixGet m k

def ixDel : UIdx → Cell → UIdx
  | [], _ => []
  | (c, r) :: m, k => if c = k then ixDel m k else (c, r) :: ixDel m k

/-- `index_btree.insert` fails with "key already exists" on a present key; the undo code ignores
the error (`let _ =`) -/
def ixIns (m : UIdx) (k : Cell) (r : Nat) : UIdx :=
  match ixGet m k with
  | some _ => m
  | none => m ++ [(k, r)]

structure Eng where
  st : St Rec := {}
  /-- header `row_count` -/
  count : Nat := 0
  /-- column index of the PRIMARY KEY column (none: table without primary key) -/
  pkCol : Option Nat := none
  /-- unique columns that have an index (the PK column and UNIQUE columns), with their index -/
  uidx : List (Nat × UIdx) := []
  deriving Inhabited

def Eng.inTxn (e : Eng) : Bool := e.st.txn.isSome

def cellAt (r : Rec) (i : Nat) : Cell := r.cells.getD i .null

/-- live rows in key order (what `BTreeSource` returns: DELETE_BIT filtered, nothing else) -/
def sortedKeys (m : List (TKey × Rec)) : List (TKey × Rec) :=
  let rec ins (x : TKey × Rec) : List (TKey × Rec) → List (TKey × Rec)
    | [] => [x]
    | y :: ys => if x.1.2 ≤ y.1.2 then x :: y :: ys else y :: ins x ys
  m.foldl (fun acc x => ins x acc) []

def Eng.live (e : Eng) : List (TKey × Rec) := (sortedKeys e.st.map).filter (fun x => !x.2.deleted)

def mapIdx (f : UIdx → UIdx) (col : Nat) (l : List (Nat × UIdx)) : List (Nat × UIdx) :=
  l.map (fun (c, ix) => if c = col then (c, f ix) else (c, ix))

/-- for every unique column: apply `f col value` to its index when the value is not NULL -/
def forUnique (l : List (Nat × UIdx)) (r : Rec) (f : UIdx → Cell → UIdx) : List (Nat × UIdx) :=
  l.map (fun (c, ix) => match cellAt r c with
    | .null => (c, ix)
    | v => (c, f ix v))

/-- INSERT: unique check = presence of the encoded value in the index -/
def Eng.insert (e : Eng) (cells : List Cell) : Eng × Bool :=
  let r : Rec := { locked := e.inTxn, deleted := false, cells := cells }
  let conflict := e.uidx.any (fun (c, ix) => match cellAt r c with
    | .null => false
    | v => (ixGet ix v).isSome)
  if conflict then (e, false) else
  let rowid := e.st.nextRow
  let (st', _) := step e.st (.insert 0 r)
  ({ e with st := st', count := e.count + 1,
            uidx := forUnique e.uidx r (fun ix v => ixIns ix v rowid) }, true)

/-- target rows of UPDATE / DELETE: update.rs and delete.rs collect their rows from the B-tree
without looking at DELETE_BIT, so tombstones match as well (an UPDATE resurrects a deleted row, a
second DELETE decrements row_count again) -/
def rowsWhere (e : Eng) (wcol : Nat) (wval : Cell) : List (TKey × Rec) :=
  let scan := (sortedKeys e.st.map).filter (fun x => cellAt x.2 wcol = wval)
  -- `WHERE <pk> = literal` takes the primary-key point-lookup path first: the index entry leads to ONE
  -- row (tombstones of the same key value, whose entries were removed, are not visited); only when
  -- the index has no entry for the value does the statement fall back to the scan
  if e.pkCol = some wcol then
    match (e.uidx.find? (fun x => x.1 == wcol)).bind (fun x => ixGet x.2 wval) with
    | some rid =>
      match (sortedKeys e.st.map).find? (fun x => x.1.2 == rid) with
      | some row => [row]
      | none => scan
    | none => scan
  else scan

/-- UPDATE t SET scol = sval WHERE wcol = wval  (scol not a unique column) -/
def Eng.update (e : Eng) (wcol : Nat) (wval : Cell) (scol : Nat) (sval : Cell) : Eng × Nat :=
  let rows := rowsWhere e wcol wval
  let inT := e.inTxn
  let st' := rows.foldl (fun st x =>
    (step st (.modify x.1 (fun old =>
      { locked := inT, deleted := false, cells := old.cells.set scol sval }))).1) e.st
  ({ e with st := st' }, rows.length)

/-- DELETE FROM t WHERE wcol = wval: tombstones, unique-index entries removed, row_count -= n -/
def Eng.delete (e : Eng) (wcol : Nat) (wval : Cell) : Eng × Nat :=
  let rows := rowsWhere e wcol wval
  let inT := e.inTxn
  let st' := rows.foldl (fun st x =>
    (step st (.modify x.1 (fun old => { old with locked := inT, deleted := true }))).1) e.st
  let uidx' := rows.foldl (fun ux x => forUnique ux x.2 (fun ix v => ixDel ix v)) e.uidx
  ({ e with st := st', count := e.count - rows.length, uidx := uidx' }, rows.length)

/-- index / counter part of `undo_write_entry` for one entry, given the table map before the
entry is undone -/
def undoSide (pkCol : Option Nat) (m : List (TKey × Rec)) (cu : Nat × List (Nat × UIdx))
    (en : Entry Rec) : Nat × List (Nat × UIdx) :=
  if en.isInsert then
    match get m en.key with
    | some cur => (cu.1 - 1, forUnique cu.2 cur (fun ix v => ixDel ix v))
    | none => cu
  else match en.undo with
    | some old =>
      -- re-insert the old row's entries with `pk as rowid`, only when the PK value is an Int
      match pkCol with
      | some p => match cellAt old p with
        | .int pkv => (cu.1, forUnique cu.2 old (fun ix v => ixIns ix v pkv.toNat))
        | _ => cu
      | none => cu
    | none => cu

def undoAllSide (pkCol : Option Nat) (m : List (TKey × Rec)) (cu : Nat × List (Nat × UIdx)) :
    List (Entry Rec) → Nat × List (Nat × UIdx)
  | [] => cu
  | en :: es => undoAllSide pkCol (undoEntry m en) (undoSide pkCol m cu en) es

/-- entries a ROLLBACK [TO n] will undo -/
def Eng.pending (e : Eng) (sp : Option String) : List (Entry Rec) :=
  match e.st.txn with
  | none => []
  | some t => match sp with
    | none => t.log
    | some n => match findSp t.sps n with
      | none => []
      | some (_, idx) => t.log.take (t.log.length - idx)

def Eng.txnOp (e : Eng) (op : Op Rec) (sp : Option String) (isRollback : Bool) : Eng × Bool :=
  let pend := if isRollback then e.pending sp else []
  let (st', ok) := step e.st op
  if ok && isRollback then
    let cu := undoAllSide e.pkCol e.st.map (e.count, e.uidx) pend
    ({ e with st := st', count := cu.1, uidx := cu.2 }, true)
  else ({ e with st := st' }, ok)

end TurVerif.Undo
