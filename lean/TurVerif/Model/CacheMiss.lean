/-
M-code LTS of the miss path of `PageCache::get_or_insert` (src/storage/cache.rs) for ONE key and
any number of threads:
  (1) under the shard READ lock: if the key is cached, pin it and return; otherwise release the lock,
  (2) take the shard WRITE lock; re-check: if the key has been inserted meanwhile, pin that entry and
      return; otherwise run `init`, insert a new entry with pin count 1 and return.
`recheck = false` is the variant without the second lookup.  One step = one critical section.
Evictions are not part of this model (the sequential cache model `TurVerif.Sieve` covers them).
No imports.
-/
namespace TurVerif.CacheMiss

inductive Pc where
  | start | missed | done
  deriving DecidableEq, Repr, Inhabited

structure State where
  recheck : Bool
  /-- pin counts of the entries holding the key (the index points at the newest) -/
  entries : List Nat := []
  /-- how often `init` ran -/
  inits : Nat := 0
  threads : List Pc
  deriving DecidableEq, Repr, Inhabited

def init (recheck : Bool) (n : Nat) : State := { recheck := recheck, threads := List.replicate n .start }

/-- pin the entry the index points at (the newest = head of the list) -/
def pinHead : List Nat → List Nat
  | [] => []
  | p :: rest => (p + 1) :: rest

def step (s : State) (tid : Nat) : Option State :=
  match s.threads[tid]? with
  | none => none
  | some .start =>
    if s.entries = [] then some { s with threads := s.threads.set tid .missed }
    else some { s with entries := pinHead s.entries, threads := s.threads.set tid .done }
  | some .missed =>
    if s.recheck ∧ s.entries ≠ [] then
      some { s with entries := pinHead s.entries, threads := s.threads.set tid .done }
    else some { s with entries := 1 :: s.entries, inits := s.inits + 1, threads := s.threads.set tid .done }
  | some .done => none

def run (s : State) : List Nat → State
  | [] => s
  | t :: rest => run ((step s t).getD s) rest

def doneCount (s : State) : Nat := (s.threads.filter (· == .done)).length

end TurVerif.CacheMiss
