/-
M-code model of the engine's INTEGER arithmetic as it is compiled in the dev profile
(overflow checks on; the profile the test suite and this harness use):

* `CompiledPredicate::eval_binary_op` / `eval_arithmetic_op` / `eval_unary_op` (src/sql/predicate.rs):
  `Plus`/`Minus`/`Multiply` are the raw `a + b`, `a - b`, `a * b` on `i64`; `Divide`/`Modulo` are
  `a / b`, `a % b` guarded only by `b != 0`; `Power` is `a.pow(*b as u32)` for `b >= 0` and a float
  `powi` otherwise; unary minus is `-n`.
* the same raw operators are used by the expression evaluators in src/sql/executor.rs
  (`Value::Int(a + b)` …) and src/database/dml/update.rs / convert.rs (`OwnedValue::Int(-i)`).

A Rust arithmetic-overflow panic is the explicit outcome `panic msg`, `msg` being the panic message
of the operator.  `i64::pow` is transcribed from core's `int_macros.rs` (the loop used when the
exponent is not a compile-time constant).

No imports outside core.
-/
namespace TurVerif.ArithImpl

inductive Out
  | int (v : Int)
  | float            -- a DOUBLE result (value not modelled here)
  | null             -- `None` / `Value::Null` (division by zero)
  | panic (msg : String)
deriving DecidableEq, Repr

def i64Min : Int := -9223372036854775808
def i64Max : Int := 9223372036854775807

def inRange (x : Int) : Bool := decide (i64Min ≤ x) && decide (x ≤ i64Max)

inductive Op
  | add | sub | mul | div | mod | pow
deriving DecidableEq, Repr

def msgAdd := "attempt to add with overflow"
def msgSub := "attempt to subtract with overflow"
def msgMul := "attempt to multiply with overflow"
def msgDiv := "attempt to divide with overflow"
def msgRem := "attempt to calculate the remainder with overflow"
def msgNeg := "attempt to negate with overflow"

/-- an `i64` operator result under `overflow-checks = on` -/
def ovf (msg : String) (x : Int) : Out := if inRange x then .int x else .panic msg

/-- `i64::pow` (core::num::int_macros, runtime-exponent loop); `exp ≠ 0` on entry.
```
loop { if (exp & 1) == 1 { acc = acc * base; if exp == 1 { return acc; } }
       exp /= 2; base = base * base; }
```
`fuel` bounds the iterations (33 suffice for a `u32`); `panic "fuel"` is unreachable. -/
def powLoop : Nat → Nat → Int → Int → Out
  | 0, _, _, _ => .panic "fuel"
  | fuel + 1, exp, base, acc =>
    if exp % 2 = 1 then
      let acc' := acc * base
      if !inRange acc' then .panic msgMul
      else if exp = 1 then .int acc'
      else
        let b2 := base * base
        if !inRange b2 then .panic msgMul else powLoop fuel (exp / 2) b2 acc'
    else
      let b2 := base * base
      if !inRange b2 then .panic msgMul else powLoop fuel (exp / 2) b2 acc

/-- `a.pow(b as u32)` for `b >= 0`: the cast truncates to the low 32 bits -/
def powImpl (a b : Int) : Out :=
  if 0 ≤ b then
    let e := b.toNat % 4294967296
    if e = 0 then .int 1 else powLoop 33 e a 1
  else .float

/-- `eval_binary_op` on `(Value::Int(a), Value::Int(b))` -/
def binImpl (op : Op) (a b : Int) : Out :=
  match op with
  | .add => ovf msgAdd (a + b)
  | .sub => ovf msgSub (a - b)
  | .mul => ovf msgMul (a * b)
  | .div => if b = 0 then .null else if a = i64Min ∧ b = -1 then .panic msgDiv else .int (Int.tdiv a b)
  | .mod => if b = 0 then .null else if a = i64Min ∧ b = -1 then .panic msgRem else .int (Int.tmod a b)
  | .pow => powImpl a b

/-- `eval_unary_op` `Minus` on `Value::Int(n)` -/
def negImpl (n : Int) : Out := ovf msgNeg (-n)

def Out.isPanic : Out → Bool
  | .panic _ => true
  | _ => false

end TurVerif.ArithImpl
