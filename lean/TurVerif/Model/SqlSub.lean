import TurVerif.Model.Sql
/-!
M-spec: subqueries (C18).  Extends the reference semantics `TurVerif.Sql` with
`x [NOT] IN (subquery)`, `[NOT] EXISTS (subquery)` and scalar subqueries, correlated or not, in
the WHERE clause and in the select list, and derived tables in FROM.

Correlation is environment extension: a subquery over table `u` is evaluated once per outer
environment `env`; its WHERE clause and its select item see the row `r ++ env` (the inner row's
columns first, then the columns of the enclosing query, then those of the query enclosing that
one …), so `col i` with `i < width u` is an inner column and `col (width u + j)` is column `j` of
the enclosing environment.

The evaluator is depth-generic: `evalStep rec` gives the meaning of one node in terms of an
evaluator `rec` for its children (and for the expressions inside its subquery); `evalS fuel` ties
the knot with a fuel that bounds the nesting depth (fuel exhaustion is the error `other`, never a
value).  The laws in Props/C18 are proved for `evalStep rec` with `rec` arbitrary, hence for
every nesting depth.

Scalar subquery: 0 rows -> NULL, 1 row -> that value, more than one row -> error `card`.
`x IN (subquery)` is the 3VL OR-fold `Sql.inFold` of `x = v` over the subquery's values, `NOT IN`
its 3VL negation: so `x NOT IN (…NULL…)` is never TRUE.  EXISTS is two-valued.
-/
namespace TurVerif.SqlSub
open TurVerif.Sql

mutual
/-- expressions with subqueries; `base` embeds the subquery-free language of `TurVerif.Sql` -/
inductive SExpr where
  | base (e : Expr)
  | not (e : SExpr)
  | bin (op : BinOp) (a b : SExpr)
  | isNull (e : SExpr) (negated : Bool)
  | inSub (e : SExpr) (q : SQuery) (negated : Bool)
  | exists (q : SQuery) (negated : Bool)
  | scalar (q : SQuery)
/-- `SELECT item FROM tbl WHERE whr` (one output column) -/
inductive SQuery where
  | sel (tbl : String) (whr : SExpr) (item : SItem)
/-- the single select item of a subquery -/
inductive SItem where
  | expr (e : SExpr)
  | agg (fn : AggFn) (e : SExpr)
  | countStar
end

instance : Inhabited SExpr := ⟨.base (.lit .null)⟩

/-- value-level binary operator (the `.bin` case of `Sql.eval`) -/
def applyBin (op : BinOp) (va vb : Val) : Except Err Val :=
  match op with
  | .and => match va.truth, vb.truth with
      | .ok x, .ok y => .ok (Val.ofTri (x.and y))
      | .error e, _ => .error e
      | _, .error e => .error e
  | .or => match va.truth, vb.truth with
      | .ok x, .ok y => .ok (Val.ofTri (x.or y))
      | .error e, _ => .error e
      | _, .error e => .error e
  | .eq | .ne | .lt | .le | .gt | .ge => cmpVals op va vb
  | .concat => concatV va vb
  | _ => arith op va vb

/-- scalar subquery result from the subquery's rows -/
def scalarOf : List Val → Except Err Val
  | [] => .ok .null
  | [v] => .ok v
  | _ :: _ :: _ => .error .card

/-- aggregate over the already evaluated argument values (`n` = number of rows) -/
def aggOfVals (fn : AggFn) (n : Nat) (vals : List Val) : Except Err Val :=
  let vs := vals.filter (fun v => !v.isNull)
  match fn with
  | .countStar => .ok (.int n)
  | .count => .ok (.int vs.length)
  | .sum => sumVals vs
  | .avg => if vs.isEmpty then .ok .null else .ok (.flt (sumRat vs / (vs.length : Rat)))
  | .min => .ok (minMax false vs)
  | .max => .ok (minMax true vs)

/-- rows `r` of `rows` for which `p (r ++ env)` is TRUE -/
def filterEnv (ev : Row → Except Err Val) (env : Row) : List Row → Except Err (List Row)
  | [] => .ok []
  | r :: rs =>
    match ev (r ++ env), filterEnv ev env rs with
    | .ok v, .ok out =>
      match v.truth with
      | .ok tv => .ok (if tv.isTrue then r :: out else out)
      | .error e => .error e
    | .error e, _ => .error e
    | _, .error e => .error e

/-- value of `f (r ++ env)` for every row -/
def mapEnv (ev : Row → Except Err Val) (env : Row) : List Row → Except Err (List Val)
  | [] => .ok []
  | r :: rs =>
    match ev (r ++ env), mapEnv ev env rs with
    | .ok v, .ok out => .ok (v :: out)
    | .error e, _ => .error e
    | _, .error e => .error e

/-- the list of values a subquery yields under the outer environment `env` -/
def subVals (rec : Row → SExpr → Except Err Val) (db : Db) (env : Row) : SQuery → Except Err (List Val)
  | .sel tbl whr item =>
    match db.find tbl with
    | none => .error .missing
    | some t =>
      match filterEnv (fun r => rec r whr) env t.rows with
      | .error e => .error e
      | .ok rows =>
        match item with
        | .expr e => mapEnv (fun r => rec r e) env rows
        | .countStar => .ok [.int rows.length]
        | .agg fn e =>
          match mapEnv (fun r => rec r e) env rows with
          | .error x => .error x
          | .ok vals => match aggOfVals fn rows.length vals with
            | .error x => .error x
            | .ok v => .ok [v]

/-- meaning of one node, children evaluated by `rec` -/
def evalStep (rec : Row → SExpr → Except Err Val) (db : Db) (env : Row) : SExpr → Except Err Val
  | .base e => eval env e
  | .not e => match rec env e with
      | .error x => .error x
      | .ok v => match v.truth with
        | .error x => .error x
        | .ok tv => .ok (Val.ofTri tv.not)
  | .bin op a b =>
    match rec env a, rec env b with
    | .error x, _ => .error x
    | _, .error x => .error x
    | .ok va, .ok vb => applyBin op va vb
  | .isNull e negated => match rec env e with
      | .error x => .error x
      | .ok v => .ok (.bool (v.isNull != negated))
  | .inSub e q negated =>
    match rec env e, subVals rec db env q with
    | .error x, _ => .error x
    | _, .error x => .error x
    | .ok v, .ok vs => match inFold v vs with
      | .error x => .error x
      | .ok tv => .ok (Val.ofTri (if negated then tv.not else tv))
  | .exists q negated =>
    match subVals rec db env q with
    | .error x => .error x
    | .ok vs => .ok (.bool ((!vs.isEmpty) != negated))
  | .scalar q =>
    match subVals rec db env q with
    | .error x => .error x
    | .ok vs => scalarOf vs

/-- evaluator with nesting depth bounded by the fuel -/
def evalS : Nat → Db → Row → SExpr → Except Err Val
  | 0 => fun _ _ _ => .error .other
  | n + 1 => fun db env e => evalStep (evalS n db) db env e

/-! ## top-level query: `SELECT items FROM source WHERE whr` -/
inductive SFrom where
  | table (name : String)
  /-- derived table `(SELECT items FROM name WHERE whr) AS d` -/
  | derived (name : String) (whr : Expr) (items : List Expr)

structure STop where
  frm : SFrom
  whr : SExpr
  items : List SExpr

def fromRows (db : Db) : SFrom → Except Err (List Row)
  | .table n => match db.find n with
    | some t => .ok t.rows
    | none => .error .missing
  | .derived n whr items => match db.find n with
    | none => .error .missing
    | some t => match filterRows whr t.rows with
      | .error e => .error e
      | .ok rows => projectRows items rows

def evalItems (ev : SExpr → Except Err Val) : List SExpr → Except Err (List Val)
  | [] => .ok []
  | e :: es => match ev e, evalItems ev es with
    | .ok v, .ok vs => .ok (v :: vs)
    | .error x, _ => .error x
    | _, .error x => .error x

def projectTop (fuel : Nat) (db : Db) (items : List SExpr) : List Row → Except Err (List Row)
  | [] => .ok []
  | r :: rs => match evalItems (evalS fuel db r) items, projectTop fuel db items rs with
    | .ok v, .ok out => .ok (v :: out)
    | .error x, _ => .error x
    | _, .error x => .error x

def runTop (fuel : Nat) (db : Db) (q : STop) : Except Err (List Row) :=
  match fromRows db q.frm with
  | .error e => .error e
  | .ok rows =>
    match filterEnv (fun r => evalS fuel db r q.whr) [] rows with
    | .error e => .error e
    | .ok kept => projectTop fuel db q.items kept

end TurVerif.SqlSub
