/-
M-code model of /repo/src/storage/freelist.rs  (Freelist::allocate / release /
create_new_trunk / initialize_trunk) over a page store.

A page is seen through the trunk layout only: byte 0 (`ptype`, the PageHeader type byte),
`next_trunk` (bytes 16..20), `count` (bytes 20..24) and the entry array (bytes 24..), slot `i`
at offset 24+4*i.  Slots keep their physical (possibly stale) contents: `release` writes slot
`count`, `allocate` only decrements `count`, `initialize_trunk`/`create_new_trunk` rewrite the two
headers and leave the entry area as it was.  A page that was never written is all zero.

`page`/`page_mut` of the storage fail for `page_no ≥ npages`; that is the `err` outcome.
The self-recursion of `allocate` (empty head trunk with a successor) is bounded by fuel
`npages+1`; running out of fuel is the explicit outcome `diverge` (a cyclic chain makes the real
code recurse forever); `Props/C34` proves it unreachable from states the freelist itself builds.

Two variants of `allocate` are modelled:
* `allocate`      — the code as pinned in /repo;
* `allocateFixed` — the code after `fix_freelist.patch` (an emptied trunk page is itself handed
                    out; `head_page == 0` means empty).
`release` is the same in both.
-/
namespace TurVerif.Freelist

/-- (PAGE_SIZE - PAGE_HEADER_SIZE - TRUNK_HEADER_SIZE) / 4 = (16384 - 16 - 8) / 4 -/
def TRUNK_MAX : Nat := 4090

/-- `PageType::FreeList` -/
def PT_FREELIST : Nat := 48

structure Page where
  ptype : Nat
  next : Nat
  count : Nat
  slots : List Nat
  deriving Repr

def Page.zero : Page := ⟨0, 0, 0, []⟩

/-- physical slot `i` of the entry area; unwritten slots are zero -/
def Page.slot (pg : Page) (i : Nat) : Nat := pg.slots.getD i 0

/-- write slot `i` (zero-extending the stored prefix) -/
def setSlot : List Nat → Nat → Nat → List Nat
  | [], 0, v => [v]
  | [], i + 1, v => 0 :: setSlot [] i v
  | _ :: xs, 0, v => v :: xs
  | x :: xs, i + 1, v => x :: setSlot xs i v

def lookup : List (Nat × Page) → Nat → Page
  | [], _ => Page.zero
  | (q, v) :: r, p => if q = p then v else lookup r p

structure St where
  head : Nat
  freeCount : Nat
  npages : Nat
  pages : List (Nat × Page)

def St.init (npages : Nat) : St := ⟨0, 0, npages, []⟩

def St.page (s : St) (p : Nat) : Page := lookup s.pages p

def St.setPage (s : St) (p : Nat) (v : Page) : St :=
  { s with pages := (p, v) :: s.pages.filter (fun e => e.1 != p) }

inductive Res where
  | page (p : Nat)
  | none
  | err
  | diverge
  deriving Repr, DecidableEq

/-- `Freelist::allocate` as pinned.  -/
def allocAux : Nat → St → St × Res
  | 0, s => (s, .diverge)
  | fuel + 1, s =>
    if s.freeCount = 0 then (s, .none)                       -- is_empty()
    else if s.npages ≤ s.head then (s, .err)                 -- storage.page_mut(head_page)?
    else
      let pg := s.page s.head
      if pg.count = 0 then
        if pg.next = 0 then ({ s with head := 0, freeCount := 0 }, .none)
        else allocAux fuel { s with head := pg.next }         -- self.head_page = next; self.allocate()
      else if TRUNK_MAX ≤ pg.count - 1 then (s, .err)        -- ensure!(entry_offset + 4 <= PAGE_SIZE)
      else
        let p := pg.slot (pg.count - 1)
        let s1 := s.setPage s.head { pg with count := pg.count - 1 }
        let s2 := { s1 with freeCount := s.freeCount - 1 }
        (if pg.count - 1 = 0 then { s2 with head := pg.next } else s2, .page p)

def allocate (s : St) : St × Res := allocAux (s.npages + 1) s

/-- `Freelist::allocate` after fix_freelist.patch. -/
def allocateFixed (s : St) : St × Res :=
  if s.freeCount = 0 ∨ s.head = 0 then (s, .none)
  else if s.npages ≤ s.head then (s, .err)
  else
    let pg := s.page s.head
    if pg.count = 0 then
      ({ s with head := pg.next, freeCount := s.freeCount - 1 }, .page s.head)
    else if TRUNK_MAX ≤ pg.count - 1 then (s, .err)
    else
      let p := pg.slot (pg.count - 1)
      let s1 := s.setPage s.head { pg with count := pg.count - 1 }
      ({ s1 with freeCount := s.freeCount - 1 }, .page p)

/-- header rewrite done by `initialize_trunk` / `create_new_trunk`: PageHeader::new(FreeList)
    and a TrunkHeader with `count = 0`; the entry area is not touched. -/
def trunkInit (old : Page) (next : Nat) : Page :=
  { ptype := PT_FREELIST, next := next, count := 0, slots := old.slots }

/-- `Freelist::release`; `true` = `Ok(())`, `false` = storage error (state unchanged). -/
def release (s : St) (p : Nat) : St × Bool :=
  if s.head = 0 then
    -- initialize_trunk
    if s.npages ≤ p then (s, false)
    else ({ (s.setPage p (trunkInit (s.page p) 0)) with head := p, freeCount := 1 }, true)
  else if s.npages ≤ s.head then (s, false)
  else
    let pg := s.page s.head
    if TRUNK_MAX ≤ pg.count then
      -- create_new_trunk
      if s.npages ≤ p then (s, false)
      else ({ (s.setPage p (trunkInit (s.page p) s.head)) with
                head := p, freeCount := s.freeCount + 1 }, true)
    else
      ({ (s.setPage s.head { pg with slots := setSlot pg.slots pg.count p, count := pg.count + 1 })
           with freeCount := s.freeCount + 1 }, true)

/-- the client (owner of a page) overwrites it -/
def clientWrite (s : St) (p : Nat) (v : Page) : St :=
  if s.npages ≤ p then s else s.setPage p v

/-- entries of a trunk view, top of stack first: `[slot (k-1), …, slot 0]` -/
def ents (pg : Page) : Nat → List Nat
  | 0 => []
  | k + 1 => pg.slot k :: ents pg k

/-- walk of the trunk chain from `h` (bounded), as the list of trunk page numbers -/
def chainFrom (s : St) : Nat → Nat → List Nat
  | 0, _ => []
  | fuel + 1, h => if h = 0 ∨ s.npages ≤ h then [] else h :: chainFrom s fuel (s.page h).next

end TurVerif.Freelist
