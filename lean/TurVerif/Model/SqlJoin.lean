import TurVerif.Model.Sql
/-!
M-code: the hash join / grace hash join operators of `src/sql/executor.rs`
(`DynamicExecutor::StreamingHashJoin`, `DynamicExecutor::GraceHashJoin`, helpers
`hash_keys_static` / `keys_match_static` of `src/sql/util.rs`, spill through
`src/sql/partition_spiller.rs`), and the M-spec they are compared with: the nested-loop join over
an arbitrary match predicate (`nlJoinP`), which is `TurVerif.Sql.join` when the predicate is the
3VL truth of the ON expression.

What is transcribed:
* the key of a row is the list of the values at the key indices (`row.get(idx)`, absent index
  skipped by the hash, and a mismatch for `keys_match_static`);
* `keys_match_static`: different arity -> false; a NULL on either side -> false; otherwise
  `Value::compare(l, r) == Some(Equal)` (INT/DOUBLE compare by value, other cross-type pairs are
  unequal);
* hash table lookup: candidates are the build rows with the *same hash value* as the probe row
  (bucket = `HashMap<u64, Vec<idx>>`), in build order, filtered by `keys_match_static`;
* emission order of `StreamingHashJoin` (not swapped, build = left input): for every probe row in
  input order its matches `build ++ probe` in build order; a probe row without a match is emitted
  NULL-extended on the left for RIGHT/FULL; after the last probe row the build rows that never
  matched are emitted NULL-extended on the right for LEFT/FULL;
* `GraceHashJoin`: both inputs are split into `n` partitions by `hash(key) % n`, kept in input
  order inside a partition (in memory, or written to / read back from a spill file: `sp` is the
  row transformation of one spill round trip, `RowSerde` serialise+deserialise, the identity for
  the in-memory path); partition pairs are joined one after the other exactly like the streaming
  join (left partition = build side), unmatched build rows are emitted per partition.
The hash function is a parameter `h : List Val → Nat` (the code uses SipHash over `Value::hash_to`).
No imports outside the project's core-only model files.
-/
namespace TurVerif.SqlJoin
open TurVerif.Sql

/-- `Value::compare(a, b) == Some(Ordering::Equal)` on the model's value kinds -/
def keyValEq (a b : Val) : Bool :=
  match Val.cmp a b with
  | .ok (some .eq) => true
  | _ => false

/-- the values hashed by `hash_keys_static`: the values at the key indices, absent ones skipped -/
def keyVals (idx : List Nat) (r : Row) : List Val := idx.filterMap (fun i => r[i]?)

/-- the per-key loop of `keys_match_static` -/
def keysMatchGo (l r : Row) : List Nat → List Nat → Bool
  | li :: ls, ri :: rs =>
    (match l[li]?, r[ri]? with
     | some a, some b => keyValEq a b
     | _, _ => false) && keysMatchGo l r ls rs
  | _, _ => true

/-- `keys_match_static(left, right, left_key_indices, right_key_indices)` -/
def keysMatch (lk rk : List Nat) (l r : Row) : Bool :=
  lk.length == rk.length && keysMatchGo l r lk rk

/-- bucket lookup + `keys_match_static` filter: the build rows joined with probe row `p` -/
def hashMatch (h : List Val → Nat) (lk rk : List Nat) (b p : Row) : Bool :=
  h (keyVals lk b) == h (keyVals rk p) && keysMatch lk rk b p

def isRightish : JoinKind → Bool
  | .right => true | .full => true | _ => false
def isLeftish : JoinKind → Bool
  | .left => true | .full => true | _ => false

/-- rows emitted while probe row `p` is current -/
def probeOut (k : JoinKind) (h : List Val → Nat) (lk rk : List Nat) (wl : Nat)
    (build : List Row) (p : Row) : List Row :=
  let ms := build.filter (fun b => hashMatch h lk rk b p)
  if ms.isEmpty then (if isRightish k then [nulls wl ++ p] else [])
  else ms.map (fun b => b ++ p)

/-- build rows whose `build_matched` flag is still false after all probe rows -/
def buildUnmatched (k : JoinKind) (h : List Val → Nat) (lk rk : List Nat) (wr : Nat)
    (build probe : List Row) : List Row :=
  if isLeftish k then
    (build.filter (fun b => !(probe.any (fun p => hashMatch h lk rk b p)))).map (fun b => b ++ nulls wr)
  else []

/-- `DynamicExecutor::StreamingHashJoin` (build = left input, probe = right input) -/
def hashJoin (k : JoinKind) (h : List Val → Nat) (lk rk : List Nat) (wl wr : Nat)
    (build probe : List Row) : List Row :=
  probe.flatMap (probeOut k h lk rk wl build) ++ buildUnmatched k h lk rk wr build probe

/-- rows of one input that go to partition `p` (input order kept) -/
def partition (n : Nat) (h : List Val → Nat) (idx : List Nat) (p : Nat) (rows : List Row) : List Row :=
  rows.filter (fun r => h (keyVals idx r) % n == p)

/-- `DynamicExecutor::GraceHashJoin` with `n` partitions; `sp` = one spill round trip of a row -/
def graceJoin (n : Nat) (sp : Row → Row) (k : JoinKind) (h : List Val → Nat) (lk rk : List Nat)
    (wl wr : Nat) (left right : List Row) : List Row :=
  (List.range n).flatMap (fun p =>
    hashJoin k h lk rk wl wr ((partition n h lk p left).map sp) ((partition n h rk p right).map sp))

/-! ## M-spec: nested loop join over a match predicate -/

/-- matches of left row `l`, in right order -/
def nlMatches (m : Row → Row → Bool) (l : Row) (rs : List Row) : List Row :=
  (rs.filter (fun r => m l r)).map (fun r => l ++ r)

def nlInner (m : Row → Row → Bool) (ls rs : List Row) : List Row :=
  ls.flatMap (fun l => nlMatches m l rs)

def nlLeft (m : Row → Row → Bool) (wr : Nat) (ls rs : List Row) : List Row :=
  ls.flatMap (fun l => if (nlMatches m l rs).isEmpty then [l ++ nulls wr] else nlMatches m l rs)

def nlRightOnly (m : Row → Row → Bool) (wl : Nat) (ls rs : List Row) : List Row :=
  (rs.filter (fun r => !(ls.any (fun l => m l r)))).map (fun r => nulls wl ++ r)

/-- the SQL-defined join result for a two-valued match predicate (`m l r` = "ON is TRUE") -/
def nlJoinP (k : JoinKind) (m : Row → Row → Bool) (wl wr : Nat) (ls rs : List Row) : List Row :=
  match k with
  | .cross => nlInner (fun _ _ => true) ls rs
  | .inner => nlInner m ls rs
  | .left => nlLeft m wr ls rs
  | .right => nlInner m ls rs ++ nlRightOnly m wl ls rs
  | .full => nlLeft m wr ls rs ++ nlRightOnly m wl ls rs

/-- the ON expression of an equi-join on the key columns: `l.k₁ = r.k₁ AND …` over `l ++ r`
(`wl` = width of the left rows) -/
def eqOn (wl : Nat) : List Nat → List Nat → Expr
  | li :: ls, ri :: rs => .bin .and (.bin .eq (.col li) (.col (wl + ri))) (eqOn wl ls rs)
  | _, _ => .lit (.bool true)

end TurVerif.SqlJoin
