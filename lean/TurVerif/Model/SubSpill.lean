/-
M-code model of the second spill format: `MaterializedRow::serialize` / `deserialize`
(/repo/src/sql/subquery/spill.rs), the length-free tag/little-endian format that
`SpillableBuffer` writes to its temp file and reads back through a `BufReader`.

Numbers are bit patterns (`Nat`), `to_le_bytes` is `leBytes w`, `from_le_bytes` is `leVal`.
The reader is a `Read` stream: `read_exact` of `n` bytes either consumes `n` bytes or fails with
an I/O error (`eof`); there is no indexing, hence no out-of-bounds outcome in this model.
`String::from_utf8` is `RowSerde.utf8Valid`.
-/
import TurVerif.Model.RowSerde
namespace TurVerif.SubSpill
open TurVerif.RowSerde (utf8Valid)

def leBytes : Nat → Nat → List Nat
  | 0, _ => []
  | w + 1, v => (v % 256) :: leBytes w (v / 256)

def leVal : List Nat → Nat
  | [] => 0
  | b :: bs => b + 256 * leVal bs

def u32 (n : Nat) : Nat := n % 4294967296

inductive OV where
  | null
  | bool (b : Bool)
  | int (bits : Nat)
  | float (bits : Nat)
  | text (utf8 : List Nat)
  | blob (bytes : List Nat)
  | vector (f32s : List Nat)
  | date (bits : Nat)                      -- i32
  | time (bits : Nat)                      -- i64
  | timestamp (bits : Nat)                 -- i64
  | timestamptz (micros offset : Nat)      -- i64, i32
  | uuid (b : List Nat)
  | macaddr (b : List Nat)
  | inet4 (b : List Nat)
  | inet6 (b : List Nat)
  | interval (micros days months : Nat)
  | point (x y : Nat)
  | box (l0 l1 h0 h1 : Nat)
  | circle (c0 c1 r : Nat)
  | jsonb (bytes : List Nat)
  | decimal (digits scale : Nat)           -- i128, i16
  | enum (typeId ordinal : Nat)            -- u16, u16
  | toast (bytes : List Nat)
  deriving Repr, DecidableEq

def serializeValue : OV → List Nat
  | .null => [0]
  | .bool b => [1, if b then 1 else 0]
  | .int i => 2 :: leBytes 8 i
  | .float f => 3 :: leBytes 8 f
  | .text s => 4 :: (leBytes 4 (u32 s.length) ++ s)
  | .blob b => 5 :: (leBytes 4 (u32 b.length) ++ b)
  | .vector v => 6 :: (leBytes 4 (u32 v.length) ++ v.flatMap (leBytes 4))
  | .date d => 7 :: leBytes 4 d
  | .time t => 8 :: leBytes 8 t
  | .timestamp t => 9 :: leBytes 8 t
  | .timestamptz m o => 10 :: (leBytes 8 m ++ leBytes 4 o)
  | .uuid u => 11 :: u
  | .macaddr m => 12 :: m
  | .inet4 ip => 13 :: ip
  | .inet6 ip => 14 :: ip
  | .interval m d mo => 15 :: (leBytes 8 m ++ (leBytes 4 d ++ leBytes 4 mo))
  | .point x y => 16 :: (leBytes 8 x ++ leBytes 8 y)
  | .box a b c d => 17 :: (leBytes 8 a ++ (leBytes 8 b ++ (leBytes 8 c ++ leBytes 8 d)))
  | .circle a b r => 18 :: (leBytes 8 a ++ (leBytes 8 b ++ leBytes 8 r))
  | .jsonb b => 19 :: (leBytes 4 (u32 b.length) ++ b)
  | .decimal d s => 20 :: (leBytes 16 d ++ leBytes 2 s)
  | .enum t o => 21 :: (leBytes 2 t ++ leBytes 2 o)
  | .toast b => 22 :: (leBytes 4 (u32 b.length) ++ b)

def serializeValues : List OV → List Nat
  | [] => []
  | v :: vs => serializeValue v ++ serializeValues vs

/-- `MaterializedRow::serialize` -/
def serializeRow (row : List OV) : List Nat :=
  leBytes 4 (u32 row.length) ++ serializeValues row

inductive Res (α : Type) where
  | ok (value : α) (rest : List Nat)
  | err (kind : String)
  deriving Repr, DecidableEq

/-- `reader.read_exact(&mut [0u8; n])` -/
def readExact {α : Type} (s : List Nat) (n : Nat) (k : List Nat → List Nat → Res α) : Res α :=
  if s.length < n then .err "eof" else k (s.take n) (s.drop n)

def readF32s : Nat → List Nat → List Nat → Res (List Nat)
  | 0, s, acc => .ok acc.reverse s
  | n + 1, s, acc => readExact s 4 fun bs s => readF32s n s (leVal bs :: acc)

def readLenPrefixed {α : Type} (s : List Nat) (k : List Nat → List Nat → Res α) : Res α :=
  readExact s 4 fun lb s => readExact s (leVal lb) k

/-- `MaterializedRow::deserialize_value` -/
def deserializeValue (s : List Nat) : Res OV :=
  readExact s 1 fun tb s =>
  let tag := leVal tb
  if tag = 0 then .ok .null s
  else if tag = 1 then readExact s 1 fun b s => .ok (.bool (leVal b != 0)) s
  else if tag = 2 then readExact s 8 fun b s => .ok (.int (leVal b)) s
  else if tag = 3 then readExact s 8 fun b s => .ok (.float (leVal b)) s
  else if tag = 4 then readLenPrefixed s fun b s =>
    if utf8Valid b then .ok (.text b) s else .err "utf8"
  else if tag = 5 then readLenPrefixed s fun b s => .ok (.blob b) s
  else if tag = 6 then readExact s 4 fun lb s =>
    match readF32s (leVal lb) s [] with
    | .ok v s => .ok (.vector v) s
    | .err e => .err e
  else if tag = 7 then readExact s 4 fun b s => .ok (.date (leVal b)) s
  else if tag = 8 then readExact s 8 fun b s => .ok (.time (leVal b)) s
  else if tag = 9 then readExact s 8 fun b s => .ok (.timestamp (leVal b)) s
  else if tag = 10 then readExact s 8 fun m s => readExact s 4 fun o s =>
    .ok (.timestamptz (leVal m) (leVal o)) s
  else if tag = 11 then readExact s 16 fun b s => .ok (.uuid b) s
  else if tag = 12 then readExact s 6 fun b s => .ok (.macaddr b) s
  else if tag = 13 then readExact s 4 fun b s => .ok (.inet4 b) s
  else if tag = 14 then readExact s 16 fun b s => .ok (.inet6 b) s
  else if tag = 15 then readExact s 8 fun m s => readExact s 4 fun d s => readExact s 4 fun mo s =>
    .ok (.interval (leVal m) (leVal d) (leVal mo)) s
  else if tag = 16 then readExact s 8 fun x s => readExact s 8 fun y s =>
    .ok (.point (leVal x) (leVal y)) s
  else if tag = 17 then readExact s 8 fun a s => readExact s 8 fun b s => readExact s 8 fun c s =>
    readExact s 8 fun d s => .ok (.box (leVal a) (leVal b) (leVal c) (leVal d)) s
  else if tag = 18 then readExact s 8 fun a s => readExact s 8 fun b s => readExact s 8 fun r s =>
    .ok (.circle (leVal a) (leVal b) (leVal r)) s
  else if tag = 19 then readLenPrefixed s fun b s => .ok (.jsonb b) s
  else if tag = 20 then readExact s 16 fun d s => readExact s 2 fun sc s =>
    .ok (.decimal (leVal d) (leVal sc)) s
  else if tag = 21 then readExact s 2 fun t s => readExact s 2 fun o s =>
    .ok (.enum (leVal t) (leVal o)) s
  else if tag = 22 then readLenPrefixed s fun b s => .ok (.toast b) s
  else .err "unknown value type tag"

def deserializeValues : Nat → List Nat → List OV → Res (List OV)
  | 0, s, acc => .ok acc.reverse s
  | n + 1, s, acc =>
    match deserializeValue s with
    | .ok v s => deserializeValues n s (v :: acc)
    | .err e => .err e

/-- `MaterializedRow::deserialize` -/
def deserializeRow (s : List Nat) : Res (List OV) :=
  readExact s 4 fun cb s => deserializeValues (leVal cb) s []

/-- the disk iterator: `remaining` rows read in sequence from one stream -/
def deserializeRows : Nat → List Nat → List (List OV) → Res (List (List OV))
  | 0, s, acc => .ok acc.reverse s
  | n + 1, s, acc =>
    match deserializeRow s with
    | .ok r s => deserializeRows n s (r :: acc)
    | .err e => .err e

def serializeRows : List (List OV) → List Nat
  | [] => []
  | r :: rs => serializeRow r ++ serializeRows rs

end TurVerif.SubSpill
