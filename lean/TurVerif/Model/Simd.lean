/-
M-code model of /repo/src/btree/simd_scan.rs
  (simd_prefix_search_scalar, simd_prefix_search_avx2, find_key_simd)
and of `extract_prefix` / the slot layout of /repo/src/btree/leaf.rs.

A leaf page is abstracted to what the search reads from it:
  `n`      cell_count (page header)
  `pfx i`  slot i, bytes 0..4 read as a big-endian u32
  `off i`  slot i, bytes 4..6 (cell offset, LE u16)
  `key i`  the `key_len` bytes at `off i` (key_len = slot bytes 6..8)
as functions of the slot index (the harness reads them off the real page bytes).
Bytes are `Nat`s (< 256 on well-formed input).

Loops are written with a fuel argument (structural recursion, so that concrete
instances reduce in the kernel); the entry points pass enough fuel, see
`Props/C30.lean` (`*_fuel_irrelevant`).

AVX2 lanes: `_mm256_cmpgt_epi32 (target ^ sign) (lane ^ sign)` is modelled on the
i32 reinterpretation (`biasI32`), `_mm256_movemask_epi8` as 4 identical bits per 32-bit
lane (`movemask`), `trailing_ones`, `trailing_zeros`, `leading_zeros` as bit loops on
the 32-bit mask.

Two versions of the AVX2 narrowing are kept:
  `avx2OldLoop`  = the code of the pinned tree (drops slots whose prefix equals the target)
  `avx2Loop`     = the code after `fix_simd.patch`.
-/
namespace TurVerif.Simd

def PAGE_SIZE : Nat := 16384
def LEAF_CONTENT_START : Nat := 24
def SLOT_SIZE : Nat := 8

structure Leaf where
  n : Nat
  pfx : Nat → Nat
  off : Nat → Nat
  key : Nat → List Nat

inductive SearchResult where
  | found (i : Nat)
  | notFound (i : Nat)
  deriving DecidableEq, Repr

/-- `<[u8] as Ord>::cmp`: lexicographic, a proper prefix is smaller. -/
def cmpBytes : List Nat → List Nat → Ordering
  | [], [] => .eq
  | [], _ :: _ => .lt
  | _ :: _, [] => .gt
  | a :: as, b :: bs => if a < b then .lt else if b < a then .gt else cmpBytes as bs

def byteAt (k : List Nat) (i : Nat) : Nat :=
  match k[i]? with
  | some b => b
  | none => 0

/-- `u32::from_be_bytes(extract_prefix(key))`: first four bytes, zero padded. -/
def prefixOf (k : List Nat) : Nat :=
  ((byteAt k 0 * 256 + byteAt k 1) * 256 + byteAt k 2) * 256 + byteAt k 3

/-- `slot_offset + SLOT_SIZE > PAGE_SIZE` for slot index `i`. -/
def slotOob (i : Nat) : Bool :=
  decide (LEAF_CONTENT_START + i * SLOT_SIZE + SLOT_SIZE > PAGE_SIZE)

/-! ### simd_prefix_search_scalar -/

def scalarLoop (L : Leaf) (t : Nat) : Nat → Nat → Nat → Nat × Nat × Nat
  | 0, l, r => (l, r, 0)
  | f + 1, l, r =>
    if r - l < 4 then (l, r, 0) else
    let mid := l + (r - l) / 2
    if slotOob mid then (l, r, 0) else
    let p := L.pfx mid
    if p < t then scalarLoop L t f (mid + 1) r
    else if t < p then scalarLoop L t f l mid
    else (l, r, 1)

def narrowScalar (L : Leaf) (t : Nat) : Nat × Nat × Nat :=
  if L.n = 0 then (0, 0, 0) else scalarLoop L t L.n 0 L.n

/-! ### AVX2 lane primitives -/

/-- `(x ^ 0x8000_0000) as i32` for `x < 2^32`. -/
def biasI32 (x : Nat) : Int := (x : Int) - 2147483648

/-- one lane of `_mm256_cmpgt_epi32 a b` -/
def cmpgtI32 (a b : Int) : Bool := decide (b < a)

/-- `_mm256_movemask_epi8` of a vector of eight all-ones/all-zeros 32-bit lanes (lane 0 first). -/
def movemask : List Bool → Nat
  | [] => 0
  | b :: bs => (if b then 15 else 0) + 16 * movemask bs

def trailingOnes : Nat → Nat → Nat
  | 0, _ => 0
  | w + 1, x => if x % 2 = 1 then 1 + trailingOnes w (x / 2) else 0

def trailingZeros : Nat → Nat → Nat
  | 0, _ => 0
  | w + 1, x => if x % 2 = 0 then 1 + trailingZeros w (x / 2) else 0

def bitLen : Nat → Nat → Nat
  | 0, _ => 0
  | w + 1, x => if x = 0 then 0 else 1 + bitLen w (x / 2)

/-- `u32::leading_zeros` -/
def leadingZeros32 (x : Nat) : Nat := 32 - bitLen 32 x

/-- `if eq_mask.leading_zeros() == 0 { 7 } else { (31 - eq_mask.leading_zeros()) / 4 }` -/
def lastEqIdx (m : Nat) : Nat :=
  if leadingZeros32 m = 0 then 7 else (31 - leadingZeros32 m) / 4

def ltLanes (L : Leaf) (t bs : Nat) : List Bool :=
  (List.range 8).map fun i => cmpgtI32 (biasI32 t) (biasI32 (L.pfx (bs + i)))

def eqLanes (L : Leaf) (t bs : Nat) : List Bool :=
  (List.range 8).map fun i => decide (L.pfx (bs + i) = t)

/-- the two `batch_start` lines (`saturating_sub` = truncated `Nat` subtraction) -/
def batchStart (l r : Nat) : Nat :=
  let midStart := l + (r - l) / 2
  min (midStart - 4) (r - 8)

/-! ### simd_prefix_search_avx2, pinned tree -/

def avx2OldLoop (L : Leaf) (t : Nat) : Nat → Nat → Nat → Nat × Nat
  | 0, l, r => (l, r)
  | f + 1, l, r =>
    if r - l < 8 then (l, r) else
    let bs := batchStart l r
    if bs + 8 > L.n then (l, r) else
    let ltMask := movemask (ltLanes L t bs)
    let eqMask := movemask (eqLanes L t bs)
    if ltMask = 4294967295 then avx2OldLoop L t f (bs + 8) r
    else if ltMask = 0 then avx2OldLoop L t f l bs
    else
      let fge := trailingOnes 32 ltMask / 4
      let l1 := if fge > 0 then bs + fge - 1 else l
      let r1 := bs + min fge 7 + 1
      if eqMask ≠ 0 then
        let feq := trailingZeros 32 eqMask / 4
        let leq := lastEqIdx eqMask
        (min l1 (bs + feq), max r1 (bs + leq + 1))
      else (l1, r1)

def narrowAvx2Old (L : Leaf) (t : Nat) : Nat × Nat :=
  if L.n = 0 then (0, 0) else avx2OldLoop L t L.n 0 L.n

/-- Which hazardous step (if any) the pinned AVX2 loop takes first:
  1 = `lt_mask == 0` branch taken although lane 0 has the target prefix,
  2 = mixed branch, lane 7 has the target prefix and so has the slot after the batch
      (inside the old range), 0 = none. -/
def avx2OldHazard (L : Leaf) (t : Nat) : Nat → Nat → Nat → Nat
  | 0, _, _ => 0
  | f + 1, l, r =>
    if r - l < 8 then 0 else
    let bs := batchStart l r
    if bs + 8 > L.n then 0 else
    let ltMask := movemask (ltLanes L t bs)
    if ltMask = 4294967295 then avx2OldHazard L t f (bs + 8) r
    else if ltMask = 0 then
      if L.pfx bs = t then 1 else avx2OldHazard L t f l bs
    else
      if L.pfx (bs + 7) = t ∧ bs + 8 < r ∧ L.pfx (bs + 8) = t then 2 else 0

def hazardOld (L : Leaf) (t : Nat) : Nat :=
  if L.n = 0 then 0 else avx2OldHazard L t L.n 0 L.n

/-! ### simd_prefix_search_avx2 after fix_simd.patch -/

def avx2Loop (L : Leaf) (t : Nat) : Nat → Nat → Nat → Nat × Nat
  | 0, l, r => (l, r)
  | f + 1, l, r =>
    if r - l < 8 then (l, r) else
    let bs := batchStart l r
    if bs + 8 > L.n then (l, r) else
    let ltMask := movemask (ltLanes L t bs)
    let eqMask := movemask (eqLanes L t bs)
    if ltMask = 4294967295 then avx2Loop L t f (bs + 8) r
    else if ltMask = 0 ∧ eqMask = 0 then avx2Loop L t f l bs
    else
      let fge := trailingOnes 32 ltMask / 4
      let l1 := if fge > 0 then bs + fge - 1 else l
      if eqMask = 0 then (l1, bs + min fge 7 + 1)
      else
        let feq := trailingZeros 32 eqMask / 4
        let leq := lastEqIdx eqMask
        (min l1 (bs + feq), if leq + 1 < 8 then bs + leq + 1 else r)

def narrowAvx2 (L : Leaf) (t : Nat) : Nat × Nat :=
  if L.n = 0 then (0, 0) else avx2Loop L t L.n 0 L.n

/-! ### find_key_simd: final binary search in the narrowed range -/

def finalLoop (L : Leaf) (k : List Nat) (t : Nat) : Nat → Nat → Nat → SearchResult
  | 0, l, _ => .notFound l
  | f + 1, l, r =>
    if ¬ l < r then .notFound l else
    let mid := l + (r - l) / 2
    if slotOob mid then .notFound mid else
    let p := L.pfx mid
    if p < t then finalLoop L k t f (mid + 1) r
    else if t < p then finalLoop L k t f l mid
    else
      if L.off mid + (L.key mid).length > PAGE_SIZE then .notFound mid else
      match cmpBytes (L.key mid) k with
      | .eq => .found mid
      | .lt => finalLoop L k t f (mid + 1) r
      | .gt => finalLoop L k t f l mid

/-- `find_key_simd` after the narrowing returned `(l, r)`: `right = right.min(cell_count)`, then
the scalar loop. -/
def finish (L : Leaf) (k : List Nat) (l r : Nat) : SearchResult :=
  finalLoop L k (prefixOf k) (L.n + 1) l (min r L.n)

def findScalar (L : Leaf) (k : List Nat) : SearchResult :=
  if L.n = 0 then .notFound 0 else
  let x := narrowScalar L (prefixOf k)
  finish L k x.1 x.2.1

def findAvx2Old (L : Leaf) (k : List Nat) : SearchResult :=
  if L.n = 0 then .notFound 0 else
  let x := narrowAvx2Old L (prefixOf k)
  finish L k x.1 x.2

def findAvx2 (L : Leaf) (k : List Nat) : SearchResult :=
  if L.n = 0 then .notFound 0 else
  let x := narrowAvx2 L (prefixOf k)
  finish L k x.1 x.2

/-! ### M-spec: position of the probe in the sorted key sequence (linear scan) -/

def specFrom (L : Leaf) (k : List Nat) : Nat → Nat → SearchResult
  | 0, i => .notFound i
  | f + 1, i =>
    match cmpBytes (L.key i) k with
    | .lt => specFrom L k f (i + 1)
    | .eq => .found i
    | .gt => .notFound i

/-- `Found i` if `key i = k`, otherwise `NotFound (number of keys < k)`. -/
def spec (L : Leaf) (k : List Nat) : SearchResult := specFrom L k L.n 0

end TurVerif.Simd
