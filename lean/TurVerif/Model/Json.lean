import TurVerif.Model.Jsonb
/-
JSON text parsers over UTF-8 bytes (the input is a Rust `&str`, hence valid UTF-8).

* M-code  `rparse`  : transcription of `JsonTokenizer` + `parse_json` / `parse_value` /
  `parse_array` / `parse_object` / `unescape_string` of src/parsing/json.rs, including its
  leniencies (commas are optional and repeatable, text after the first value is not looked at,
  control characters inside strings, `\u+0041`, anything `str::parse::<f64>` accepts among
  `[-+.eE0-9]*`) and its strictness (a `\uD800..\uDFFF` escape is always an error, so surrogate
  pairs are rejected).
* M-spec  `parseJ`  : RFC 8259 grammar (strict), surrogate pairs combined, lone surrogates
  rejected, only whitespace may follow the value.

Number text → f64 bits is not modelled: both parsers take `numOf : lexeme → Option bits`
(Rust `str::parse::<f64>`, supplied by the harness; `none` = parse error).
-/
namespace TurVerif.Json
open TurVerif.Jsonb

abbrev Bytes := List Nat

def isWs (c : Nat) : Bool := c = 32 || c = 9 || c = 10 || c = 13

def skipWs : Bytes → Bytes
  | [] => []
  | c :: rest => if isWs c then skipWs rest else c :: rest

def hexVal (c : Nat) : Option Nat :=
  if 48 ≤ c ∧ c ≤ 57 then some (c - 48)
  else if 97 ≤ c ∧ c ≤ 102 then some (c - 87)
  else if 65 ≤ c ∧ c ≤ 70 then some (c - 55)
  else none

/-- UTF-8 encoding of a code point < 0x10000 that is not a surrogate (`String::push(char)`) -/
def utf8Enc (cp : Nat) : Bytes :=
  if cp < 128 then [cp]
  else if cp < 2048 then [192 + cp / 64, 128 + cp % 64]
  else if cp < 65536 then [224 + cp / 4096, 128 + cp / 64 % 64, 128 + cp % 64]
  else [240 + cp / 262144, 128 + cp / 4096 % 64, 128 + cp / 64 % 64, 128 + cp % 64]

def isDigit (c : Nat) : Bool := 48 ≤ c && c ≤ 57

/-! ## M-code: the Rust tokenizer and parser -/

inductive Tok where
  | objS | objE | arrS | arrE | colon | comma
  | str (s : Bytes) | num (bits : Nat) | bool (b : Bool) | null
  deriving Repr

/-- the byte scan of `parse_string` after the opening quote: (raw, has_escapes, rest) or
`none` for "unterminated". A backslash skips the next byte whatever it is. -/
def scanStr : Bytes → Bytes → Bool → Option (Bytes × Bool × Bytes)
  | [], _, _ => none
  | c :: rest, acc, esc =>
    if c = 34 then some (acc.reverse, esc, rest)
    else if c = 92 then
      match rest with
      | [] => none
      | d :: rest' => scanStr rest' (d :: c :: acc) true
    else scanStr rest (c :: acc) esc

/-- `u32::from_str_radix(hex, 16)` on exactly four ASCII bytes: four hex digits, or `+` and
three hex digits. -/
def radix4 (a b c d : Nat) : Option Nat :=
  match hexVal b, hexVal c, hexVal d with
  | some y, some z, some w =>
    match hexVal a with
    | some x => some (((x * 16 + y) * 16 + z) * 16 + w)
    | none => if a = 43 then some ((y * 16 + z) * 16 + w) else none
  | _, _, _ => none

/-- `unescape_string` (on bytes: every character it inspects after a backslash must be ASCII for
the call to succeed, so bytes and chars coincide on all accepting paths). -/
def unescape : Bytes → Bytes → Option Bytes
  | [], acc => some acc.reverse
  | c :: rest, acc =>
    if c = 92 then
      match rest with
      | [] => none
      | e :: rest' =>
        if e = 110 then unescape rest' (10 :: acc)
        else if e = 114 then unescape rest' (13 :: acc)
        else if e = 116 then unescape rest' (9 :: acc)
        else if e = 92 then unescape rest' (92 :: acc)
        else if e = 34 then unescape rest' (34 :: acc)
        else if e = 47 then unescape rest' (47 :: acc)
        else if e = 98 then unescape rest' (8 :: acc)
        else if e = 102 then unescape rest' (12 :: acc)
        else if e = 117 then
          match rest' with
          | a :: b :: c2 :: d :: rest'' =>
            match radix4 a b c2 d with
            | some cp =>
              if 55296 ≤ cp ∧ cp ≤ 57343 then none   -- char::from_u32 fails on surrogates
              else unescape rest'' ((utf8Enc cp).reverse ++ acc)
            | none => none
          | _ => none
        else none
    else unescape rest (c :: acc)

def inNumSet (c : Nat) : Bool :=
  isDigit c || c = 46 || c = 101 || c = 69 || c = 43 || c = 45

def spanNum : Bytes → Bytes → Bytes × Bytes
  | [], acc => (acc.reverse, [])
  | c :: rest, acc => if inNumSet c then spanNum rest (c :: acc) else (acc.reverse, c :: rest)

def startsWith : Bytes → Bytes → Option Bytes
  | rest, [] => some rest
  | [], _ :: _ => none
  | c :: rest, p :: ps => if c = p then startsWith rest ps else none

inductive TR where
  | tok (t : Tok) (rest : Bytes)
  | eof
  | err
  | numMiss       -- lexeme not in the harness-supplied table (harness bug, never silent)

/-- `next_token` -/
def nextTok (numOf : Bytes → Option (Option Nat)) (inp : Bytes) : TR :=
  match skipWs inp with
  | [] => .eof
  | c :: rest =>
    if c = 123 then .tok .objS rest
    else if c = 125 then .tok .objE rest
    else if c = 91 then .tok .arrS rest
    else if c = 93 then .tok .arrE rest
    else if c = 58 then .tok .colon rest
    else if c = 44 then .tok .comma rest
    else if c = 34 then
      match scanStr rest [] false with
      | none => .err
      | some (raw, esc, rest') =>
        if esc then
          match unescape raw [] with
          | some s => .tok (.str s) rest'
          | none => .err
        else .tok (.str raw) rest'
    else if c = 116 then
      match startsWith (c :: rest) [116, 114, 117, 101] with
      | some r => .tok (.bool true) r
      | none => .err
    else if c = 102 then
      match startsWith (c :: rest) [102, 97, 108, 115, 101] with
      | some r => .tok (.bool false) r
      | none => .err
    else if c = 110 then
      match startsWith (c :: rest) [110, 117, 108, 108] with
      | some r => .tok .null r
      | none => .err
    else if c = 45 ∨ isDigit c then
      -- optional '-' then the maximal run of [0-9.eE+-]
      let (lex, rest') := if c = 45 then
          let p := spanNum rest []; (45 :: p.1, p.2)
        else spanNum (c :: rest) []
      match numOf lex with
      | none => .numMiss
      | some none => .err
      | some (some bits) => .tok (.num bits) rest'
    else .err

inductive PR where
  | ok (v : J) (rest : Bytes)
  | err
  | numMiss
  | fuel

/-- `parse_value`, `parse_array`, `parse_object`; one unit of fuel per token -/
def pLoop (numOf : Bytes → Option (Option Nat)) :
    Nat → (mode : Nat) → Bytes → List J → List KV → PR
  | 0, _, _, _, _ => .fuel
  | fuel + 1, mode, inp, xs, kvs =>
    -- mode 0: parse_value; mode 1: parse_array loop (acc xs, reversed); mode 2: parse_object loop
    match nextTok numOf inp with
    | .err => .err
    | .numMiss => .numMiss
    | .eof => .err
    | .tok t rest =>
      if mode = 0 then
        match t with
        | .null => .ok .null rest
        | .bool b => .ok (.bool b) rest
        | .num n => .ok (.num n) rest
        | .str s => .ok (.str s) rest
        | .arrS => pLoop numOf fuel 1 rest [] []
        | .objS => pLoop numOf fuel 2 rest [] []
        | _ => .err
      else if mode = 1 then
        match t with
        | .arrE => .ok (.arr xs.reverse) rest
        | .comma => pLoop numOf fuel 1 rest xs []
        | .null => pLoop numOf fuel 1 rest (.null :: xs) []
        | .bool b => pLoop numOf fuel 1 rest (.bool b :: xs) []
        | .num n => pLoop numOf fuel 1 rest (.num n :: xs) []
        | .str s => pLoop numOf fuel 1 rest (.str s :: xs) []
        | .arrS =>
          match pLoop numOf fuel 1 rest [] [] with
          | .ok v rest' => pLoop numOf fuel 1 rest' (v :: xs) []
          | r => r
        | .objS =>
          match pLoop numOf fuel 2 rest [] [] with
          | .ok v rest' => pLoop numOf fuel 1 rest' (v :: xs) []
          | r => r
        | _ => .err
      else
        match t with
        | .objE => .ok (.obj kvs.reverse) rest
        | .comma => pLoop numOf fuel 2 rest [] kvs
        | .str key =>
          match nextTok numOf rest with
          | .tok .colon rest1 =>
            match pLoop numOf fuel 0 rest1 [] [] with
            | .ok v rest2 => pLoop numOf fuel 2 rest2 [] ((key, v) :: kvs)
            | r => r
          | .numMiss => .numMiss
          | _ => .err
        | _ => .err

/-- `parse_json`: value and `consumed` -/
def rparse (numOf : Bytes → Option (Option Nat)) (inp : Bytes) : PR :=
  pLoop numOf (2 * inp.length + 2) 0 inp [] []

/-! ## M-spec: RFC 8259 -/

/-- number = [ minus ] int [ frac ] [ exp ];  returns (lexeme, rest) -/
def digits : Bytes → Bytes → Bytes × Bytes
  | [], acc => (acc.reverse, [])
  | c :: rest, acc => if isDigit c then digits rest (c :: acc) else (acc.reverse, c :: rest)

def specNumber (inp : Bytes) : Option (Bytes × Bytes) :=
  let (sign, r0) := match inp with
    | 45 :: r => ([45], r)
    | r => ([], r)
  -- int
  match r0 with
  | [] => none
  | c :: r1 =>
    if !isDigit c then none else
    let (intPart, r2) := if c = 48 then ([48], r1) else
      let p := digits r1 []; (c :: p.1, p.2)
    -- frac
    let fr : Option (Bytes × Bytes) := match r2 with
      | 46 :: r3 =>
        let p := digits r3 []
        if p.1.isEmpty then none else some (46 :: p.1, p.2)
      | _ => some ([], r2)
    match fr with
    | none => none
    | some (frac, r4) =>
      let ex : Option (Bytes × Bytes) := match r4 with
        | e :: r5 =>
          if e = 101 ∨ e = 69 then
            let (sg, r6) := match r5 with
              | s :: r => if s = 43 ∨ s = 45 then ([s], r) else ([], r5)
              | [] => ([], r5)
            let p := digits r6 []
            if p.1.isEmpty then none else some (e :: sg ++ p.1, p.2)
          else some ([], r4)
        | [] => some ([], r4)
      match ex with
      | none => none
      | some (exp, r7) => some (sign ++ intPart ++ frac ++ exp, r7)

def hex4 (a b c d : Nat) : Option Nat :=
  match hexVal a, hexVal b, hexVal c, hexVal d with
  | some x, some y, some z, some w => some (((x * 16 + y) * 16 + z) * 16 + w)
  | _, _, _, _ => none

/-- string body after the opening quote: unescaped bytes and rest; strict -/
def specString : Nat → Bytes → Bytes → Option (Bytes × Bytes)
  | 0, _, _ => none
  | _ + 1, [], _ => none
  | fuel + 1, c :: rest, acc =>
    if c = 34 then some (acc.reverse, rest)
    else if c < 32 then none
    else if c = 92 then
      match rest with
      | [] => none
      | e :: r =>
        if e = 34 then specString fuel r (34 :: acc)
        else if e = 92 then specString fuel r (92 :: acc)
        else if e = 47 then specString fuel r (47 :: acc)
        else if e = 98 then specString fuel r (8 :: acc)
        else if e = 102 then specString fuel r (12 :: acc)
        else if e = 110 then specString fuel r (10 :: acc)
        else if e = 114 then specString fuel r (13 :: acc)
        else if e = 116 then specString fuel r (9 :: acc)
        else if e = 117 then
          match r with
          | a :: b :: c2 :: d :: r2 =>
            match hex4 a b c2 d with
            | none => none
            | some cp =>
              if 55296 ≤ cp ∧ cp < 56320 then
                -- high surrogate: must be followed by \uDC00..\uDFFF
                match r2 with
                | 92 :: 117 :: a' :: b' :: c' :: d' :: r3 =>
                  match hex4 a' b' c' d' with
                  | some lo =>
                    if 56320 ≤ lo ∧ lo ≤ 57343 then
                      specString fuel r3
                        ((utf8Enc (65536 + (cp - 55296) * 1024 + (lo - 56320))).reverse ++ acc)
                    else none
                  | none => none
                | _ => none
              else if 56320 ≤ cp ∧ cp ≤ 57343 then none
              else specString fuel r2 ((utf8Enc cp).reverse ++ acc)
          | _ => none
        else none
    else specString fuel rest (c :: acc)

inductive SR where
  | ok (v : J) (rest : Bytes)
  | err
  | numMiss
  | fuel

/-- value / elements / members. mode 0: `ws value`; mode 1: after `[` or after an element
(flag `first`); mode 2: same for objects. -/
def sLoop (numOf : Bytes → Option (Option Nat)) :
    Nat → (mode : Nat) → (first : Bool) → Bytes → List J → List KV → SR
  | 0, _, _, _, _, _ => .fuel
  | fuel + 1, mode, first, inp, xs, kvs =>
    match skipWs inp with
    | [] => .err
    | c :: rest =>
      if mode = 0 then
        if c = 123 then sLoop numOf fuel 2 true rest [] []
        else if c = 91 then sLoop numOf fuel 1 true rest [] []
        else if c = 34 then
          match specString (rest.length + 1) rest [] with
          | some (s, r) => .ok (.str s) r
          | none => .err
        else if c = 116 then
          match startsWith (c :: rest) [116, 114, 117, 101] with
          | some r => .ok (.bool true) r
          | none => .err
        else if c = 102 then
          match startsWith (c :: rest) [102, 97, 108, 115, 101] with
          | some r => .ok (.bool false) r
          | none => .err
        else if c = 110 then
          match startsWith (c :: rest) [110, 117, 108, 108] with
          | some r => .ok .null r
          | none => .err
        else
          match specNumber (c :: rest) with
          | none => .err
          | some (lex, r) =>
            match numOf lex with
            | none => .numMiss
            | some none => .err      -- cannot happen for an RFC number; harness asserts
            | some (some bits) => .ok (.num bits) r
      else if mode = 1 then
        -- `]` closes directly after `[` or after an element; after a comma an element is
        -- parsed by mode 0, which rejects `]`
        if c = 93 then .ok (.arr xs.reverse) rest
        else
          let inp' : Option Bytes :=
            if first then some (c :: rest) else if c = 44 then some rest else none
          match inp' with
          | none => .err
          | some i =>
            match sLoop numOf fuel 0 true i [] [] with
            | .ok v r => sLoop numOf fuel 1 false r (v :: xs) []
            | e => e
      else
        if c = 125 then .ok (.obj kvs.reverse) rest
        else
          let inp' : Option Bytes :=
            if first then some (c :: rest) else if c = 44 then some rest else none
          match inp' with
          | none => .err
          | some i =>
            match skipWs i with
            | 34 :: r0 =>
              match specString (r0.length + 1) r0 [] with
              | none => .err
              | some (key, r1) =>
                match skipWs r1 with
                | 58 :: r2 =>
                  match sLoop numOf fuel 0 true r2 [] [] with
                  | .ok v r => sLoop numOf fuel 2 false r [] ((key, v) :: kvs)
                  | e => e
                | _ => .err
            | _ => .err

/-- a JSON text: `ws value ws` and nothing else -/
def parseJ (numOf : Bytes → Option (Option Nat)) (inp : Bytes) : SR :=
  match sLoop numOf (2 * inp.length + 2) 0 true inp [] [] with
  | .ok v rest => if (skipWs rest).isEmpty then .ok v [] else .err
  | r => r

end TurVerif.Json
