/-
M-code model of /repo/src/encoding/key.rs (index key encoding) for property C26.

Bytes are `Nat`s (< 256 for well-formed values).  Integers are mathematical `Int`s inside the
Rust type's range; floats are IEEE bit patterns (`Nat < 2^64`, f32: `< 2^32`).

  * `enc`      transcribes `encode_null/bool/int/float/text/blob/date/time/timestamp/timestamptz/
               interval/uuid/inet/macaddr/enum/vector/array/tuple/composite/domain`
               (type prefixes of `type_prefix`, sign split integers, `!bits` / `bits ^ (1<<63)` floats,
               escape 00 -> 00 FF, FF -> FF 00, terminator 00 00, sign-bit XOR for date/time fields,
               01 separators / 00 terminator in containers).
  * `dec`      transcribes `decode_key` with the same guards in the same order (fuel for the
               recursion through containers).
  * `cmpVal`   is the SPECIFICATION order: natural order inside one type (two's complement integers,
               IEEE order on bit patterns with -0 = +0 and NaN greatest, bytewise text/blob,
               field-wise / element-wise lexicographic for structured values) and the documented
               type-prefix rank between different types.
  * `lexCmp`   is `memcmp` followed by the length tie break (Rust `<[u8] as Ord>::cmp`).

Modelling conventions (checked by the correspondence harness, not proved):
  `n as u64` = n mod 2^64;  `x ^ (1 << (w-1))` on a w-bit word = flip of the top bit (`flipTop`);
  `!x` on a w-bit word = 2^w - 1 - x;  `to_be_bytes` = `be w`.
No imports outside core.
-/
namespace TurVerif.KeyEnc

/-! ### orders -/

def cmpNat (a b : Nat) : Ordering := if a < b then .lt else if a = b then .eq else .gt
def cmpInt (a b : Int) : Ordering := if a < b then .lt else if a = b then .eq else .gt

/-- bytewise comparison, shorter string first on a tie (`memcmp` + length). -/
def lexCmp : List Nat → List Nat → Ordering
  | [], [] => .eq
  | [], _ :: _ => .lt
  | _ :: _, [] => .gt
  | x :: xs, y :: ys => (cmpNat x y).then (lexCmp xs ys)

/-! ### words -/

/-- `to_be_bytes` of a `w`-byte word -/
def be : Nat → Nat → List Nat
  | 0, _ => []
  | w + 1, v => be w (v / 256) ++ [v % 256]

/-- `from_be_bytes` -/
def fromBe (bs : List Nat) : Nat := bs.foldl (fun a b => a * 256 + b) 0

/-- `x ^ (1 << (w-1))` for a word `x < 2*half`, `half = 2^(w-1)` -/
def flipTop (half x : Nat) : Nat := if x < half then x + half else x - half

/-- `n as uN` for `N = log2 modulus` -/
def toU (modulus : Nat) (n : Int) : Nat := (n % (modulus : Int)).toNat

/-- `u as iN` -/
def toI (modulus : Nat) (u : Nat) : Int :=
  if u < modulus / 2 then (u : Int) else (u : Int) - (modulus : Int)

/-- sign-flipped big-endian field: `((n as uN) ^ (1 << (N-1))).to_be_bytes()` -/
def sfield (bytes : Nat) (modulus : Nat) (n : Int) : List Nat :=
  be bytes (flipTop (modulus / 2) (toU modulus n))

def unsfield (modulus : Nat) (bs : List Nat) : Int :=
  toI modulus (flipTop (modulus / 2) (fromBe bs))

/-! ### floats as bit patterns -/

/-- f64 `is_nan` -/
def isNan64 (b : Nat) : Bool := decide (b % 9223372036854775808 > 9218868437227405312)
/-- f32 `is_nan` -/
def isNan32 (b : Nat) : Bool := decide (b % 2147483648 > 2139095040)

/-- signed magnitude position of a non-NaN pattern of width `2*half` (−0 and +0 both 0) -/
def fpos (half b : Nat) : Int := if b < half then (b : Int) else - ((b - half : Nat) : Int)

/-- IEEE order on f64 bit patterns: numeric order on non-NaN values (−0 = +0), NaN greatest,
all NaNs equal.  That this is `f64::partial_cmp` on non-NaN values is a correspondence obligation. -/
def fcmp64 (a b : Nat) : Ordering :=
  if isNan64 a then (if isNan64 b then .eq else .gt)
  else if isNan64 b then .lt
  else cmpInt (fpos 9223372036854775808 a) (fpos 9223372036854775808 b)

/-- IEEE order on f32 bit patterns (same conventions) -/
def fcmp32 (a b : Nat) : Ordering :=
  if isNan32 a then (if isNan32 b then .eq else .gt)
  else if isNan32 b then .lt
  else cmpInt (fpos 2147483648 a) (fpos 2147483648 b)

/-- per-dimension transform of `encode_vector`: `if dim < 0.0 { !bits } else { bits ^ (1<<31) }` -/
def venc (b : Nat) : Nat :=
  if b > 2147483648 ∧ ¬ isNan32 b then 4294967295 - b else flipTop 2147483648 b

/-- per-dimension inverse used by `decode_key`: `if e & (1<<31) != 0 { e ^ (1<<31) } else { !e }` -/
def vdec (e : Nat) : Nat :=
  if e ≥ 2147483648 then e - 2147483648 else 4294967295 - e

/-! ### escaping -/

/-- `encode_escaped_bytes` -/
def esc : List Nat → List Nat
  | [] => [0, 0]
  | b :: t => if b = 0 then 0 :: 255 :: esc t else if b = 255 then 255 :: 0 :: esc t else b :: esc t

/-- `decode_escaped_bytes`: decoded bytes and number of input bytes consumed, `none` = error -/
def unesc : List Nat → Option (List Nat × Nat)
  | [] => none
  | b :: t =>
    if b = 0 then
      match t with
      | [] => none
      | n :: t' =>
        if n = 0 then some ([], 2)
        else if n = 255 then
          match unesc t' with
          | some (r, k) => some (0 :: r, k + 2)
          | none => none
        else none
    else if b = 255 then
      match t with
      | [] => none
      | n :: t' =>
        if n = 0 then
          match unesc t' with
          | some (r, k) => some (255 :: r, k + 2)
          | none => none
        else none
    else
      match unesc t with
      | some (r, k) => some (b :: r, k + 1)
      | none => none

/-- `core::str::from_utf8(..).is_ok()` (Unicode Table 3-7 well-formed byte sequences) -/
def utf8Valid : List Nat → Bool
  | [] => true
  | b0 :: t =>
    if b0 < 128 then utf8Valid t
    else if 194 ≤ b0 ∧ b0 ≤ 223 then
      match t with
      | b1 :: t1 => (128 ≤ b1 ∧ b1 ≤ 191) && utf8Valid t1
      | _ => false
    else if 224 ≤ b0 ∧ b0 ≤ 239 then
      match t with
      | b1 :: b2 :: t2 =>
        decide ((if b0 = 224 then 160 else 128) ≤ b1 ∧ b1 ≤ (if b0 = 237 then 159 else 191)) &&
        decide (128 ≤ b2 ∧ b2 ≤ 191) && utf8Valid t2
      | _ => false
    else if 240 ≤ b0 ∧ b0 ≤ 244 then
      match t with
      | b1 :: b2 :: b3 :: t3 =>
        decide ((if b0 = 240 then 144 else 128) ≤ b1 ∧ b1 ≤ (if b0 = 244 then 143 else 191)) &&
        decide (128 ≤ b2 ∧ b2 ≤ 191) && decide (128 ≤ b3 ∧ b3 ≤ 191) && utf8Valid t3
      | _ => false
    else false

/-! ### values -/

mutual
inductive KVal where
  | null
  | bool (b : Bool)
  | int (n : Int)
  | float (bits : Nat)
  | text (bs : List Nat)
  | blob (bs : List Nat)
  | date (days : Int)
  | time (us : Int)
  | timestamp (us : Int)
  | timestamptz (us : Int) (tz : Int)
  | interval (months : Int) (days : Int) (us : Int)
  | uuid (bs : List Nat)
  | inet (v6 : Bool) (plen : Nat) (addr : List Nat)
  | macaddr (bs : List Nat)
  | enum (tid : Nat) (ord : Nat)
  | vector (dims : List Nat)
  | array (es : KList)
  | tuple (es : KList)
  | composite (tid : Nat) (fs : KList)
  | domain (tid : Nat) (v : KVal)
inductive KList where
  | nil
  | cons (v : KVal) (vs : KList)
end

/-- the documented type order: the `type_prefix` byte the value is encoded under -/
def rank : KVal → Nat
  | .null => 0x01
  | .bool b => if b then 0x03 else 0x02
  | .int n => if n < 0 then 0x12 else if n = 0 then 0x14 else 0x16
  | .float b =>
    if isNan64 b then 0x19
    else if b = 18442240474082181120 then 0x10      -- -inf
    else if b = 9218868437227405312 then 0x18       -- +inf
    else if b > 9223372036854775808 then 0x13       -- f < 0.0
    else if b % 9223372036854775808 = 0 then 0x14   -- f == 0.0 (both zeros)
    else 0x15
  | .text _ => 0x20
  | .blob _ => 0x21
  | .date _ => 0x30
  | .time _ => 0x31
  | .timestamp _ => 0x32
  | .timestamptz _ _ => 0x33
  | .interval _ _ _ => 0x34
  | .uuid _ => 0x40
  | .inet _ _ _ => 0x41
  | .macaddr _ => 0x42
  | .array _ => 0x60
  | .tuple _ => 0x61
  | .enum _ _ => 0x63
  | .composite _ _ => 0x64
  | .domain _ _ => 0x65
  | .vector _ => 0x70

def vecBody : List Nat → List Nat
  | [] => []
  | d :: ds => be 4 (venc d) ++ vecBody ds

mutual
/-- `encode_*` -/
def enc : KVal → List Nat
  | .null => [0x01]
  | .bool b => [if b then 0x03 else 0x02]
  | .int n =>
    if n < 0 then 0x12 :: be 8 (toU 18446744073709551616 n)
    else if n = 0 then [0x14]
    else 0x16 :: be 8 (toU 18446744073709551616 n)
  | .float b =>
    if isNan64 b then [0x19]
    else if b = 18442240474082181120 then [0x10]
    else if b = 9218868437227405312 then [0x18]
    else if b > 9223372036854775808 then 0x13 :: be 8 (18446744073709551615 - b)
    else if b % 9223372036854775808 = 0 then [0x14]
    else 0x15 :: be 8 (flipTop 9223372036854775808 b)
  | .text bs => 0x20 :: esc bs
  | .blob bs => 0x21 :: esc bs
  | .date d => 0x30 :: sfield 4 4294967296 d
  | .time us => 0x31 :: sfield 8 18446744073709551616 us
  | .timestamp us => 0x32 :: sfield 8 18446744073709551616 us
  | .timestamptz us tz => 0x33 :: (sfield 8 18446744073709551616 us ++ sfield 2 65536 tz)
  | .interval mo d us =>
    0x34 :: (sfield 4 4294967296 mo ++ (sfield 4 4294967296 d ++ sfield 8 18446744073709551616 us))
  | .uuid bs => 0x40 :: bs
  | .inet v6 plen addr => 0x41 :: (if v6 then 1 else 0) :: plen :: addr
  | .macaddr bs => 0x42 :: bs
  | .enum tid ord => 0x63 :: (be 4 tid ++ be 4 ord)
  | .vector dims => 0x70 :: (be 4 dims.length ++ vecBody dims)
  | .array es => 0x60 :: encElems es
  | .tuple es => 0x61 :: encElems es
  | .composite tid fs => 0x64 :: (be 4 tid ++ encElems fs)
  | .domain tid v => 0x65 :: (be 4 tid ++ enc v)
/-- container body, first position: `e1 01 e2 01 … en 00` -/
def encElems : KList → List Nat
  | .nil => [0]
  | .cons v vs => enc v ++ encRest vs
/-- container body after the first element -/
def encRest : KList → List Nat
  | .nil => [0]
  | .cons v vs => 1 :: (enc v ++ encRest vs)
end

/-- composite (multi-column) key: the concatenation of the column encodings -/
def encCols : KList → List Nat
  | .nil => []
  | .cons v vs => enc v ++ encCols vs

def cmpVecDims : List Nat → List Nat → Ordering
  | [], [] => .eq
  | [], _ :: _ => .lt
  | _ :: _, [] => .gt
  | a :: as, b :: bs => (fcmp32 a b).then (cmpVecDims as bs)

mutual
/-- SPECIFICATION order of values. -/
def cmpVal (a b : KVal) : Ordering :=
  match a with
  | .bool x => match b with
    | .bool y => cmpNat x.toNat y.toNat
    | _ => cmpNat (rank a) (rank b)
  | .int x => match b with
    | .int y => cmpInt x y
    | _ => cmpNat (rank a) (rank b)
  | .float x => match b with
    | .float y => fcmp64 x y
    | _ => cmpNat (rank a) (rank b)
  | .text x => match b with
    | .text y => lexCmp x y
    | _ => cmpNat (rank a) (rank b)
  | .blob x => match b with
    | .blob y => lexCmp x y
    | _ => cmpNat (rank a) (rank b)
  | .date x => match b with
    | .date y => cmpInt x y
    | _ => cmpNat (rank a) (rank b)
  | .time x => match b with
    | .time y => cmpInt x y
    | _ => cmpNat (rank a) (rank b)
  | .timestamp x => match b with
    | .timestamp y => cmpInt x y
    | _ => cmpNat (rank a) (rank b)
  | .timestamptz x xz => match b with
    | .timestamptz y yz => (cmpInt x y).then (cmpInt xz yz)
    | _ => cmpNat (rank a) (rank b)
  | .interval xm xd xu => match b with
    | .interval ym yd yu => (cmpInt xm ym).then ((cmpInt xd yd).then (cmpInt xu yu))
    | _ => cmpNat (rank a) (rank b)
  | .uuid x => match b with
    | .uuid y => lexCmp x y
    | _ => cmpNat (rank a) (rank b)
  | .inet xv xp xa => match b with
    | .inet yv yp ya => (cmpNat xv.toNat yv.toNat).then ((cmpNat xp yp).then (lexCmp xa ya))
    | _ => cmpNat (rank a) (rank b)
  | .macaddr x => match b with
    | .macaddr y => lexCmp x y
    | _ => cmpNat (rank a) (rank b)
  | .enum xt xo => match b with
    | .enum yt yo => (cmpNat xt yt).then (cmpNat xo yo)
    | _ => cmpNat (rank a) (rank b)
  | .vector x => match b with
    | .vector y => (cmpNat x.length y.length).then (cmpVecDims x y)
    | _ => cmpNat (rank a) (rank b)
  | .array x => match b with
    | .array y => cmpList x y
    | _ => cmpNat (rank a) (rank b)
  | .tuple x => match b with
    | .tuple y => cmpList x y
    | _ => cmpNat (rank a) (rank b)
  | .composite xt x => match b with
    | .composite yt y => (cmpNat xt yt).then (cmpList x y)
    | _ => cmpNat (rank a) (rank b)
  | .domain xt x => match b with
    | .domain yt y => (cmpNat xt yt).then (cmpVal x y)
    | _ => cmpNat (rank a) (rank b)
  | .null => cmpNat (rank a) (rank b)
/-- column-wise / element-wise lexicographic order, a proper prefix sorts first -/
def cmpList (a b : KList) : Ordering :=
  match a with
  | .nil => match b with
    | .nil => .eq
    | .cons _ _ => .lt
  | .cons x xs => match b with
    | .nil => .gt
    | .cons y ys => (cmpVal x y).then (cmpList xs ys)
end

/-! ### decoder -/

inductive DRes where
  | ok (v : KVal) (n : Nat)
  | err (e : String)

inductive LRes where
  | ok (vs : KList) (n : Nat)
  | err (e : String)

/-- the `dim_count` f32 words of a vector body -/
def decDims : Nat → List Nat → List Nat
  | 0, _ => []
  | k + 1, d => vdec (fromBe (d.take 4)) :: decDims k (d.drop 4)

mutual
/-- `decode_key`; `d` is the input slice, result = decoded value and bytes consumed -/
def dec : Nat → List Nat → DRes
  | 0, _ => .err "fuel"
  | fuel + 1, d =>
    match d with
    | [] => .err "empty"
    | p :: t =>
      if p = 0x01 then .ok .null 1
      else if p = 0x02 then .ok (.bool false) 1
      else if p = 0x03 then .ok (.bool true) 1
      else if p = 0x10 then .ok (.float 18442240474082181120) 1
      else if p = 0x18 then .ok (.float 9218868437227405312) 1
      else if p = 0x19 then .ok (.float 9221120237041090560) 1
      else if p = 0x14 then .ok (.int 0) 1
      else if p = 0x12 then
        if d.length < 9 then .err "trunc" else
        .ok (.int (toI 18446744073709551616 (fromBe (t.take 8)))) 9
      else if p = 0x16 then
        if d.length < 9 then .err "trunc" else
        .ok (.int (toI 18446744073709551616 (fromBe (t.take 8)))) 9
      else if p = 0x13 then
        if d.length < 9 then .err "trunc" else
        .ok (.float (18446744073709551615 - fromBe (t.take 8))) 9
      else if p = 0x15 then
        if d.length < 9 then .err "trunc" else
        .ok (.float (flipTop 9223372036854775808 (fromBe (t.take 8)))) 9
      else if p = 0x20 then
        match unesc t with
        | none => .err "escape"
        | some (bs, n) => if utf8Valid bs then .ok (.text bs) (1 + n) else .err "utf8"
      else if p = 0x21 then
        match unesc t with
        | none => .err "escape"
        | some (bs, n) => .ok (.blob bs) (1 + n)
      else if p = 0x30 then
        if d.length < 5 then .err "trunc" else
        .ok (.date (unsfield 4294967296 (t.take 4))) 5
      else if p = 0x31 then
        if d.length < 9 then .err "trunc" else
        .ok (.time (unsfield 18446744073709551616 (t.take 8))) 9
      else if p = 0x32 then
        if d.length < 9 then .err "trunc" else
        .ok (.timestamp (unsfield 18446744073709551616 (t.take 8))) 9
      else if p = 0x33 then
        if d.length < 11 then .err "trunc" else
        .ok (.timestamptz (unsfield 18446744073709551616 (t.take 8))
              (unsfield 65536 ((t.drop 8).take 2))) 11
      else if p = 0x34 then
        if d.length < 17 then .err "trunc" else
        .ok (.interval (unsfield 4294967296 (t.take 4)) (unsfield 4294967296 ((t.drop 4).take 4))
              (unsfield 18446744073709551616 ((t.drop 8).take 8))) 17
      else if p = 0x40 then
        if d.length < 17 then .err "trunc" else .ok (.uuid (t.take 16)) 17
      else if p = 0x41 then
        if d.length < 3 then .err "trunc" else
        match t with
        | f :: pl :: rest =>
          let alen := if f ≠ 0 then 16 else 4
          if d.length < 3 + alen then .err "trunc" else
          .ok (.inet (decide (f ≠ 0)) pl (rest.take alen)) (3 + alen)
        | _ => .err "trunc"
      else if p = 0x42 then
        if d.length < 7 then .err "trunc" else .ok (.macaddr (t.take 6)) 7
      else if p = 0x60 then
        match decElems fuel t false with
        | .ok vs n => .ok (.array vs) (1 + n)
        | .err e => .err e
      else if p = 0x61 then
        match decElems fuel t false with
        | .ok vs n => .ok (.tuple vs) (1 + n)
        | .err e => .err e
      else if p = 0x63 then
        if d.length < 9 then .err "trunc" else
        .ok (.enum (fromBe (t.take 4)) (fromBe ((t.drop 4).take 4))) 9
      else if p = 0x64 then
        if d.length < 5 then .err "trunc" else
        match decElems fuel (t.drop 4) false with
        | .ok vs n => .ok (.composite (fromBe (t.take 4)) vs) (5 + n)
        | .err e => .err e
      else if p = 0x65 then
        if d.length < 5 then .err "trunc" else
        match dec fuel (t.drop 4) with
        | .ok v n => .ok (.domain (fromBe (t.take 4)) v) (5 + n)
        | .err e => .err e
      else if p = 0x70 then
        if d.length < 5 then .err "trunc" else
        let k := fromBe (t.take 4)
        if d.length < 5 + k * 4 then .err "trunc" else
        .ok (.vector (decDims k (t.drop 4))) (5 + k * 4)
      else .err "prefix"
/-- `decode_array_elements` / `decode_composite_fields` (identical loops); `nonempty` = some element
was already decoded -/
def decElems : Nat → List Nat → Bool → LRes
  | 0, _, _ => .err "fuel"
  | fuel + 1, d, nonempty =>
    match d with
    | [] => .err "terminator"
    | x :: t =>
      if x = 0 then .ok .nil 1
      else if nonempty then
        if x ≠ 1 then .err "separator" else
        match dec fuel t with
        | .err e => .err e
        | .ok v n =>
          match decElems fuel (t.drop n) true with
          | .err e => .err e
          | .ok vs m => .ok (.cons v vs) (1 + n + m)
      else
        match dec fuel d with
        | .err e => .err e
        | .ok v n =>
          match decElems fuel (d.drop n) true with
          | .err e => .err e
          | .ok vs m => .ok (.cons v vs) (n + m)
end

/-- top level `decode_key`: enough fuel for any input of this length -/
def decode (d : List Nat) : DRes := dec (2 * d.length + 2) d

/-! ### what a round trip returns (the documented canonicalisation and the code's vector quirk) -/

mutual
/-- the value `decode_key (enc v)` yields: Int 0 / Float ±0 collapse to `Int 0` (documented), every
NaN becomes the one `Nan` key (printed as the canonical quiet NaN pattern), vector dimensions go
through `vdec ∘ venc` (identity except on −0.0 and sign-bit NaNs). -/
def canon : KVal → KVal
  | .float b =>
    if isNan64 b then .float 9221120237041090560
    else if b % 9223372036854775808 = 0 then .int 0
    else .float b
  | .vector dims => .vector (dims.map (fun d => vdec (venc d)))
  | .array es => .array (canonList es)
  | .tuple es => .tuple (canonList es)
  | .composite tid fs => .composite tid (canonList fs)
  | .domain tid v => .domain tid (canon v)
  | v => v
def canonList : KList → KList
  | .nil => .nil
  | .cons v vs => .cons (canon v) (canonList vs)
end

/-! ### well-formedness (the Rust types' ranges) -/

def isBytes (bs : List Nat) : Bool := bs.all (· < 256)

mutual
def wf : KVal → Bool
  | .null => true
  | .bool _ => true
  | .int n => decide (-9223372036854775808 ≤ n ∧ n < 9223372036854775808)
  | .float b => decide (b < 18446744073709551616)
  | .text bs => isBytes bs && utf8Valid bs
  | .blob bs => isBytes bs
  | .date d => decide (-2147483648 ≤ d ∧ d < 2147483648)
  | .time us => decide (-9223372036854775808 ≤ us ∧ us < 9223372036854775808)
  | .timestamp us => decide (-9223372036854775808 ≤ us ∧ us < 9223372036854775808)
  | .timestamptz us tz => decide (-9223372036854775808 ≤ us ∧ us < 9223372036854775808) &&
      decide (-32768 ≤ tz ∧ tz < 32768)
  | .interval mo d us => decide (-2147483648 ≤ mo ∧ mo < 2147483648) &&
      decide (-2147483648 ≤ d ∧ d < 2147483648) &&
      decide (-9223372036854775808 ≤ us ∧ us < 9223372036854775808)
  | .uuid bs => isBytes bs && decide (bs.length = 16)
  | .inet v6 plen addr => decide (plen < 256) && isBytes addr &&
      decide (addr.length = if v6 then 16 else 4)
  | .macaddr bs => isBytes bs && decide (bs.length = 6)
  | .enum tid ord => decide (tid < 4294967296) && decide (ord < 4294967296)
  | .vector dims => dims.all (· < 4294967296) && decide (dims.length < 4294967296)
  | .array es => wfList es
  | .tuple es => wfList es
  | .composite tid fs => decide (tid < 4294967296) && wfList fs
  | .domain tid v => decide (tid < 4294967296) && wf v
def wfList : KList → Bool
  | .nil => true
  | .cons v vs => wf v && wfList vs
end

end TurVerif.KeyEnc
