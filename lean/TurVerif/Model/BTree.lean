import TurVerif.Model.OMap
/-
M-spec-level model of the B+tree of /repo/src/btree/tree.rs + interior.rs.

A tree of height `n` is a value of `T n`:
  T 0       = a leaf: its entries in slot order
  T (n+1)   = an interior page: slots `(child, separator)` in slot order and the right child,
              all children of height `n`
so "all leaves are at the same depth" is built into the type; what has to be PROVED is that the
algorithms (insert with split propagation and root growth, delete) can be written against this
type at all, that they keep the separator/key-order invariant (`Props/C29.lean`) and that they
refine the ordered map (`Props/C28.lean`).

What is modelled from the code:
  * `InteriorNode::find_child`: first slot whose separator is greater than the key (key < sep goes
    left), else the right child;
  * `BTree::search/get`, `insert` (descent, leaf insert, `split_leaf`, `propagate_split` /
    `insert_into_interior` — the new separator and the new right sibling are placed next to the
    child that was split —, `split_interior`, `create_new_root`), `delete` (no rebalancing:
    leaves may become and stay empty);
  * cursors at the level of the leaf chain = leaves in key order (`cursor_first`, `advance`,
    `cursor_last`, `prev`/`find_prev_leaf`, `cursor_seek`), including the way they treat empty
    leaves and positions past the end of a leaf.
What is NOT modelled here: byte sizes. WHEN a page splits and WHERE (`split_leaf`'s 90/10 vs 50/50
policy and its two size-adjust loops, `split_interior`'s `len/2`) is left open: the split
decisions are parameters (`Policy`), and every theorem holds for every policy. A leaf split point
`m` means: left keeps the first `m` entries, the right leaf gets the rest; both halves must be
non-empty (the first key of the right half is the separator). The code can produce an empty left
half only when it splits a leaf that holds nothing but the new entry (an emptied leaf whose cell
bytes were never reclaimed) — there the separator may repeat the parent's and the call fails
(known finding `btree:split:separator-already-in-parent`). Page-level byte accounting is the business of `Model/Leaf.lean`.
Page numbers, the rightmost-leaf hint and the freelist are not represented.
-/
namespace TurVerif.BTree
open TurVerif.Simd (cmpBytes)
open TurVerif.OMap (Entry)

abbrev Key := List Nat

structure Node (α : Type) where
  slots : List (α × Key)
  right : α

def T : Nat → Type
  | 0 => List Entry
  | n + 1 => Node (T n)

/-- split decisions: `leaf es` = `some m` to split the (already updated) leaf `es` before index `m`,
`node len` = `some m` to split an interior page that now has `len` separators at separator `m`
(which is promoted). `none` = no split. -/
structure Policy where
  leaf : List Entry → Option Nat
  node : Nat → Option Nat

/-! ### abstraction: entries in key order, and the leaf chain -/

def Node.abs {α : Type} (f : α → List Entry) (nd : Node α) : List Entry :=
  (nd.slots.map fun s => f s.1).flatten ++ f nd.right

def absT : (n : Nat) → T n → List Entry
  | 0 => fun es => es
  | n + 1 => fun nd => Node.abs (absT n) nd

def Node.leaves {α : Type} (f : α → List (List Entry)) (nd : Node α) : List (List Entry) :=
  (nd.slots.map fun s => f s.1).flatten ++ f nd.right

/-- the leaves in key order = the leaf chain (`next_leaf` pointers) of a well-formed tree -/
def leavesT : (n : Nat) → T n → List (List Entry)
  | 0 => fun es => [es]
  | n + 1 => fun nd => Node.leaves (leavesT n) nd

/-! ### search -/

/-- `find_child` + continuation `f` on the chosen child -/
def Node.route {α β : Type} (f : α → β) (k : Key) : List (α × Key) → α → β
  | [], right => f right
  | (c, s) :: rest, right =>
    if cmpBytes k s = .lt then f c else Node.route f k rest right

def searchT : (n : Nat) → T n → Key → Option (List Nat)
  | 0 => fun es k => OMap.lookup es k
  | n + 1 => fun nd k => Node.route (fun c => searchT n c k) k nd.slots nd.right

/-! ### insert -/

/-- result of inserting into a subtree: the subtree, or the two halves of a split -/
inductive Ins (α : Type) where
  | one (t : α)
  | two (l : α) (sep : Key) (r : α)

/-- `split_leaf`: applied to the leaf content after the insertion -/
def splitLeaf (p : Policy) (es : List Entry) : Ins (List Entry) :=
  match p.leaf es with
  | none => .one es
  | some m =>
    if m = 0 then .one es else            -- left half must be non-empty
    match es.drop m with
    | [] => .one es                       -- right half must be non-empty
    | e :: _ => .two (es.take m) e.1 (es.drop m)

/-- descent into the child chosen by `find_child` and absorption of a child split
(`insert_into_interior`): `(l, sep)` takes the child's slot, `r` becomes the child of the next
separator (or the right child). Returns the updated slot list and right child. -/
def Node.insSlots {α : Type} (ins : α → Ins α) (k : Key) : List (α × Key) → α → List (α × Key) × α
  | [], right =>
    match ins right with
    | .one r' => ([], r')
    | .two l s r => ([(l, s)], r)
  | (c, s) :: rest, right =>
    if cmpBytes k s = .lt then
      match ins c with
      | .one c' => ((c', s) :: rest, right)
      | .two l s' r => ((l, s') :: (r, s) :: rest, right)
    else
      let x := Node.insSlots ins k rest right
      ((c, s) :: x.1, x.2)

/-- `split_interior`: separator `m` is promoted, left keeps slots `[0, m)` with the child of slot `m`
as right child, the new page gets slots `(m, len)` and the old right child -/
def Node.split {α : Type} (p : Policy) (nd : Node α) : Ins (Node α) :=
  match p.node nd.slots.length with
  | none => .one nd
  | some m =>
    match nd.slots.drop m with
    | [] => .one nd
    | (c, s) :: post => .two ⟨nd.slots.take m, c⟩ s ⟨post, nd.right⟩

def insertT (p : Policy) (k : Key) (v : List Nat) : (n : Nat) → T n → Ins (T n)
  | 0 => fun es => splitLeaf p (OMap.insertNew es k v)
  | n + 1 => fun nd =>
    let x := Node.insSlots (insertT p k v n) k nd.slots nd.right
    Node.split p ⟨x.1, x.2⟩

/-- a tree with its height: what `BTree { root_page }` denotes -/
structure Tree where
  height : Nat
  root : T height

/-- `BTree::create` -/
def Tree.empty : Tree := ⟨0, ([] : List Entry)⟩

/-- `BTree::insert` / `insert_if_not_exists` (a present key leaves the tree unchanged; the code
reports `key already exists` / `Duplicate`), with `create_new_root` when the root splits -/
def Tree.insert (p : Policy) (t : Tree) (k : Key) (v : List Nat) : Tree :=
  match insertT p k v t.height t.root with
  | .one r => ⟨t.height, r⟩
  | .two l s r => ⟨t.height + 1, (⟨[(l, s)], r⟩ : Node (T t.height))⟩

/-! ### delete (no rebalancing) -/

def Node.mapRoute {α : Type} (f : α → α) (k : Key) : List (α × Key) → α → List (α × Key) × α
  | [], right => ([], f right)
  | (c, s) :: rest, right =>
    if cmpBytes k s = .lt then ((f c, s) :: rest, right)
    else
      let x := Node.mapRoute f k rest right
      ((c, s) :: x.1, x.2)

def deleteT (k : Key) : (n : Nat) → T n → T n
  | 0 => fun es => OMap.erase es k
  | n + 1 => fun nd =>
    let x := Node.mapRoute (deleteT k n) k nd.slots nd.right
    (⟨x.1, x.2⟩ : Node (T n))

def Tree.delete (t : Tree) (k : Key) : Tree := ⟨t.height, deleteT k t.height t.root⟩
def Tree.search (t : Tree) (k : Key) : Option (List Nat) := searchT t.height t.root k
def Tree.abs (t : Tree) : List Entry := absT t.height t.root
def Tree.leaves (t : Tree) : List (List Entry) := leavesT t.height t.root

/-! ### cursors over the leaf chain (as the code walks it) -/

/-- `cursor_first` + repeated `advance`: entries of the current leaf, then the next leaf; an empty
leaf (the first one, or the one `advance` steps onto) makes the cursor exhausted -/
def enumFwd : List (List Entry) → List Entry
  | [] => []
  | l :: ls => if l.isEmpty then [] else l ++ enumFwd ls

/-- `cursor_last` + repeated `prev` (`find_prev_leaf` / `find_rightmost_in_subtree` return "none"
for an empty leaf): the same walk over the reversed chain, entries reversed -/
def enumBwd (ls : List (List Entry)) : List Entry :=
  enumFwd (ls.reverse.map List.reverse)

/-- `cursor_seek k` when the descent reaches leaf number `j` of the chain: position = first slot
with key ≥ k in that leaf; past the end of the leaf = exhausted (no move to the next leaf) -/
def enumSeek (ls : List (List Entry)) (j : Nat) (k : Key) : List Entry :=
  match ls.drop j with
  | [] => []
  | l :: rest =>
    let tail := OMap.fromKey l k
    if tail.isEmpty then [] else tail ++ enumFwd rest

end TurVerif.BTree
