/-
M-code model of src/database/page_locks.rs (page read/write locks with a ref-counted entry per
page in a mutex-protected map) as an interleaving LTS.  One step = one atomic operation or one
critical section under the shard's map mutex (`get_or_create`, the body of `try_cleanup` after
`entry.release()`), exactly the yield points installed by the hooks:
  get_or_create | rw acquire | force_unlock | entry.release() | cleanup under the map lock.
`parking_lot::RwLock` is assumed correct (trusted): a thread obtains the lock only when it is
compatible (no writer for a reader; no writer and no reader for a writer); as parking_lot is
task-fair, a FRESH read attempt also queues behind an already waiting writer.  A thread whose
attempt cannot be granted moves to `waiting`; it becomes `held` by a later `step` once compatible.
`fixed = true` is the repaired `try_cleanup` (remove the map entry only if the map still points at
THIS entry); `fixed = false` is the pinned code (remove by page id).
-/
namespace TurVerif.PageLocks

structure Entry where
  refCount : Nat
  readers : Nat
  writer : Bool
  deriving DecidableEq, Repr, Inhabited

inductive Op where
  | read (page : Nat)
  | write (page : Nat)
  deriving DecidableEq, Repr, Inhabited

inductive Pc where
  | idle
  /-- about to run `shard.get_or_create(page)` -/
  | getOrCreate (page : Nat) (w : Bool)
  /-- has the entry (ref counted), about to `entry.lock.read()/write()` -/
  | acquire (page e : Nat) (w : Bool)
  /-- inside `entry.lock.read()/write()`, parked in the RwLock's queue -/
  | waiting (page e : Nat) (w : Bool)
  /-- holds the lock (guard alive) -/
  | held (page e : Nat) (w : Bool)
  /-- guard dropped: `force_unlock` done, about to `entry.release()` (fetch_sub) -/
  | release (page e : Nat)
  /-- `release()` returned true: about to lock the map and maybe remove -/
  | cleanup (page e : Nat)
  deriving DecidableEq, Repr, Inhabited

structure Thread where
  prog : List Op
  pc : Pc := .idle
  deriving DecidableEq, Repr, Inhabited

structure State where
  fixed : Bool
  /-- page → entry id -/
  map : List (Nat × Nat) := []
  /-- all entries ever created, by id -/
  entries : List Entry := []
  threads : List Thread
  deriving DecidableEq, Repr, Inhabited

def init (fixed : Bool) (progs : List (List Op)) : State :=
  { fixed := fixed, threads := progs.map (fun p => { prog := p }) }

def lookup (m : List (Nat × Nat)) (page : Nat) : Option Nat :=
  (m.find? (fun x => x.1 == page)).map (·.2)

def setThread (s : State) (tid : Nat) (t : Thread) : State :=
  { s with threads := s.threads.set tid t }

def modEntry (s : State) (e : Nat) (f : Entry → Entry) : State :=
  { s with entries := s.entries.modify e f }

/-- is the step of thread `tid` enabled, and what does it do -/
def step (s : State) (tid : Nat) : Option State :=
  match s.threads[tid]? with
  | none => none
  | some t =>
    match t.pc with
    | .idle =>
      match t.prog with
      | [] => none
      | .read p :: rest => some (setThread s tid { prog := rest, pc := .getOrCreate p false })
      | .write p :: rest => some (setThread s tid { prog := rest, pc := .getOrCreate p true })
    | .getOrCreate p w =>
      match lookup s.map p with
      | some e => some (setThread (modEntry s e (fun x => { x with refCount := x.refCount + 1 })) tid
                         { t with pc := .acquire p e w })
      | none =>
        let e := s.entries.length
        some (setThread { s with entries := s.entries ++ [{ refCount := 1, readers := 0, writer := false }],
                                 map := (p, e) :: s.map } tid { t with pc := .acquire p e w })
    | .acquire p e w =>
      match s.entries[e]? with
      | none => none
      | some en =>
        let writerWaiting := s.threads.any (fun x => x.pc == .waiting p e true)
        if w then
          if en.readers = 0 ∧ en.writer = false then
            some (setThread (modEntry s e (fun x => { x with writer := true })) tid { t with pc := .held p e true })
          else some (setThread s tid { t with pc := .waiting p e true })
        else
          if en.writer = false ∧ writerWaiting = false then
            some (setThread (modEntry s e (fun x => { x with readers := x.readers + 1 })) tid { t with pc := .held p e false })
          else some (setThread s tid { t with pc := .waiting p e false })
    | .waiting p e w =>
      -- woken by the lock: only possible when compatible; otherwise the step is disabled
      match s.entries[e]? with
      | none => none
      | some en =>
        if w then
          if en.readers = 0 ∧ en.writer = false then
            some (setThread (modEntry s e (fun x => { x with writer := true })) tid { t with pc := .held p e true })
          else none
        else
          if en.writer = false then
            some (setThread (modEntry s e (fun x => { x with readers := x.readers + 1 })) tid { t with pc := .held p e false })
          else none
    | .held p e w =>
      -- drop of the guard: force_unlock
      some (setThread (modEntry s e (fun x => if w then { x with writer := false }
                                              else { x with readers := x.readers - 1 })) tid
            { t with pc := .release p e })
    | .release p e =>
      match s.entries[e]? with
      | none => none
      | some en =>
        let s1 := modEntry s e (fun x => { x with refCount := x.refCount - 1 })
        if en.refCount = 1 then some (setThread s1 tid { t with pc := .cleanup p e })
        else some (setThread s1 tid { t with pc := .idle })
    | .cleanup p e =>
      match s.entries[e]? with
      | none => none
      | some en =>
        let remove := en.refCount = 0 ∧ (if s.fixed then lookup s.map p = some e else True)
        if remove then
          some (setThread { s with map := s.map.filter (fun x => x.1 != p) } tid { t with pc := .idle })
        else some (setThread s tid { t with pc := .idle })

def run (s : State) : List Nat → State
  | [] => s
  | tid :: rest => run ((step s tid).getD s) rest

/-- threads currently holding a WRITE lock on `page` / a READ lock on `page` (by page, whatever
the entry) -/
def writersOf (s : State) (page : Nat) : Nat :=
  (s.threads.filter (fun t => match t.pc with | .held p _ true => p == page | _ => false)).length
def readersOf (s : State) (page : Nat) : Nat :=
  (s.threads.filter (fun t => match t.pc with | .held p _ false => p == page | _ => false)).length

/-- the property's safety clause for one page -/
def pageSafe (s : State) (page : Nat) : Bool :=
  writersOf s page ≤ 1 && (writersOf s page == 0 || readersOf s page == 0)

def quiescent (s : State) : Bool := s.threads.all (fun t => t.pc == .idle && t.prog.isEmpty)

end TurVerif.PageLocks
