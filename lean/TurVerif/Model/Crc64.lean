/-
Table-driven model of CRC-64/ECMA-182 as used by src/storage/wal.rs
(`Crc::<u64>::new(&CRC_64_ECMA_182)`: poly 0x42F0E1EBA9EA3693, init 0, no reflection, xorout 0):
MSB-first, one table lookup per byte.  Bytes are `Nat`s (< 256).
-/
namespace TurVerif.Crc64

def poly : UInt64 := 0x42F0E1EBA9EA3693

def bitStep (c : UInt64) : UInt64 :=
  if c >>> 63 == 1 then (c <<< 1) ^^^ poly else c <<< 1

/-- table entry for top byte `i`: eight shift/xor steps -/
def tableEntry (i : Nat) : UInt64 :=
  bitStep (bitStep (bitStep (bitStep (bitStep (bitStep (bitStep (bitStep (UInt64.ofNat i <<< 56))))))))

def table : Array UInt64 := Array.ofFn (n := 256) (fun i => tableEntry i.val)

def step (c : UInt64) (b : Nat) : UInt64 :=
  table[(((c >>> 56) ^^^ UInt64.ofNat b) &&& 255).toNat]! ^^^ (c <<< 8)

/-- `digest.update(bs)` from state `c` -/
def update (c : UInt64) (bs : List Nat) : UInt64 := bs.foldl step c

/-- `CRC64.checksum(bs)` (init 0, xorout 0) -/
def crc (bs : List Nat) : UInt64 := update 0 bs

end TurVerif.Crc64
