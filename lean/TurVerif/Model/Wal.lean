/-
M-code model of src/storage/wal.rs (`WalSegment`, `Wal`) for property C03, plus the M-spec
(`Spec` section: the log in write order and its longest valid prefix).

Abstractions (all stated in props/C03.json as assumptions):

* A segment file is a list of `Cell`s.  One frame (32-byte header + 16384-byte page) is `FS = 4`
  cells; a byte length `q*16416 + r` corresponds to `q*FS + ρ(r)` cells for a monotone ρ with
  ρ(0)=0 and 0<ρ(r)<FS for 0<r<16416 (the harness uses ρ = 1 on (0,32], 2 on (32,8208], 3 above).
  All code paths move the file cursor by whole frames, so only faults create residues and any
  monotone ρ is faithful.
* `Cell.fr f k` = the k-th part of an intact frame record `f` (header fields + checksum + page
  image `img`; images are opaque ids, `img = 0` is the all-zero page), `Cell.zero` = zero bytes
  (file hole or zero fill), `Cell.junk` = anything else.  A 4-cell slot decodes to a frame iff it
  is `[fr f 0, fr f 1, fr f 2, fr f 3]` (checksum matches: CRC-64 is assumed to reject every
  other mixture) or `[zero, zero, zero, zero]`: CRC-64/ECMA-182 (init 0, xorout 0) of zeros is 0,
  which equals the stored checksum field of an all-zero header — see Model/Crc64.lean and
  `TurVerif.C03.crc_zeros`.  So a zero slot is a *valid* frame for page 0 of file 0 with a zero
  image.
* POSIX files: `write` at the cursor zero-fills a gap, `set_len` does not move the cursor.
  `BufWriter` (8 MiB = 511 frames + 32 bytes) holds whole frames until `flush`; the capacity is
  not modelled (histories keep fewer than 511 unflushed frames).
* `fixed = false` is the pinned code.  `fixed = true` is the code with fix_wal_cursor.patch:
  `Wal::open` seeks the append handle to the end of the segment, `Wal::truncate` flushes, then
  `set_len(0)`, then seeks to 0.  `zfix = true` is the code with fix_wal_zero_frame.patch:
  `validate_checksum` rejects a frame whose checksum and salts are all zero.
-/
namespace TurVerif.Wal

structure Frame where
  fileId : Nat
  pageNo : Nat
  dbSize : Nat
  salt : Nat
  img : Nat
  deriving DecidableEq, Repr, Inhabited

inductive Cell where
  | fr (f : Frame) (k : Nat)
  | zero
  | junk
  deriving DecidableEq, Repr, Inhabited

/-- cells per frame -/
def FS : Nat := 4

def frameCells (f : Frame) : List Cell := [.fr f 0, .fr f 1, .fr f 2, .fr f 3]

/-- what an all-zero slot parses to: header fields 0, checksum 0, zero page -/
def zeroFrame : Frame := ⟨0, 0, 0, 0, 0⟩

/-- `WalFrameHeader::read_from_bytes` + `validate_checksum` on one slot -/
def decodeSlot (zfix : Bool) : Cell → Cell → Cell → Cell → Option Frame
  | .fr f 0, .fr g 1, .fr h 2, .fr i 3 => if f = g ∧ g = h ∧ h = i then some f else none
  | .zero, .zero, .zero, .zero => if zfix then none else some zeroFrame
  | _, _, _, _ => none

/-! ### POSIX file -/

structure File where
  cells : List Cell
  cursor : Nat
  deriving DecidableEq, Repr, Inhabited

/-- `write(2)` of `d` at the cursor: a gap between EOF and the cursor reads back as zeros -/
def File.write (f : File) (d : List Cell) : File :=
  { cells := f.cells.take f.cursor ++ List.replicate (f.cursor - f.cells.length) Cell.zero ++ d
              ++ f.cells.drop (f.cursor + d.length),
    cursor := f.cursor + d.length }

/-- `ftruncate`: the cursor does not move -/
def File.setLen (f : File) (n : Nat) : File :=
  { f with cells := f.cells.take n ++ List.replicate (n - f.cells.length) Cell.zero }

def File.seek (f : File) (n : Nat) : File := { f with cursor := n }

/-! ### sequential frame reader (`WalSegment::open` for reading + `while let Ok(..) = read_frame()`) -/

/-- `rem` = the bytes from the read cursor to EOF.  `read_exact` of header or page fails on a short
read; a checksum mismatch bails; either ends the `while let Ok` loop. -/
def readFrame (zfix : Bool) : List Cell → Option (Frame × List Cell)
  | a :: b :: c :: d :: rest =>
    match decodeSlot zfix a b c d with
    | some f => some (f, rest)
    | none => none
  | _ => none

/-- all frames a fresh read handle yields before the first error -/
def readAll (zfix : Bool) : List Cell → List Frame
  | a :: b :: c :: d :: rest =>
    match decodeSlot zfix a b c d with
    | some f => f :: readAll zfix rest
    | none => []
  | _ => []

/-! ### page_index (HashMap<(file_id,page_no),(segment,offset)>) as an association list -/

abbrev Key := Nat × Nat
abbrev Loc := Nat × Nat
abbrev Index := List (Key × Loc)

def idxInsert (k : Key) (v : Loc) (ix : Index) : Index :=
  (k, v) :: ix.filter (fun e => e.1 != k)

def idxLookup (k : Key) : Index → Option Loc
  | [] => none
  | (k', v) :: rest => if k' == k then some v else idxLookup k rest

/-! ### Wal -/

structure Wal where
  /-- cursor fix applied (fix_wal_cursor.patch) -/
  fixed : Bool
  /-- zero-frame fix applied (fix_wal_zero_frame.patch): an all-zero header is not a frame -/
  zfix : Bool
  /-- the other segment files in the directory (all have a smaller sequence number), ascending -/
  closed : List (Nat × List Cell)
  /-- `current_segment.sequence` -/
  seq : Nat
  /-- content of the current segment file and the OS cursor of the writer's file descriptor -/
  file : File
  /-- bytes held by the `BufWriter` -/
  buf : List Cell
  /-- `WalSegment.offset` (logical append offset; NOT where the OS writes) -/
  offset : Nat
  index : Index
  salt : Nat
  /-- `sync_mode == Full` -/
  syncFull : Bool
  frameCount : Nat
  deriving DecidableEq, Repr, Inhabited

/-- `MAX_SEGMENT_SIZE` = 64 MiB; the first frame-aligned offset ≥ 64 MiB is 4089 frames -/
def maxSegCells : Nat := 4089 * FS

/-- `BufWriter::flush` (also run by `Drop`): a write of the pending bytes at the OS cursor -/
def flush (w : Wal) : Wal :=
  match w.buf with
  | [] => w
  | _ :: _ => { w with file := w.file.write w.buf, buf := [] }

/-- `Wal::create` on a fresh directory: `WalSegment::create(wal.000001)` -/
def create (fixed zfix : Bool) (salt : Nat) : Wal :=
  { fixed := fixed, zfix := zfix, closed := [], seq := 1, file := ⟨[], 0⟩, buf := [], offset := 0, index := [],
    salt := salt, syncFull := true, frameCount := 0 }

/-- `WalSegment::write_frame_with_sync` -/
def segWriteFrame (w : Wal) (f : Frame) (sync : Bool) : Wal :=
  let w1 := { w with buf := w.buf ++ frameCells f }
  let w2 := if sync then flush w1 else w1
  { w2 with offset := w2.offset + FS }

/-- `Wal::rotate_segment`: create segment seq+1, drop the old `WalSegment` (its BufWriter flushes) -/
def rotate (w : Wal) : Wal :=
  let w1 := flush w
  { w1 with closed := w1.closed ++ [(w1.seq, w1.file.cells)], seq := w1.seq + 1,
            file := ⟨[], 0⟩, buf := [], offset := 0 }

def needsRotation (w : Wal) : Bool := decide (maxSegCells ≤ w.offset)

/-- `Wal::write_frame_with_file_id` -/
def writeFrame (w : Wal) (fileId pageNo dbSize img : Nat) : Wal :=
  let w0 := if needsRotation w then rotate w else w
  let off := w0.offset
  let w1 := segWriteFrame w0 ⟨fileId, pageNo, dbSize, w0.salt, img⟩ w0.syncFull
  { w1 with index := idxInsert (fileId, pageNo) (w1.seq, off) w1.index,
            frameCount := w1.frameCount + 1 }

/-- the per-frame loop of `write_frames_batch[_no_sync]` (no rotation check, no per-frame sync);
returns the `frame_metadata` too -/
def batchLoop (w : Wal) : List (Nat × Nat × Nat × Nat) → List (Key × Loc) → Wal × List (Key × Loc)
  | [], md => (w, md)
  | (fileId, pageNo, dbSize, img) :: rest, md =>
    let off := w.offset
    let w1 := segWriteFrame w ⟨fileId, pageNo, dbSize, w.salt, img⟩ false
    batchLoop w1 rest (md ++ [((fileId, pageNo), (w.seq, off))])

/-- `write_frames_batch` (`withSync = true`: syncs at the end iff `sync_mode == Full`) and
`write_frames_batch_no_sync` (`withSync = false`) -/
def writeBatch (w : Wal) (withSync : Bool) (fs : List (Nat × Nat × Nat × Nat)) : Wal :=
  let (w1, md) := batchLoop w fs []
  let w2 := if withSync && w.syncFull && !md.isEmpty then flush w1 else w1
  { w2 with index := md.foldl (fun ix e => idxInsert e.1 e.2 ix) w2.index,
            frameCount := w2.frameCount + md.length }

/-- `Wal::sync` -/
def sync (w : Wal) : Wal := flush w

def setSyncMode (w : Wal) (full : Bool) : Wal := { w with syncFull := full }

/-- `Wal::truncate`.  Pinned code: `set_len(0)` on the raw file, THEN `BufWriter::flush` (pending
frames are written at the unmoved cursor), `offset = 0`, index cleared, older segments removed.
Fixed code: flush, `set_len(0)`, `seek(0)`. -/
def truncate (w : Wal) : Wal :=
  if w.fixed then
    let w1 := flush w
    { w1 with file := (w1.file.setLen 0).seek 0, offset := 0, index := [], closed := [],
              frameCount := 0 }
  else
    let w1 := flush { w with file := w.file.setLen 0 }
    { w1 with offset := 0, index := [], closed := [], frameCount := 0 }

/-- the directory content: segment files in ascending sequence order (what another handle, or the
next process, sees; bytes still in the BufWriter are not there) -/
def diskLive (w : Wal) : List (Nat × List Cell) := w.closed ++ [(w.seq, w.file.cells)]

/-- dropping the `Wal` (the BufWriter flushes), then the directory content -/
def disk (w : Wal) : List (Nat × List Cell) := diskLive (flush w)

def buildIndex (seq : Nat) : List Frame → Nat → Index → Index
  | [], _, ix => ix
  | f :: rest, off, ix => buildIndex seq rest (off + FS) (idxInsert (f.fileId, f.pageNo) (seq, off) ix)

/-- `Wal::open` on a directory with the given segment files.  The newest segment is opened for
append by `WalSegment::open`: `seek(0)` (pinned) / seek to end (fixed), `offset = len`; it is
scanned with a second handle for the index and the salts; older segments are not indexed. -/
def openDisk (fixed zfix : Bool) (d : List (Nat × List Cell)) (freshSalt : Nat) : Wal :=
  match d.getLast? with
  | none => create fixed zfix freshSalt
  | some (seq, cells) =>
    let frames := readAll zfix cells
    let ix := buildIndex seq frames 0 []
    { fixed := fixed, zfix := zfix, closed := d.dropLast, seq := seq,
      file := ⟨cells, if fixed then cells.length else 0⟩, buf := [], offset := cells.length,
      index := ix,
      salt := match frames with
        | f :: _ => f.salt
        | [] => freshSalt,
      syncFull := true, frameCount := ix.length }

/-- drop the Wal and `Wal::open` the directory again -/
def reopen (w : Wal) (freshSalt : Nat) : Wal := openDisk w.fixed w.zfix (disk w) freshSalt

/-! ### recovery into a storage -/

structure Storage where
  pageCount : Nat
  /-- page_no ↦ image, most recent first; absent = zero image (0) -/
  pages : List (Nat × Nat)
  deriving DecidableEq, Repr, Inhabited

/-- `MmapStorage::create(path, 1)` -/
def Storage.fresh : Storage := ⟨1, []⟩

def Storage.grow (s : Storage) (n : Nat) : Storage :=
  if n ≤ s.pageCount then s else { s with pageCount := n }

/-- `storage.page_mut(p)?.copy_from_slice(img)`: `none` = the `ensure!(page_no < page_count)` error -/
def Storage.setPage (s : Storage) (p img : Nat) : Option Storage :=
  if p < s.pageCount then some { s with pages := (p, img) :: s.pages } else none

def Storage.get (s : Storage) (p : Nat) : Nat :=
  match s.pages.find? (fun e => e.1 == p) with
  | some e => e.2
  | none => 0

inductive RecRes where
  /-- `Ok(frames_applied)`; `applied` is a ghost list of the frames in application order -/
  | ok (s : Storage) (applied : List Frame)
  /-- `Err` out of `page_mut` -/
  | err
  deriving DecidableEq, Repr, Inhabited

/-- body of the `while let` loop for one frame -/
def applyFrame (s : Storage) (f : Frame) : Option Storage :=
  let s1 := if s.pageCount ≤ f.pageNo then s.grow (max f.dbSize (f.pageNo + 1)) else s
  s1.setPage f.pageNo f.img

def applyFrames (only : Option Nat) : Storage → List Frame → List Frame → RecRes
  | s, [], acc => .ok s acc
  | s, f :: rest, acc =>
    if only.isSome && only != some f.fileId then applyFrames only s rest acc
    else match applyFrame s f with
      | some s1 => applyFrames only s1 rest (acc ++ [f])
      | none => .err

/-- frames yielded by the per-segment loops of `recover`: `for i in 1..=max_segment`, each existing
segment read from its start until the first error, then ON TO THE NEXT SEGMENT -/
def scanDisk (zfix : Bool) (d : List (Nat × List Cell)) : List Frame :=
  d.flatMap (fun e => readAll zfix e.2)

/-- `Wal::recover` (`only = none`) / `Wal::recover_for_file` (`only = some file_id`) over the
directory content `d` -/
def recoverDisk (zfix : Bool) (d : List (Nat × List Cell)) (only : Option Nat) (s : Storage) : RecRes :=
  applyFrames only s (scanDisk zfix d) []

/-- on a live `Wal` the read handles see the files, not the BufWriter -/
def recover (w : Wal) (only : Option Nat) (s : Storage) : RecRes :=
  recoverDisk w.zfix (diskLive w) only s

/-! ### read_page -/

inductive ReadRes where
  | absent            -- `Ok(None)`
  | img (i : Nat)     -- `Ok(Some(page))`
  | err               -- `Err` (frame beyond EOF, or checksum mismatch)
  | oob               -- a slice outside the mmap (would be a panic); proved unreachable
  deriving DecidableEq, Repr, Inhabited

/-- checked slice of `n` cells at `off` -/
def slice (cells : List Cell) (off n : Nat) : Option (List Cell) :=
  if off + n ≤ cells.length then some ((cells.drop off).take n) else none

def segCells (w : Wal) (seg : Nat) : Option (List Cell) :=
  if seg = w.seq then some w.file.cells
  else match w.closed.find? (fun e => e.1 == seg) with
    | some e => some e.2
    | none => none

/-- `Wal::read_page`: index lookup, mmap of the segment file, `ensure!(frame_start + FRAME ≤ len)`,
header and page slices, checksum.  The requested (file, page) is NOT compared with the header. -/
def readPage (w : Wal) (fileId pageNo : Nat) : ReadRes :=
  match idxLookup (fileId, pageNo) w.index with
  | none => .absent
  | some (seg, off) =>
    match segCells w seg with
    | none => .absent
    | some cells =>
      if off + FS ≤ cells.length then
        match slice cells off FS with
        | some [a, b, c, d] =>
          match decodeSlot w.zfix a b c d with
          | some f => .img f.img
          | none => .err
        | some _ => .oob
        | none => .oob
      else .err

/-! ### faults on the directory content (applied while no Wal is open) -/

inductive Fault where
  /-- cut segment file number `seg` (position in the ascending list) to `n` cells -/
  | trunc (seg n : Nat)
  /-- overwrite one cell with garbage (single-byte corruption) -/
  | junk (seg c : Nat)
  /-- zero-fill the cells [a, b) -/
  | zero (seg a b : Nat)
  deriving DecidableEq, Repr, Inhabited

def Fault.seg : Fault → Nat
  | .trunc s _ => s
  | .junk s _ => s
  | .zero s _ _ => s

def setCells (cells : List Cell) (a b : Nat) (v : Cell) : List Cell :=
  cells.take a ++ ((cells.drop a).take (b - a)).map (fun _ => v) ++ cells.drop (max a b)

def faultCells (cells : List Cell) : Fault → List Cell
  | .trunc _ n => cells.take n
  | .junk _ c => setCells cells c (c + 1) .junk
  | .zero _ a b => setCells cells a b .zero

def mapNth {α : Type} (f : α → α) : List α → Nat → List α
  | [], _ => []
  | x :: xs, 0 => f x :: xs
  | x :: xs, n + 1 => x :: mapNth f xs n

def applyFault (d : List (Nat × List Cell)) (φ : Fault) : List (Nat × List Cell) :=
  mapNth (fun e => (e.1, faultCells e.2 φ)) d φ.seg

/-! ### histories -/

inductive Op where
  | write (fileId pageNo dbSize img : Nat)
  /-- `write_frames_batch` (`withSync`) / `write_frames_batch_no_sync` -/
  | batch (withSync : Bool) (fs : List (Nat × Nat × Nat × Nat))
  | setSync (full : Bool)
  | sync
  | rotate
  | truncate
  /-- drop the handle, `Wal::open` the directory -/
  | reopen (freshSalt : Nat)
  deriving DecidableEq, Repr, Inhabited

def step (w : Wal) : Op → Wal
  | .write f p d i => writeFrame w f p d i
  | .batch s fs => writeBatch w s fs
  | .setSync full => setSyncMode w full
  | .sync => sync w
  | .rotate => rotate w
  | .truncate => truncate w
  | .reopen s => reopen w s

def run (w : Wal) (ops : List Op) : Wal := ops.foldl step w

/-! ### M-spec: the log in write order and its longest valid prefix -/

/-- what the caller wrote: (file, page, db_size, image) -/
structure SFrame where
  fileId : Nat
  pageNo : Nat
  dbSize : Nat
  img : Nat
  deriving DecidableEq, Repr, Inhabited

def Frame.core (f : Frame) : SFrame := ⟨f.fileId, f.pageNo, f.dbSize, f.img⟩

/-- the ideal log: per segment, the entries in write order; `none` = a damaged entry -/
abbrev SLog := List (List (Option SFrame))

def sAppend (l : SLog) (es : List (Option SFrame)) : SLog :=
  match l.getLast? with
  | none => [es]
  | some last => l.dropLast ++ [last ++ es]

def specStep (l : SLog) : Op → SLog
  | .write f p d i => sAppend l [some ⟨f, p, d, i⟩]
  | .batch _ fs => sAppend l (fs.map (fun e => some ⟨e.1, e.2.1, e.2.2.1, e.2.2.2⟩))
  | .setSync _ => l
  | .sync => l
  | .rotate => l ++ [[]]
  | .truncate => [[]]
  | .reopen _ => l

/-- the ideal log of a history that starts with `Wal::create` -/
def specLog (ops : List Op) : SLog := ops.foldl specStep [[]]

/-- damage to one ideal segment (entries are `FS` cells wide).  `notLast`: later segments exist, so
removing entries leaves a gap in the log even when the cut is frame-aligned. -/
def specFaultSeg (es : List (Option SFrame)) (notLast : Bool) : Fault → List (Option SFrame)
  | .trunc _ n =>
    if FS * es.length ≤ n then es
    else es.take (n / FS) ++ (if n % FS != 0 || notLast then [none] else [])
  | .junk _ c => mapNth (fun _ => none) es (c / FS)
  | .zero _ a b =>
    if a < b then
      (es.zipIdx).map (fun (e, i) => if a < FS * (i + 1) ∧ FS * i < b then none else e)
    else es

def specFault (l : SLog) (φ : Fault) : SLog :=
  mapNth (fun es => specFaultSeg es (decide (φ.seg + 1 < l.length)) φ) l φ.seg

/-- the longest valid prefix of the log, in write order -/
def validPrefix (l : SLog) : List SFrame :=
  (l.flatten.takeWhile Option.isSome).filterMap id

/-- the image each page must end with after replaying `fs` into a fresh storage -/
def lastImage (fs : List SFrame) (only : Option Nat) (p : Nat) : Nat :=
  fs.foldl (fun acc f =>
    if f.pageNo == p && (only.isNone || only == some f.fileId) then f.img else acc) 0

end TurVerif.Wal
