/-
M-code: the engine's aggregate accumulator `AggregateState` (src/sql/state.rs:73 `update`,
:148 `finalize`), the state machine behind COUNT/SUM/AVG/MIN/MAX in the hash-aggregate executor
(C16).  Same branches as the Rust code:

* `Count` increments for every row, whatever the argument value (so COUNT(col) counts NULLs);
* `Sum` keeps an integer sum and a float sum; `finalize` returns `Int(sum)` if it is non-zero,
  else `Float(sum_float)` if that is non-zero, else `Int(0)` (also for no input at all);
* `Avg` counts only Int/Float values; NULL when that count is 0;
* `Min`/`Max` track Int and Float separately and ignore every other type (TEXT gives NULL).

`i64` additions are checked (dev profile: overflow panics) — outcome `none`.  Floats are exact
rationals (the harness only uses dyadic values).  No imports outside core.
-/
namespace TurVerif.SqlAggImpl

/-- argument value as the accumulator sees it -/
inductive AV where
  | null
  | int (i : Int)
  | flt (q : Rat)
  | other            -- TEXT, BOOL, ... : the `_ => {}` arms
  deriving DecidableEq, Repr, Inhabited

inductive Fn where
  | count | sum | avg | min | max
  deriving DecidableEq, Repr, Inhabited

structure St where
  count : Int := 0
  sum : Int := 0
  sumF : Rat := 0
  minI : Option Int := none
  maxI : Option Int := none
  minF : Option Rat := none
  maxF : Option Rat := none
  deriving Repr, Inhabited

inductive Out where
  | null
  | int (i : Int)
  | flt (q : Rat)
  deriving DecidableEq, Repr, Inhabited

def i64Min : Int := -9223372036854775808
def i64Max : Int := 9223372036854775807

/-- checked `i64` addition: `none` = panic "attempt to add with overflow" -/
def addChk (a b : Int) : Option Int :=
  let s := a + b
  if i64Min ≤ s ∧ s ≤ i64Max then some s else none

def ratMin (a b : Rat) : Rat := if b < a then b else a
def ratMax (a b : Rat) : Rat := if a < b then b else a

/-- `AggregateState::update` -/
def update (f : Fn) (s : St) (v : AV) : Option St :=
  match f with
  | .count => (addChk s.count 1).map (fun c => { s with count := c })
  | .sum =>
    match v with
    | .int i => (addChk s.sum i).map (fun x => { s with sum := x })
    | .flt q => some { s with sumF := s.sumF + q }
    | _ => some s
  | .avg =>
    match v with
    | .int i =>
      match addChk s.sum i, addChk s.count 1 with
      | some x, some c => some { s with sum := x, count := c }
      | _, _ => none
    | .flt q => (addChk s.count 1).map (fun c => { s with sumF := s.sumF + q, count := c })
    | _ => some s
  | .min =>
    match v with
    | .int i => some { s with minI := some (match s.minI with | none => i | some m => min m i) }
    | .flt q => some { s with minF := some (match s.minF with | none => q | some m => ratMin m q) }
    | _ => some s
  | .max =>
    match v with
    | .int i => some { s with maxI := some (match s.maxI with | none => i | some m => max m i) }
    | .flt q => some { s with maxF := some (match s.maxF with | none => q | some m => ratMax m q) }
    | _ => some s

/-- `AggregateState::finalize` -/
def finalize (f : Fn) (s : St) : Out :=
  match f with
  | .count => .int s.count
  | .sum => if s.sum ≠ 0 then .int s.sum else if s.sumF ≠ 0 then .flt s.sumF else .int 0
  | .avg =>
    if s.count = 0 then .null
    else if s.sum ≠ 0 then .flt ((s.sum : Rat) / (s.count : Rat))
    else .flt (s.sumF / (s.count : Rat))
  | .min => match s.minI, s.minF with
    | some m, _ => .int m
    | none, some m => .flt m
    | none, none => .null
  | .max => match s.maxI, s.maxF with
    | some m, _ => .int m
    | none, some m => .flt m
    | none, none => .null

def fold (f : Fn) : St → List AV → Option St
  | s, [] => some s
  | s, v :: vs => match update f s v with
    | none => none
    | some s' => fold f s' vs

/-- one aggregate over the argument values of a group, in input order; `none` = overflow panic -/
def run (f : Fn) (vs : List AV) : Option Out := (fold f {} vs).map (finalize f)

end TurVerif.SqlAggImpl
