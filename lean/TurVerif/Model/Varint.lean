/-
M-code model of /repo/src/encoding/varint.rs  (varint_len, encode_varint, decode_varint).
Bytes are `Nat`s; a byte string is well formed when every element is < 256.
Every read of the input goes through `rd`, which yields the explicit outcome `oob`
when the index is outside the buffer, so "never reads past the input" is a
statement about the model and not an artefact of totalisation.
-/
namespace TurVerif.Varint

def len (v : Nat) : Nat :=
  if v ≤ 240 then 1
  else if v ≤ 2287 then 2
  else if v ≤ 67823 then 3
  else if v ≤ 0xFFFFFF then 4
  else if v ≤ 0xFFFFFFFF then 5
  else 9

/-- `v >> (8*k)` as `k` nested divisions by 256. -/
def sh (v : Nat) : Nat → Nat
  | 0 => v
  | k + 1 => sh v k / 256

/-- `encode_varint`; `x as u8` is `x % 256`. -/
def encode (v : Nat) : List Nat :=
  if v ≤ 240 then [v % 256]
  else if v ≤ 2287 then [(((v - 240) / 256) + 241) % 256, (v - 240) % 256]
  else if v ≤ 67823 then [249, ((v - 2288) / 256) % 256, (v - 2288) % 256]
  else if v ≤ 0xFFFFFF then [250, (sh v 2) % 256, (sh v 1) % 256, v % 256]
  else if v ≤ 0xFFFFFFFF then
    [251, (sh v 3) % 256, (sh v 2) % 256, (sh v 1) % 256, v % 256]
  else
    -- `value.to_be_bytes()`; shifts written as nested divisions by 256 (small literals only)
    [255, (sh v 7) % 256, (sh v 6) % 256, (sh v 5) % 256, (sh v 4) % 256,
      (sh v 3) % 256, (sh v 2) % 256, (sh v 1) % 256, v % 256]

inductive Res where
  | ok (value consumed : Nat)
  | err (kind : String)
  | oob
  deriving Repr, DecidableEq

/-- checked read: index outside the buffer is the `oob` outcome. -/
def rd (buf : List Nat) (i : Nat) (k : Nat → Res) : Res :=
  match buf[i]? with
  | none => .oob
  | some b => k b

/-- `decode_varint`, same guards in the same order. -/
def decode (buf : List Nat) : Res :=
  if buf.isEmpty then .err "empty" else
  rd buf 0 fun first =>
  if first ≤ 240 then .ok first 1
  else if first ≤ 248 then
    if buf.length < 2 then .err "trunc2" else
    rd buf 1 fun b1 => .ok (240 + (first - 241) * 256 + b1) 2
  else if first = 249 then
    if buf.length < 3 then .err "trunc3" else
    rd buf 1 fun b1 => rd buf 2 fun b2 => .ok (2288 + b1 * 256 + b2) 3
  else if first = 250 then
    if buf.length < 4 then .err "trunc4" else
    rd buf 1 fun b1 => rd buf 2 fun b2 => rd buf 3 fun b3 =>
      .ok ((b1 * 256 + b2) * 256 + b3) 4
  else if first = 251 then
    if buf.length < 5 then .err "trunc5" else
    rd buf 1 fun b1 => rd buf 2 fun b2 => rd buf 3 fun b3 => rd buf 4 fun b4 =>
      .ok (((b1 * 256 + b2) * 256 + b3) * 256 + b4) 5
  else if first = 255 then
    if buf.length < 9 then .err "trunc9" else
    rd buf 1 fun b1 => rd buf 2 fun b2 => rd buf 3 fun b3 => rd buf 4 fun b4 =>
    rd buf 5 fun b5 => rd buf 6 fun b6 => rd buf 7 fun b7 => rd buf 8 fun b8 =>
      -- `u64::from_be_bytes`, Horner form
      .ok (((((((b1 * 256 + b2) * 256 + b3) * 256 + b4) * 256 + b5) * 256 + b6) * 256 + b7) * 256 + b8) 9
  else .err "marker"

end TurVerif.Varint
