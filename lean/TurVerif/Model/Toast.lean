/-
M-code model of TOAST: /repo/src/storage/toast.rs (constants, `ToastPointer`, `make_chunk_key`,
`chunk_count`, `needs_toast`, `is_toast_pointer`), the toasting loop of
src/database/dml/insert.rs / src/database/toast.rs `toast_value`
(`for (seq, chunk) in data.chunks(TOAST_CHUNK_SIZE).enumerate() { btree.insert(key(chunk_id, seq), chunk) }`),
`detoast_value` (look up `chunk_count(total_size)` keys, concatenate, truncate) and the read path
`OwnedValue::from_record_column` (TEXT/BLOB column: 17 bytes starting with 0xFE are a toast
pointer) followed by `detoast_rows` (detoasted bytes become TEXT when they are valid UTF-8,
BLOB otherwise).

The TOAST B-tree is modelled as an association list from 12-byte chunk keys to chunk contents
(lookup = first match; the record layer C31 and the B-tree C28/C29 are other properties and are
the identity here).  Bytes are `Nat`s.
-/
namespace TurVerif.Toast

def TOAST_MARKER : Nat := 254
def TOAST_POINTER_SIZE : Nat := 17
def TOAST_THRESHOLD : Nat := 1000
def TOAST_CHUNK_SIZE : Nat := 4000

/-- `needs_toast` -/
def needsToast (data : List Nat) : Bool := data.length > TOAST_THRESHOLD

/-- `chunk_count`: `total_size.div_ceil(TOAST_CHUNK_SIZE)` -/
def chunkCount (total : Nat) : Nat := (total + (TOAST_CHUNK_SIZE - 1)) / TOAST_CHUNK_SIZE

/-- little-endian bytes, `k` of them -/
def leBytes : Nat → Nat → List Nat
  | 0, _ => []
  | k + 1, v => v % 256 :: leBytes k (v / 256)

def beBytes (k v : Nat) : List Nat := (leBytes k v).reverse

def leVal : List Nat → Nat
  | [] => 0
  | b :: t => b + 256 * leVal t

def beVal (bs : List Nat) : Nat := leVal bs.reverse

/-- `ToastPointer::new`: `chunk_id = ((column_index as u64) << 48) | row_id` -/
def chunkId (rowId colIdx : Nat) : Nat := (colIdx <<< 48) ||| rowId

structure Pointer where
  totalSize : Nat
  chunkId : Nat
  deriving Repr, DecidableEq

/-- `ToastPointer::encode` -/
def Pointer.encode (p : Pointer) : List Nat :=
  TOAST_MARKER :: (leBytes 8 p.totalSize ++ leBytes 8 p.chunkId)

/-- `ToastPointer::decode` (`none` = the two `ensure!` failures) -/
def Pointer.decode (data : List Nat) : Option Pointer :=
  if data.length < TOAST_POINTER_SIZE then none
  else match data with
    | m :: rest =>
      if m = TOAST_MARKER then some ⟨leVal (rest.take 8), leVal ((rest.drop 8).take 8)⟩ else none
    | [] => none

/-- `is_toast_pointer` -/
def isToastPointer (data : List Nat) : Bool :=
  data.length == TOAST_POINTER_SIZE && data.head? == some TOAST_MARKER

/-- `make_chunk_key` -/
def chunkKey (cid seq : Nat) : List Nat := beBytes 8 cid ++ beBytes 4 seq

/-- `<[u8]>::chunks(n)`: consecutive slices of length `n`, the last one possibly shorter;
no chunk for empty input.  `fuel` bounds the number of chunks. -/
def chunksF (n : Nat) : Nat → List Nat → List (List Nat)
  | 0, _ => []
  | f + 1, l => if l.isEmpty then [] else l.take n :: chunksF n f (l.drop n)

def chunks (n : Nat) (l : List Nat) : List (List Nat) := chunksF n l.length l

/-- The TOAST B-tree: chunk key ↦ chunk.  Keys are kept as the pair (chunk_id, chunk_seq); their
12-byte encoding is `chunkKey` (injective, `chunkKey_injective` in Props/C11).  The code casts
`seq as u32`; the model keeps `seq` (fewer than 2^32 chunks = 16 TB is assumed). -/
abbrev Store := List ((Nat × Nat) × List Nat)

def Store.get (s : Store) (k : Nat × Nat) : Option (List Nat) :=
  match s with
  | [] => none
  | e :: t => if e.1 = k then some e.2 else Store.get t k

/-- `BTree::insert`: fails with "key already exists" on a duplicate key -/
def Store.insert (s : Store) (k : Nat × Nat) (v : List Nat) : Option Store :=
  match s.get k with
  | some _ => none
  | none => some ((k, v) :: s)

/-- the insertion loop: chunk `seq` goes under `(cid, seq)`; `none` = an insert failed -/
def insertChunks (cid : Nat) : Nat → List (List Nat) → Store → Option Store
  | _, [], st => some st
  | seq, c :: cs, st =>
    match st.insert (cid, seq) c with
    | none => none
    | some st' => insertChunks cid (seq + 1) cs st'

/-- `toast_value`: returns the pointer and the new store (`none` = "key already exists") -/
def toastValue (st : Store) (rowId colIdx : Nat) (data : List Nat) : Option (Pointer × Store) :=
  let p : Pointer := ⟨data.length, chunkId rowId colIdx⟩
  (insertChunks p.chunkId 0 (chunks TOAST_CHUNK_SIZE data) st).map (fun st' => (p, st'))

/-- the lookup loop of `detoast_value` for `seq = from .. from+n-1` -/
def collect (st : Store) (cid : Nat) : Nat → Nat → Option (List Nat)
  | _, 0 => some []
  | seq, n + 1 =>
    match st.get (cid, seq) with
    | none => none   -- "TOAST chunk not found"
    | some c => (collect st cid (seq + 1) n).map (fun r => c ++ r)

/-- `detoast_value` -/
def detoastValue (st : Store) (ptr : List Nat) : Option (List Nat) :=
  match Pointer.decode ptr with
  | none => none
  | some p => (collect st p.chunkId 0 (chunkCount p.totalSize)).map (fun r => r.take p.totalSize)

/-! ### UTF-8 validity (`String::from_utf8(..).is_ok()`, Unicode 15 table 3-7) -/
def isCont (b : Nat) : Bool := 128 ≤ b && b ≤ 191

def validUtf8 : List Nat → Bool
  | [] => true
  | [b0] => b0 < 128
  | [b0, b1] =>
    if b0 < 128 then validUtf8 [b1]
    else 194 ≤ b0 && b0 ≤ 223 && isCont b1
  | b0 :: b1 :: b2 :: t =>
    if b0 < 128 then validUtf8 (b1 :: b2 :: t)
    else if 194 ≤ b0 && b0 ≤ 223 then isCont b1 && validUtf8 (b2 :: t)
    else if b0 == 224 then 160 ≤ b1 && b1 ≤ 191 && isCont b2 && validUtf8 t
    else if (225 ≤ b0 && b0 ≤ 236) || b0 == 238 || b0 == 239 then isCont b1 && isCont b2 && validUtf8 t
    else if b0 == 237 then 128 ≤ b1 && b1 ≤ 159 && isCont b2 && validUtf8 t
    else
      match t with
      | b3 :: t' =>
        if b0 == 240 then 144 ≤ b1 && b1 ≤ 191 && isCont b2 && isCont b3 && validUtf8 t'
        else if 241 ≤ b0 && b0 ≤ 243 then isCont b1 && isCont b2 && isCont b3 && validUtf8 t'
        else if b0 == 244 then 128 ≤ b1 && b1 ≤ 143 && isCont b2 && isCont b3 && validUtf8 t'
        else false
      | [] => false

/-! ### the column write / read chain for TEXT and BLOB columns -/
inductive ColTy where
  | text
  | blob
  deriving Repr, DecidableEq

inductive Val where
  | text (b : List Nat)
  | blob (b : List Nat)
  deriving Repr, DecidableEq

def Val.bytes : Val → List Nat
  | .text b => b
  | .blob b => b

/-- INSERT of one TEXT/BLOB value in row `rowId`, column `colIdx` of a table that has a TOAST
table: the bytes stored in the record (inline value or pointer) and the new TOAST store;
`none` = the statement fails ("key already exists"). -/
def writeCol (st : Store) (rowId colIdx : Nat) (v : Val) : Option (List Nat × Store) :=
  if needsToast v.bytes then
    (toastValue st rowId colIdx v.bytes).map (fun r => (r.1.encode, r.2))
  else some (v.bytes, st)

/-- SELECT of that column: `from_record_column` + `detoast_rows`.  `none` = the statement fails.
(For an inline TEXT value the code applies `from_utf8_lossy`, the identity on valid UTF-8; a TEXT
value is always valid UTF-8 on the write side, so the model returns the bytes.) -/
def readCol (st : Store) (ty : ColTy) (stored : List Nat) : Option Val :=
  if isToastPointer stored then
    match detoastValue st stored with
    | none => none
    | some d => if validUtf8 d then some (.text d) else some (.blob d)
  else match ty with
    | .text => some (.text stored)
    | .blob => some (.blob stored)

/-- write then read, starting from TOAST store `st` -/
def roundTripIn (st : Store) (rowId colIdx : Nat) (ty : ColTy) (v : Val) : Option Val :=
  match writeCol st rowId colIdx v with
  | none => none
  | some w => readCol w.2 ty w.1

/-- write then read in an otherwise empty TOAST store -/
def roundTrip (rowId colIdx : Nat) (ty : ColTy) (v : Val) : Option Val :=
  roundTripIn [] rowId colIdx ty v

end TurVerif.Toast
