import TurVerif.Model.DecCore
/-
M-code model of the 128-byte file headers:
  /repo/src/storage/headers.rs  `MetaFileHeader / TableFileHeader / IndexFileHeader ::from_bytes`
  /repo/src/hnsw/storage.rs     `HnswFileHeader::from_bytes`
  /repo/src/storage/wal.rs      `WalSegment::read_frame` (header 32 bytes + page 16384 bytes +
                                 CRC-64 gate) over the bytes remaining in the segment file
All header structs are `Unaligned` zerocopy structs of exactly 128 bytes: after the length
guard `ref_from_bytes(&bytes[..128])` cannot fail.
-/
namespace TurVerif.FileHdr
open TurVerif.Dec

def FILE_HEADER_SIZE : Nat := 128

/-- b"TurDB Rust v1\0\0\0" -/
def META_MAGIC : List Nat := [84, 117, 114, 68, 66, 32, 82, 117, 115, 116, 32, 118, 49, 0, 0, 0]
/-- b"TurDB Table\0\0\0\0\0" -/
def TABLE_MAGIC : List Nat := [84, 117, 114, 68, 66, 32, 84, 97, 98, 108, 101, 0, 0, 0, 0, 0]
/-- b"TurDB Index\0\0\0\0\0" -/
def INDEX_MAGIC : List Nat := [84, 117, 114, 68, 66, 32, 73, 110, 100, 101, 120, 0, 0, 0, 0, 0]
/-- b"TurDB HNSW\0\0\0\0\0\0" -/
def HNSW_MAGIC : List Nat := [84, 117, 114, 68, 66, 32, 72, 78, 83, 87, 0, 0, 0, 0, 0, 0]

/-- `MetaFileHeader::from_bytes`: (page_size, schema_count, default_schema, next_table, next_index, flags) -/
def metaFromBytes (b : Buf) : Res (List Nat) :=
  (ensure (decide (FILE_HEADER_SIZE ≤ b.len)) "short").bind fun _ =>
  (slice b 0 FILE_HEADER_SIZE).bind fun h =>
  (ensure (decide (h.take 16 = META_MAGIC)) "magic").bind fun _ =>
  (ensure (decide (le ((h.drop 16).take 4) = 1)) "version").bind fun _ =>
  .ok [le ((h.drop 20).take 4), le ((h.drop 24).take 8), le ((h.drop 32).take 8),
       le ((h.drop 40).take 8), le ((h.drop 48).take 8), le ((h.drop 56).take 8)]

/-- `TableFileHeader::from_bytes`: (table_id, row_count, root_page, column_count, first_free,
auto_increment, rightmost_hint) -/
def tableFromBytes (b : Buf) : Res (List Nat) :=
  (ensure (decide (FILE_HEADER_SIZE ≤ b.len)) "short").bind fun _ =>
  (slice b 0 FILE_HEADER_SIZE).bind fun h =>
  (ensure (decide (h.take 16 = TABLE_MAGIC)) "magic").bind fun _ =>
  .ok [le ((h.drop 16).take 8), le ((h.drop 24).take 8), le ((h.drop 32).take 4),
       le ((h.drop 36).take 4), le ((h.drop 40).take 8), le ((h.drop 48).take 8),
       le ((h.drop 56).take 4)]

/-- `IndexFileHeader::from_bytes`: (index_id, table_id, root_page, key_cols, is_unique≠0, index_type) -/
def indexFromBytes (b : Buf) : Res (List Nat) :=
  (ensure (decide (FILE_HEADER_SIZE ≤ b.len)) "short").bind fun _ =>
  (slice b 0 FILE_HEADER_SIZE).bind fun h =>
  (ensure (decide (h.take 16 = INDEX_MAGIC)) "magic").bind fun _ =>
  .ok [le ((h.drop 16).take 8), le ((h.drop 24).take 8), le ((h.drop 32).take 4),
       le ((h.drop 36).take 4), (if h.getD 40 0 ≠ 0 then 1 else 0), h.getD 41 0]

/-- `HnswFileHeader::from_bytes`: the magic is compared on `&data[..16]` before the cast.
(index_id, table_id, dims, m, m0, ef_c, ef_s, distance_fn class, quantization class,
 entry_point present, ep page, ep slot (0 0 when absent), max_level, node_count, vector_count, first_free) -/
def hnswFromBytes (b : Buf) : Res (List Nat) :=
  (ensure (decide (FILE_HEADER_SIZE ≤ b.len)) "short").bind fun _ =>
  (slice b 0 16).bind fun m =>
  (ensure (decide (m = HNSW_MAGIC)) "magic").bind fun _ =>
  (slice b 0 FILE_HEADER_SIZE).bind fun h =>
  let df := h.getD 42 0
  let q := h.getD 43 0
  let epp := le ((h.drop 44).take 4)
  .ok [le ((h.drop 16).take 8), le ((h.drop 24).take 8), le ((h.drop 32).take 2),
       le ((h.drop 34).take 2), le ((h.drop 36).take 2), le ((h.drop 38).take 2),
       le ((h.drop 40).take 2), (if df = 1 then 1 else if df = 2 then 2 else 0),
       (if q = 1 then 1 else if q = 2 then 2 else 0),
       (if epp = 4294967295 then 0 else 1), (if epp = 4294967295 then 0 else epp),
       (if epp = 4294967295 then 0 else le ((h.drop 48).take 2)), h.getD 50 0,
       le ((h.drop 52).take 8), le ((h.drop 60).take 8), le ((h.drop 68).take 4)]

/-! ### WAL frame -/
def WAL_FRAME_HEADER_SIZE : Nat := 32
def PAGE_SIZE : Nat := 16384

/-- `WalSegment::read_frame` on the `b.len` bytes that remain in the file.  `read_exact` fails
(→ `Err`) when fewer bytes remain than requested.  `crc` is CRC-64/ECMA-182 over the first 24
header bytes followed by the page (uninterpreted).  Result: (file_id, page_no, db_size). -/
def readFrame (crc : List Nat → Nat) (b : Buf) : Res (Nat × Nat × Nat) :=
  (ensure (decide (WAL_FRAME_HEADER_SIZE ≤ b.len)) "header-eof").bind fun _ =>
  (slice b 0 WAL_FRAME_HEADER_SIZE).bind fun h =>
  (ensure (decide (WAL_FRAME_HEADER_SIZE + PAGE_SIZE ≤ b.len)) "page-eof").bind fun _ =>
  (slice b WAL_FRAME_HEADER_SIZE (WAL_FRAME_HEADER_SIZE + PAGE_SIZE)).bind fun page =>
  -- `validate_checksum` (after the zero-frame fix): a slot with checksum 0 and both salts 0 was
  -- never written
  (ensure (decide (¬ (le ((h.drop 24).take 8) = 0 ∧ le ((h.drop 16).take 4) = 0 ∧
      le ((h.drop 20).take 4) = 0))) "checksum").bind fun _ =>
  (ensure (decide (crc (h.take 24 ++ page) = le ((h.drop 24).take 8))) "checksum").bind fun _ =>
  .ok (le (h.take 8), le ((h.drop 8).take 4), le ((h.drop 12).take 4))

/-- what `Wal::recover` computes from an accepted frame before touching storage:
`header.db_size.max(header.page_no + 1)` is a checked u32 addition, evaluated only when the
page is beyond the current page count -/
def recoverRequiredPages (pageCount pageNo dbSize : Nat) : Res (Option Nat) :=
  if pageCount ≤ pageNo then
    if pageNo + 1 < 4294967296 then .ok (some (max dbSize (pageNo + 1))) else .arith
  else .ok none

end TurVerif.FileHdr
