/-
M-code model of /repo/src/hnsw  (mod.rs `PersistentHnswIndex`, search.rs, operations.rs and the
slot status of storage.rs).  Distances are supplied by the caller as a function of the ROW id
(the code asks a callback `get_vector(row_id)` and computes the distance itself); `D.inf` is
`f32::INFINITY` (callback returned `None`).

Faithful details that matter for the properties:
  * `read_node` goes through `read_node_data`, which REJECTS a slot that is not `Active`:
    a node marked deleted is unreadable – distance ∞ (search) / distance of row 0 (insert),
    no neighbours, reported with row id 0, and `insert` fails with an error when it has to read one;
  * `vacuum_batch` starts by reading the deleted node, fails, and `continue`s: it never unlinks;
  * the two heaps are Rust's `std::collections::BinaryHeap` (array, `sift_up`,
    `sift_down_to_bottom`), transcribed with swaps so that ties are broken exactly as in the code;
  * `finalize_results(1)` after `finalize_results(max_neighbors)` finds the heap empty, so the
    entry candidate of the connection phase never changes;
  * neighbour lists are capped by the constants 32 (level 0) / 16 (higher levels), additions beyond
    the cap are dropped silently (one-directional edges); there is no pruning;
  * the header fields (entry point, max level, node count) reach the file only in `sync`.
-/
namespace TurVerif.Hnsw

/-- an `f32` distance: finite or +∞ (no NaN arises from finite vectors) -/
inductive D where
  | fin (q : Rat)
  | inf
  deriving Repr, Inhabited

def D.lt : D → D → Bool
  | .fin a, .fin b => decide (a < b)
  | .fin _, .inf => true
  | .inf, _ => false

/-- `a <= b` on distances (no NaN: total) -/
def D.le (a b : D) : Bool := !(D.lt b a)

abbrev NodeId := Nat
/-- `NodeId::none()` (page `u32::MAX`) -/
def noneId : NodeId := 4294967295

def capL0 : Nat := 32
def capHi : Nat := 16

structure Node where
  rowId : Nat
  level : Nat
  /-- `nbrs[l]` = neighbours at level `l`, `l = 0..level` -/
  nbrs : List (List NodeId)
  deleted : Bool
  deriving Repr, Inhabited

inductive Entry where
  | unset
  | at (n : NodeId)
  deriving Repr, DecidableEq, Inhabited

structure Hdr where
  entry : Entry := .unset
  maxLevel : Nat := 0
  nodeCount : Nat := 0
  deriving Repr, Inhabited

structure Index where
  m : Nat := 16
  m0 : Nat := 32
  efC : Nat := 100
  nodes : List Node := []
  entry : Entry := .unset
  maxLevel : Nat := 0
  nodeCount : Nat := 0
  queue : List NodeId := []
  /-- `row_id_map` -/
  rowMap : List (Nat × NodeId) := []
  /-- the header page as of the last `sync` -/
  hdr : Hdr := {}
  deriving Repr, Inhabited

/-! ### nodes -/

/-- `read_node`: fails for an out-of-range id and for a slot that is not active -/
def Index.readNode (s : Index) (n : NodeId) : Option Node :=
  match s.nodes[n]? with
  | some nd => if nd.deleted then none else some nd
  | none => none

def Node.neighborsAt (nd : Node) (l : Nat) : List NodeId := nd.nbrs.getD l []

/-- `add_neighbor_at_level`: silently dropped when the level does not exist or the list is full -/
def Node.addNeighbor (nd : Node) (l : Nat) (x : NodeId) : Node :=
  match nd.nbrs[l]? with
  | none => nd
  | some cur =>
    let cap := if l = 0 then capL0 else capHi
    if cur.length < cap then { nd with nbrs := nd.nbrs.set l (cur ++ [x]) } else nd

/-- `remove_neighbor_at_level`: first occurrence -/
def Node.removeNeighbor (nd : Node) (l : Nat) (x : NodeId) : Node :=
  match nd.nbrs[l]? with
  | none => nd
  | some cur => { nd with nbrs := nd.nbrs.set l (cur.erase x) }

/-- `update_node` (the slot is written whatever its status) -/
def Index.setNode (s : Index) (n : NodeId) (nd : Node) : Index :=
  { s with nodes := s.nodes.set n nd }

def Index.getNeighbors (s : Index) (n : NodeId) (l : Nat) : List NodeId :=
  match s.readNode n with
  | some nd => nd.neighborsAt l
  | none => []

/-! ### Rust `BinaryHeap` -/

structure Cand where
  node : NodeId
  dist : D
  deriving Repr, Inhabited

/-- `a <= b` for `Candidate` (ordering reversed: the heap top is the NEAREST) -/
def candLe (a b : Cand) : Bool := D.le b.dist a.dist
/-- `a <= b` for `ReverseCandidate` (the heap top is the FARTHEST) -/
def resLe (a b : Cand) : Bool := D.le a.dist b.dist

def swap {α : Type} (l : List α) (i j : Nat) : List α :=
  match l[i]?, l[j]? with
  | some x, some y => (l.set i y).set j x
  | _, _ => l

/-- `sift_up(0, pos)` -/
def siftUp {α : Type} (le : α → α → Bool) : Nat → List α → Nat → List α
  | 0, l, _ => l
  | fuel + 1, l, pos =>
    if pos = 0 then l
    else
      let parent := (pos - 1) / 2
      match l[pos]?, l[parent]? with
      | some x, some p => if le x p then l else siftUp le fuel (swap l pos parent) parent
      | _, _ => l

/-- the descent of `sift_down_to_bottom`: returns the array and the final hole position -/
def siftDown {α : Type} (le : α → α → Bool) : Nat → List α → Nat → List α × Nat
  | 0, l, pos => (l, pos)
  | fuel + 1, l, pos =>
    let child := 2 * pos + 1
    if child + 1 < l.length then
      match l[child]?, l[child + 1]? with
      | some a, some b =>
        let c := if le a b then child + 1 else child
        siftDown le fuel (swap l pos c) c
      | _, _ => (l, pos)
    else if child + 1 = l.length then (swap l pos child, child)
    else (l, pos)

def heapPush {α : Type} (le : α → α → Bool) (l : List α) (x : α) : List α :=
  siftUp le (l.length + 1) (l ++ [x]) l.length

def heapPop {α : Type} (le : α → α → Bool) (l : List α) : Option (α × List α) :=
  match l.getLast? with
  | none => none
  | some item =>
    match l.dropLast with
    | [] => some (item, [])
    | top :: tl =>
      let l1 := item :: tl
      let r := siftDown le l1.length l1 0
      some (top, siftUp le (r.1.length + 1) r.1 r.2)

/-! ### search context -/

structure Ctx where
  cands : List Cand := []
  results : List Cand := []
  visited : List NodeId := []
  ef : Nat
  deriving Repr, Inhabited

def Ctx.worst (c : Ctx) : D :=
  match c.results.head? with
  | some r => r.dist
  | none => .inf

def Ctx.addCand (c : Ctx) (x : Cand) : Ctx := { c with cands := heapPush candLe c.cands x }

def Ctx.addResult (c : Ctx) (x : Cand) : Ctx :=
  let r := heapPush resLe c.results x
  if r.length > c.ef then
    match heapPop resLe r with
    | some (_, r') => { c with results := r' }
    | none => { c with results := r }
  else { c with results := r }

/-- one neighbour inside the beam-search loop -/
def visitNb (dist : NodeId → D) (c : Ctx) (nb : NodeId) : Ctx :=
  if c.visited.contains nb then c
  else
    let c := { c with visited := nb :: c.visited }
    let d := dist nb
    if D.lt d c.worst || c.results.length < c.ef then (c.addCand ⟨nb, d⟩).addResult ⟨nb, d⟩ else c

def beamLoop (getN : NodeId → List NodeId) (dist : NodeId → D) : Nat → Ctx → Ctx
  | 0, c => c
  | fuel + 1, c =>
    match heapPop candLe c.cands with
    | none => c
    | some (cur, rest) =>
      let c := { c with cands := rest }
      if D.lt c.worst cur.dist then c
      else beamLoop getN dist fuel ((getN cur.node).foldl (visitNb dist) c)

/-- `beam_search` with a single entry candidate (all callers pass exactly one) -/
def beamSearch (ef : Nat) (fuel : Nat) (entry : Cand) (getN : NodeId → List NodeId)
    (dist : NodeId → D) : Ctx :=
  let c : Ctx := { ef := ef }
  let c := { c with visited := [entry.node] }
  let c := (c.addCand entry).addResult entry
  beamLoop getN dist fuel c

/-- pop everything off the results heap (farthest first) -/
def popAll : Nat → List Cand → List Cand → List Cand
  | 0, _, acc => acc
  | fuel + 1, h, acc =>
    match heapPop resLe h with
    | none => acc
    | some (x, h') => popAll fuel h' (x :: acc)

/-- `finalize_results(k)`: pops (farthest first), reverses, truncates -/
def finalize (c : Ctx) (k : Nat) : List Cand :=
  (popAll c.results.length c.results []).take k

/-! ### greedy search -/

def greedyStep (getN : NodeId → List NodeId) (dist : NodeId → D) (cur : NodeId) (curD : D) :
    NodeId × D :=
  (getN cur).foldl (fun (b : NodeId × D) nb =>
    let d := dist nb
    if D.lt d b.2 then (nb, d) else b) (cur, curD)

def greedy (getN : NodeId → List NodeId) (dist : NodeId → D) : Nat → NodeId → D → NodeId × D
  | 0, cur, d => (cur, d)
  | fuel + 1, cur, d =>
    let r := greedyStep getN dist cur d
    if r.1 = cur then (cur, d) else greedy getN dist fuel r.1 r.2

/-! ### search -/

structure Hit where
  node : NodeId
  rowId : Nat
  dist : D
  deriving Repr, Inhabited

/-- distance used by `search`: unreadable node → ∞ -/
def Index.searchDist (s : Index) (vd : Nat → D) (n : NodeId) : D :=
  match s.readNode n with
  | some nd => vd nd.rowId
  | none => .inf

/-- `for level in (1..=max_level).rev()` -/
def descend (s : Index) (dist : NodeId → D) : Nat → NodeId × D → NodeId × D
  | 0, p => p
  | l + 1, p => descend s dist l (greedy (fun n => s.getNeighbors n (l + 1)) dist 1000 p.1 p.2)

def Index.beamFuel (s : Index) : Nat := s.nodes.length + 2

/-- the level-0 beam of `search` (exposed for the theorems) -/
def Index.searchCtx (s : Index) (ef : Nat) (vd : Nat → D) (ep : NodeId) : Ctx :=
  let dist := s.searchDist vd
  let p := descend s dist s.maxLevel (ep, dist ep)
  beamSearch ef s.beamFuel ⟨p.1, p.2⟩ (fun n => s.getNeighbors n 0) dist

/-- `PersistentHnswIndex::search(query, k, ctx(ef), get_vector)` -/
def Index.search (s : Index) (k ef : Nat) (vd : Nat → D) : List Hit :=
  match s.entry with
  | .unset => []
  | .at ep =>
    (finalize (s.searchCtx ef vd ep) k).map fun c =>
      { node := c.node
        rowId := match s.readNode c.node with
          | some nd => nd.rowId
          | none => 0
        dist := c.dist }

/-! ### insert -/

inductive InsRes where
  | ok (n : NodeId)
  | errEntry     -- `self.read_node(entry_point)?` failed
  | errNeighbor  -- `self.read_node(neighbor_id)?` failed while connecting
  deriving Repr, DecidableEq, Inhabited

/-- distance used by `insert`: unreadable node → row id 0 (`unwrap_or(0)`) -/
def Index.insertDist (s : Index) (vd : Nat → D) (n : NodeId) : D :=
  match s.readNode n with
  | some nd => vd nd.rowId
  | none => vd 0

/-- `insert_descent_phase`: levels `target + cnt, …, target + 1` -/
def insDescend (s : Index) (dist : NodeId → D) (target : Nat) : Nat → NodeId × D → NodeId × D
  | 0, p => p
  | c + 1, p =>
    insDescend s dist target c
      (greedy (fun n => s.getNeighbors n (target + c + 1)) dist 1000 p.1 p.2)

/-- `insert_connection_phase`: levels `lv, lv-1, …, 0`; the entry candidate never changes -/
def insConnect (s : Index) (dist : NodeId → D) (entry : Cand) : Nat → List (Nat × List NodeId)
  | 0 =>
    [(0, (finalize (beamSearch s.efC s.beamFuel entry (fun n => s.getNeighbors n 0) dist) s.m0).map
      (·.node))]
  | l + 1 =>
    (l + 1, (finalize (beamSearch s.efC s.beamFuel entry (fun n => s.getNeighbors n (l + 1)) dist)
      s.m).map (·.node)) :: insConnect s dist entry l

/-- the inner `for &neighbor_id in &neighbors` loop; `none` = a neighbour was unreadable (the
updates made so far stay, the new node's own list for this level is NOT written) -/
def linkLevel (nid : NodeId) (level : Nat) : List NodeId → Index → Node → Index × Option Node
  | [], s, cur => (s, some cur)
  | nb :: rest, s, cur =>
    let cur := cur.addNeighbor level nb
    match s.readNode nb with
    | none => (s, none)
    | some nbn => linkLevel nid level rest (s.setNode nb (nbn.addNeighbor level nid)) cur

def linkAll (nid : NodeId) : List (Nat × List NodeId) → Index → Index × Bool
  | [], s => (s, true)
  | (level, sel) :: rest, s =>
    match s.readNode nid with
    | none => (s, false)
    | some cur =>
      match linkLevel nid level sel s cur with
      | (s', none) => (s', false)
      | (s', some cur') => linkAll nid rest (s'.setNode nid cur')

def mapInsert (m : List (Nat × NodeId)) (k : Nat) (v : NodeId) : List (Nat × NodeId) :=
  (k, v) :: m.filter (fun p => p.1 != k)

/-- `insert_with_callback(row_id, vector, random)`; `level = select_level(random, ml)` -/
def Index.insert (s : Index) (rowId level : Nat) (vd : Nat → D) : Index × InsRes :=
  let nid := s.nodes.length
  let node : Node := { rowId := rowId, level := level, nbrs := List.replicate (level + 1) [], deleted := false }
  let s := { s with nodes := s.nodes ++ [node], nodeCount := s.nodeCount + 1,
                    rowMap := mapInsert s.rowMap rowId nid }
  match s.entry with
  | .unset => ({ s with entry := .at nid, maxLevel := max s.maxLevel level }, .ok nid)
  | .at ep =>
    match s.readNode ep with
    | none => (s, .errEntry)
    | some epn =>
      let dist := s.insertDist vd
      let p := insDescend s dist level (s.maxLevel - level) (ep, vd epn.rowId)
      let plan := insConnect s dist ⟨p.1, p.2⟩ level
      match linkAll nid plan s with
      | (s', false) => (s', .errNeighbor)
      | (s', true) =>
        if level > s'.maxLevel then ({ s' with entry := .at nid, maxLevel := level }, .ok nid)
        else (s', .ok nid)

/-! ### delete, vacuum, sync, reopen -/

inductive DelRes where
  | ok
  | noSuchRow
  | errNotActive
  deriving Repr, DecidableEq, Inhabited

/-- `delete_by_row_id` -/
def Index.delete (s : Index) (rowId : Nat) : Index × DelRes :=
  match s.rowMap.find? (fun p => p.1 == rowId) with
  | none => (s, .noSuchRow)
  | some (_, nid) =>
    let s := { s with rowMap := s.rowMap.filter (fun p => p.1 != rowId) }
    match s.nodes[nid]? with
    | none => (s, .errNotActive)
    | some nd =>
      if nd.deleted then (s, .errNotActive)
      else
        ({ s with nodes := s.nodes.set nid { nd with deleted := true },
                  queue := s.queue ++ [nid], nodeCount := s.nodeCount - 1 }, .ok)

/-- unlink one vacuumed node from the neighbours at one level -/
def unlinkLevel (dead : NodeId) (level : Nat) : List NodeId → Index → Index
  | [], s => s
  | nb :: rest, s =>
    if nb = noneId then unlinkLevel dead level rest s
    else
      match s.readNode nb with
      | some n => unlinkLevel dead level rest (s.setNode nb (n.removeNeighbor level dead))
      | none => unlinkLevel dead level rest s

def unlinkLevels (dead : NodeId) (nd : Node) : Nat → Index → Index
  | 0, s => unlinkLevel dead 0 (nd.neighborsAt 0) s
  | l + 1, s => unlinkLevel dead (l + 1) (nd.neighborsAt (l + 1)) (unlinkLevels dead nd l s)

def vacuumOne (s : Index) (dead : NodeId) : Index :=
  match s.readNode dead with
  | none => s                       -- `Err(_) => continue`
  | some nd =>
    let s := unlinkLevels dead nd nd.level s
    if s.entry = .at dead then { s with entry := .at noneId } else s  -- `find_new_entry_point`

/-- `vacuum_batch(max_nodes)`; returns the batch size -/
def Index.vacuum (s : Index) (maxNodes : Nat) : Index × Nat :=
  let batch := s.queue.take maxNodes
  let s := { s with queue := s.queue.drop maxNodes }
  (batch.foldl vacuumOne s, batch.length)

def Index.sync (s : Index) : Index :=
  { s with hdr := { entry := s.entry, maxLevel := s.maxLevel, nodeCount := s.nodeCount } }

def rebuildMap : List Node → Nat → List (Nat × NodeId) → List (Nat × NodeId)
  | [], _, m => m
  | nd :: rest, i, m => rebuildMap rest (i + 1) (if nd.deleted then m else mapInsert m nd.rowId i)

/-- drop the handle and `open` the file again: header fields as last synced, `Some(NodeId::none())`
reads back as `None`, the row-id map is rebuilt from the active slots, the vacuum queue is lost -/
def Index.reopen (s : Index) : Index :=
  { s with
    entry := (match s.hdr.entry with
      | .at n => if n = noneId then .unset else .at n
      | .unset => .unset)
    maxLevel := s.hdr.maxLevel
    nodeCount := s.hdr.nodeCount
    queue := []
    rowMap := rebuildMap s.nodes 0 [] }

end TurVerif.Hnsw
