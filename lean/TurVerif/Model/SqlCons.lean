import TurVerif.Model.SqlDb
/-
C09 extension of the relational state machine `TurVerif.SqlDb` (M-spec):

* `wouldBe s w` — the would-be post-state of a write statement *before* constraint validation
  (the same computation `SqlDb.step` performs, plus the ON UPDATE CASCADE referential action that
  `SqlDb.step` does not have);
* `step s w = applyValid s (wouldBe s w)` — a write succeeds iff the would-be state is valid;
  non-write statements are delegated to `SqlDb.step`;
* `violations` — which constraint kinds a state violates, per table (used by the harness to name
  the constraint kind in signatures).
Imports only the import-free `TurVerif.Model.SqlDb`.
-/
namespace TurVerif.SqlCons
open TurVerif.Sql TurVerif.SqlDb

/-- (old row, new row) for every row selected by the UPDATE, and all rows after the update -/
def updatePairs (sets : List (Nat × Expr)) (whr : Option Expr) : List Row →
    Except Err (List Row × List (Row × Row))
  | [] => .ok ([], [])
  | r :: rs =>
    match optKeeps whr r, updatePairs sets whr rs with
    | .ok true, .ok (all, ps) => match updateRow sets r with
      | .ok r' => .ok (r' :: all, (r, r') :: ps)
      | .error e => .error e
    | .ok false, .ok (all, ps) => .ok (r :: all, ps)
    | .error e, _ => .error e
    | _, .error e => .error e

/-- write the values `k` into the columns `ix` of a row -/
def setKey (r : Row) : List Nat → List Val → Row
  | i :: is, v :: vs => setKey (setAt r i v) is vs
  | _, _ => r

/-- new child row under ON UPDATE CASCADE: if its (non-NULL) key equals the old key of some updated
parent row whose key changed, it takes that parent's new key -/
def cascadeRow (f : Fk) (pairs : List (Row × Row)) (r : Row) : Row :=
  let k := keyOf r f.cols
  if keyHasNull k then r else
  match pairs.find? (fun p => rowSame k (keyOf p.1 f.pcols) && !rowSame (keyOf p.1 f.pcols) (keyOf p.2 f.pcols)) with
  | some p => setKey r f.cols (keyOf p.2 f.pcols)
  | none => r

/-- referential action on UPDATE of parent keys (one level): children of ON UPDATE CASCADE foreign
keys follow the parent; RESTRICT / NO ACTION are caught by `dbValid` afterwards -/
def cascadeRows (parent : String) (pairs : List (Row × Row)) (t : TableSt) : List Row :=
  t.fks.foldl (fun (acc : List Row) (f : Fk) =>
    if f.parent == parent && f.onUpdate == .cascade then acc.map (cascadeRow f pairs) else acc) t.rows

def cascadeUpdate (s : DbState) (parent : String) (pairs : List (Row × Row)) : DbState :=
  { s with tables := s.tables.map (fun t => { t with rows := cascadeRows parent pairs t }) }

def isWrite : Stmt → Bool
  | .insert .. | .update .. | .delete .. | .truncate .. => true
  | _ => false

/-- the would-be post-state and result of a write, before validation -/
def wouldBe (s : DbState) : Stmt → Except Err (DbState × Res)
  | .insert tn cols rows =>
    match s.find tn with
    | none => .error .missing
    | some t =>
      match buildInsertRows t cols rows t.nextAuto with
      | .error e => .error e
      | .ok (newRows, next) =>
        .ok (s.put { t with rows := t.rows ++ newRows, nextAuto := next },
             .affected newRows.length newRows)
  | .update tn sets whr =>
    match s.find tn with
    | none => .error .missing
    | some t =>
      match updatePairs sets whr t.rows with
      | .error e => .error e
      | .ok (all, ps) =>
        .ok (cascadeUpdate (s.put { t with rows := all }) tn ps,
             .affected ps.length (ps.map (·.2)))
  | .delete tn whr =>
    match s.find tn with
    | none => .error .missing
    | some t =>
      match splitRows whr t.rows with
      | .error e => .error e
      | .ok (gone, keep) =>
        .ok (cascadeDelete 8 (s.put { t with rows := keep }) tn gone, .affected gone.length gone)
  | .truncate tn =>
    match s.find tn with
    | none => .error .missing
    | some t => .ok (s.put { t with rows := [] }, .affected t.rows.length [])
  | _ => .error .other

/-- the C09 state machine: writes are validated on the would-be state; everything else as in
`SqlDb.step` -/
def step (s : DbState) (st : Stmt) : DbState × Res :=
  if isWrite st then
    match wouldBe s st with
    | .error e => (s, .err e)
    | .ok (s', r) => applyValid s s' r
  else SqlDb.step s st

def run (s : DbState) : List Stmt → DbState × List Res
  | [] => (s, [])
  | st :: rest =>
    let (s1, r) := step s st
    let (s2, rs) := run s1 rest
    (s2, r :: rs)

/-! ### which constraint kinds does a state violate -/
inductive Kind where
  | notnull | pk | unique | check | fk
  deriving DecidableEq, Repr, Inhabited

def pkCols (t : TableSt) : List Nat := idxOf (·.pk) t.cols

/-- NOT NULL declared explicitly (not through PRIMARY KEY) -/
def declNotNullOk (t : TableSt) (r : Row) : Bool :=
  (t.cols.zipIdx).all (fun (c, i) => !c.notNull || !(r.getD i .null).isNull)

def pkNotNullOk (t : TableSt) (r : Row) : Bool :=
  (t.cols.zipIdx).all (fun (c, i) => !c.pk || !(r.getD i .null).isNull)

def otherUniqueSets (t : TableSt) : List (List Nat) :=
  (idxOf (·.unique) t.cols).map (fun i => [i]) ++ t.uniques

def tableKinds (s : DbState) (t : TableSt) : List Kind :=
  (if t.rows.all (declNotNullOk t) then [] else [.notnull]) ++
  (if t.rows.all (pkNotNullOk t) && ((pkCols t).isEmpty || uniqueOk (pkCols t) t.rows) then [] else [.pk]) ++
  (if (otherUniqueSets t).all (fun ix => uniqueOk ix t.rows) then [] else [.unique]) ++
  (match rowsCheckOk t t.rows with
   | .ok true => []
   | _ => [.check]) ++
  (if t.fks.all (fun f => t.rows.all (fkOk s f)) then [] else [.fk])

/-- per table with at least one violated kind -/
def violations (s : DbState) : List (String × List Kind) :=
  (s.tables.map (fun t => (t.name, tableKinds s t))).filter (fun x => !x.2.isEmpty)

end TurVerif.SqlCons
