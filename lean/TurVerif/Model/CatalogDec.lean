import TurVerif.Model.DecCore
import TurVerif.Model.Jsonb
/-
M-code model of /repo/src/schema/persistence.rs `CatalogPersistence::deserialize` and its
helpers (`deserialize_schema/table/column/constraint/index/data_type`).

Every helper is a function of the byte position; a result carries the new position.  The
guards (`ensure!(pos + n <= bytes.len())`) and the reads (`bytes[pos]`, `&bytes[pos..pos+n]`)
are kept separate: the reads are checked reads with the `oob` outcome, so that "the guards
suffice" is a theorem (Props/C23 `catalog_deserialize_total`) and not built into the model.
Error tags name the guard that fired (the harness maps the Rust messages onto them).

`for _ in 0..count` loops are structural recursion on the count read from the file (up to
2^32-1): an iteration either fails or consumes input, so no fuel is involved.  The top-level
`while pos < bytes.len()` loop takes fuel `len + 1` (each schema consumes ≥ 10 bytes).
-/
namespace TurVerif.CatalogDec
open TurVerif.Dec

abbrev P (α : Type) := Nat → Res (α × Nat)

def u8At (b : Buf) (what : String) : P Nat := fun pos =>
  (ensure (decide (pos < b.len)) ("eof:" ++ what)).bind fun _ =>
  (rd b pos).bind fun x => .ok (x, pos + 1)

def u16At (b : Buf) (what : String) : P Nat := fun pos =>
  (ensure (decide (pos + 2 ≤ b.len)) ("eof:" ++ what)).bind fun _ =>
  (rd16 b pos).bind fun x => .ok (x, pos + 2)

def u32At (b : Buf) (what : String) : P Nat := fun pos =>
  (ensure (decide (pos + 4 ≤ b.len)) ("eof:" ++ what)).bind fun _ =>
  (rd32 b pos).bind fun x => .ok (x, pos + 4)

def u64At (b : Buf) (what : String) : P Nat := fun pos =>
  (ensure (decide (pos + 8 ≤ b.len)) ("eof:" ++ what)).bind fun _ =>
  (rd64 b pos).bind fun x => .ok (x, pos + 8)

/-- u16 length, then that many bytes, which must be UTF-8 -/
def strAt (b : Buf) (what : String) : P (List Nat) := fun pos =>
  (u16At b (what ++ " length") pos).bind fun (n, pos) =>
  (ensure (decide (pos + n ≤ b.len)) ("eof:" ++ what)).bind fun _ =>
  (slice b pos (pos + n)).bind fun s =>
  if TurVerif.Jsonb.validUtf8 s then .ok (s, pos + n) else .err ("utf8:" ++ what)

/-- `for _ in 0..n { let (x, new_pos) = item(bytes, pos)?; pos = new_pos; .. }` -/
def repeatN {α : Type} (item : P α) : Nat → P (List α)
  | 0, pos => .ok ([], pos)
  | n + 1, pos =>
    (item pos).bind fun (x, pos) => (repeatN item n pos).bind fun (xs, pos) => .ok (x :: xs, pos)

def knownDataType (t : Nat) : Bool :=
  t ≤ 13 || (20 ≤ t && t ≤ 25) || t = 30 || t = 31 || (40 ≤ t && t ≤ 43) || t = 50 ||
  (60 ≤ t && t ≤ 62) || t = 70 || t = 71

/-- `deserialize_constraint`: returns the constraint type byte -/
def constraintAt (b : Buf) : P Nat := fun pos =>
  (u8At b "constraint type" pos).bind fun (ct, pos) =>
  if ct = 0 ∨ ct = 1 ∨ ct = 2 ∨ ct = 5 then .ok (ct, pos)
  else if ct = 3 then
    (strAt b "FK table name" pos).bind fun (_, pos) =>
    (strAt b "FK column name" pos).bind fun (_, pos) =>
    -- `if pos + 2 <= bytes.len()` : optional referential actions
    if pos + 2 ≤ b.len then
      (rd b pos).bind fun _ => (rd b (pos + 1)).bind fun _ => .ok (ct, pos + 2)
    else .ok (ct, pos)
  else if ct = 4 then
    (strAt b "CHECK expression" pos).bind fun (_, pos) => .ok (ct, pos)
  else .err "unknown constraint type"

structure Col where
  name : List Nat
  ty : Nat
  constraints : List Nat
  hasDefault : Bool
  maxLen : Option Nat
  deriving Repr, DecidableEq

/-- `deserialize_column` -/
def columnAt (b : Buf) : P Col := fun pos =>
  (strAt b "column name" pos).bind fun (name, pos) =>
  (u8At b "data type" pos).bind fun (ty, pos) =>
  (ensure (knownDataType ty) "unknown data type").bind fun _ =>
  (u16At b "constraint count" pos).bind fun (cc, pos) =>
  (repeatN (constraintAt b) cc pos).bind fun (cs, pos) =>
  (u8At b "has_default" pos).bind fun (hd, pos) =>
  (if hd ≠ 0 then (strAt b "default value" pos).bind fun (_, pos) => Res.ok ((), pos)
   else Res.ok ((), pos)).bind fun (_, pos) =>
  -- `if pos < bytes.len()` : optional max_length section
  if pos < b.len then
    (rd b pos).bind fun hm =>
    if hm ≠ 0 then
      (u32At b "max_length" (pos + 1)).bind fun (ml, pos) => .ok (⟨name, ty, cs, hd ≠ 0, some ml⟩, pos)
    else .ok (⟨name, ty, cs, hd ≠ 0, none⟩, pos + 1)
  else .ok (⟨name, ty, cs, hd ≠ 0, none⟩, pos)

/-- one index column: name + direction byte -/
def indexColAt (b : Buf) : P (List Nat × Nat) := fun pos =>
  (strAt b "index column name" pos).bind fun (n, pos) =>
  (u8At b "index column direction" pos).bind fun (d, pos) => .ok ((n, if d = 1 then 1 else 0), pos)

structure Idx where
  name : List Nat
  cols : List (List Nat × Nat)
  unique : Bool
  ty : Nat
  deriving Repr, DecidableEq

/-- `deserialize_index` -/
def indexAt (b : Buf) : P Idx := fun pos =>
  (strAt b "index name" pos).bind fun (name, pos) =>
  (u16At b "index column count" pos).bind fun (cc, pos) =>
  (repeatN (indexColAt b) cc pos).bind fun (cols, pos) =>
  (u8At b "is_unique" pos).bind fun (u, pos) =>
  (u8At b "index type" pos).bind fun (t, pos) =>
  if t = 0 ∨ t = 1 then .ok (⟨name, cols, u ≠ 0, t⟩, pos) else .err "unknown index type"

structure Tbl where
  id : Nat
  name : List Nat
  cols : List Col
  pk : Option (List (List Nat))
  idxs : List Idx
  toast : Option Nat
  deriving Repr, DecidableEq

/-- `deserialize_table` -/
def tableAt (b : Buf) : P Tbl := fun pos =>
  (u64At b "table ID" pos).bind fun (id, pos) =>
  (strAt b "table name" pos).bind fun (name, pos) =>
  (u32At b "column count" pos).bind fun (cc, pos) =>
  (repeatN (columnAt b) cc pos).bind fun (cols, pos) =>
  (u8At b "has_primary_key" pos).bind fun (hp, pos) =>
  (if hp ≠ 0 then
     (u16At b "primary key count" pos).bind fun (pc, pos) =>
     (repeatN (strAt b "PK column name") pc pos).bind fun (ns, pos) => Res.ok (some ns, pos)
   else Res.ok (none, pos)).bind fun (pk, pos) =>
  (u32At b "index count" pos).bind fun (ic, pos) =>
  (repeatN (indexAt b) ic pos).bind fun (idxs, pos) =>
  -- `if pos < bytes.len()` : optional toast section
  if pos < b.len then
    (rd b pos).bind fun ht =>
    if ht ≠ 0 ∧ pos + 1 + 8 ≤ b.len then
      (rd64 b (pos + 1)).bind fun t => .ok (⟨id, name, cols, pk, idxs, some t⟩, pos + 9)
    else .ok (⟨id, name, cols, pk, idxs, none⟩, pos + 1)
  else .ok (⟨id, name, cols, pk, idxs, none⟩, pos)

/-- `deserialize_schema`: (schema id, name, tables) -/
def schemaAt (b : Buf) : P (Nat × List Nat × List Tbl) := fun pos =>
  (u32At b "schema ID" pos).bind fun (id, pos) =>
  (strAt b "schema name" pos).bind fun (name, pos) =>
  (u32At b "table count" pos).bind fun (tc, pos) =>
  (repeatN (tableAt b) tc pos).bind fun (ts, pos) => .ok ((id, name, ts), pos)

/-- the `while pos < bytes.len()` loop of `deserialize`; `known` = names of the schemas that
exist in the catalog being filled (a parsed schema with another name is an error) -/
def desLoop (b : Buf) (known : List (List Nat)) : Nat → Nat → Res (List (List Nat × List Tbl))
  | 0, pos => if pos < b.len then .fuel else .ok []
  | f + 1, pos =>
    if pos < b.len then
      (schemaAt b pos).bind fun ((_, name, ts), pos') =>
      if known.contains name then
        (desLoop b known f pos').bind fun rest => .ok ((name, ts) :: rest)
      else .err "schema not found"
    else .ok []

/-- `CatalogPersistence::deserialize` -/
def deserialize (b : Buf) (known : List (List Nat)) : Res (List (List Nat × List Tbl)) :=
  desLoop b known (b.len + 1) 0

end TurVerif.CatalogDec
