/-
M-code model of `Lexer::next_token` (src/sql/lexer.rs): the dispatch on the start byte and every
scanner, transcribed branch by branch over the input BYTES (`bytes: &[u8]` of a `&str`).

What is explicit in the model (because C22 is about it):
* every `self.current()` (= `self.bytes[self.pos]`, a bounds-checked index that panics) is a checked
  read `rd` with the outcome `Fault.oob`;
* every `&self.input[a..b]` (str slicing: panics when `a > b`, `b > len` or an end is not a UTF-8
  char boundary) is the check `sliceOk` with the outcome `Fault.slice`; `isBoundary` is
  `str::is_char_boundary` (index = len, or byte < 0x80, or byte >= 0xC0);
* the two `usize` subtractions (`self.pos -= 1`, `self.pos - 1`) are checked (`Fault.underflow`);
* the recursion `scan_minus`/`scan_block_comment` -> `self.next_token()` after a comment is a budget
  `depth` (`Fault.depth` when exhausted): one Rust stack frame per consecutive comment.

Not modelled: the `line`/`column` `u32` counters (overflow needs an input of >= 2^31 bytes), the `i32`
nesting counter of block comments (same), the keyword table (`Keyword(_)` and `Ident(_)` are both
`word`), `to_ascii_uppercase`/`format!` allocations.

No imports outside core.
-/
namespace TurVerif.Lexer

inductive Fault
  | oob | slice | underflow | depth
deriving DecidableEq, Repr

inductive Kind
  | eof | word | integer | float | hexNumber | binaryNumber | octalNumber | string | quotedIdent
  | paramPos (n : Nat) | paramNamed | paramAnon
  | sym (name : String)
  | error (msg : String)
deriving DecidableEq, Repr

/-- one token: kind, `token_start`, `pos` after the token, payload slice `[a, b)` (0 0 when none) -/
structure Tok where
  kind : Kind
  start : Nat
  stop : Nat
  a : Nat
  b : Nat
deriving DecidableEq, Repr

abbrev Bytes := Array Nat

/-- `self.bytes[i]` — bounds-checked index -/
def rd (bs : Bytes) (i : Nat) : Except Fault Nat :=
  match bs[i]? with
  | some c => .ok c
  | none => .error .oob

/-- `self.bytes.get(self.pos + 1).copied()` (`peek_char`) is `bs[pos+1]?`: an `Option`, never a panic -/
def peek (bs : Bytes) (pos : Nat) : Option Nat := bs[pos + 1]?

/-- `str::is_char_boundary` -/
def isBoundary (bs : Bytes) (i : Nat) : Bool :=
  i == 0 || i == bs.size ||
    (match bs[i]? with
     | some c => c < 128 || 192 ≤ c
     | none => false)

/-- the check done by `&self.input[a..b]` -/
def sliceOk (bs : Bytes) (a b : Nat) : Bool :=
  a ≤ b && b ≤ bs.size && isBoundary bs a && isBoundary bs b

def mk (k : Kind) (start stop : Nat) : Except Fault Tok := .ok ⟨k, start, stop, 0, 0⟩

/-- token whose payload is `&self.input[a..b]` -/
def mkS (bs : Bytes) (k : Kind) (start stop a b : Nat) : Except Fault Tok :=
  if sliceOk bs a b then .ok ⟨k, start, stop, a, b⟩ else .error .slice

/-- `self.advance()`: `if !self.is_eof() { ...; self.pos += 1 }` -/
def adv (bs : Bytes) (pos : Nat) : Nat := if pos < bs.size then pos + 1 else pos

def isDigit (c : Nat) : Bool := 48 ≤ c && c ≤ 57
def isAlpha (c : Nat) : Bool := (65 ≤ c && c ≤ 90) || (97 ≤ c && c ≤ 122)
def isIdentStart (c : Nat) : Bool := isAlpha c || c == 95
def isIdentChar (c : Nat) : Bool := isAlpha c || isDigit c || c == 95
def isHex (c : Nat) : Bool := isDigit c || (65 ≤ c && c ≤ 70) || (97 ≤ c && c ≤ 102)
def isBin (c : Nat) : Bool := c == 48 || c == 49
def isOct (c : Nat) : Bool := 48 ≤ c && c ≤ 55
def isWs (c : Nat) : Bool := c == 32 || c == 9 || c == 13 || c == 10
def notNl (c : Nat) : Bool := c != 10

/-- `!self.is_eof() && p(self.current())`; the read is the checked one -/
def curSat (bs : Bytes) (pos : Nat) (p : Nat → Bool) : Except Fault Bool :=
  if pos < bs.size then
    match rd bs pos with
    | .ok c => .ok (p c)
    | .error e => .error e
  else .ok false

/-- `while !self.is_eof() && p(self.current()) { self.advance(); }` -/
def scanWhile (bs : Bytes) (p : Nat → Bool) (pos : Nat) : Except Fault Nat :=
  if h : pos < bs.size then
    match rd bs pos with
    | .error e => .error e
    | .ok c => if p c then scanWhile bs p (pos + 1) else .ok pos
  else .ok pos
termination_by bs.size - pos

/-! ### identifiers, x'..' literals -/

/-- loop of `scan_hex_string_literal`: stops at `'`, at end of input, or at a non-hex byte (`bad`) -/
def hexStrLoop (bs : Bytes) (pos : Nat) : Except Fault (Nat × Bool) :=
  if h : pos < bs.size then
    match rd bs pos with
    | .error e => .error e
    | .ok c =>
      if c == 39 then .ok (pos, false)
      else if !isHex c then .ok (pos, true)
      else hexStrLoop bs (pos + 1)
  else .ok (pos, false)
termination_by bs.size - pos

def scanHexString (bs : Bytes) (start : Nat) : Except Fault Tok :=
  let p := adv bs (adv bs start)
  match hexStrLoop bs p with
  | .error e => .error e
  | .ok (q, bad) =>
    if bad then mk (.error "invalid hex character in hex string literal") start q
    else if q ≥ bs.size then mk (.error "unterminated hex string literal") start q
    else mkS bs .hexNumber start (adv bs q) p q

def scanIdent (bs : Bytes) (start : Nat) : Except Fault Tok :=
  match rd bs start with
  | .error e => .error e
  | .ok c =>
    if (c == 120 || c == 88) && peek bs start == some 39 then scanHexString bs start
    else
      match scanWhile bs isIdentChar start with
      | .error e => .error e
      | .ok e => mkS bs .word start e start e

/-! ### numbers -/

def scanRadix (bs : Bytes) (p : Nat → Bool) (k : Kind) (msg : String) (start : Nat) : Except Fault Tok :=
  let s := adv bs (adv bs start)
  match scanWhile bs p s with
  | .error e => .error e
  | .ok e => if e == s then mk (.error msg) start e else mkS bs k start e s e

/-- optional exponent part shared by `scan_number` and `scan_dot`; returns (pos, saw 'e') -/
def scanExp (bs : Bytes) (pos : Nat) : Except Fault (Nat × Bool) :=
  match curSat bs pos (fun c => c == 101 || c == 69) with
  | .error e => .error e
  | .ok false => .ok (pos, false)
  | .ok true =>
    let p1 := adv bs pos
    match curSat bs p1 (fun c => c == 43 || c == 45) with
    | .error e => .error e
    | .ok sgn =>
      let p2 := if sgn then adv bs p1 else p1
      match scanWhile bs isDigit p2 with
      | .error e => .error e
      | .ok p3 => .ok (p3, true)

/-- fraction part of `scan_number`; returns (pos, is_float) -/
def scanFrac (bs : Bytes) (pos : Nat) : Except Fault (Nat × Bool) :=
  match curSat bs pos (fun c => c == 46) with
  | .error e => .error e
  | .ok false => .ok (pos, false)
  | .ok true =>
    match peek bs pos with
    | none => .ok (pos, false)
    | some n =>
      if isDigit n then
        match scanWhile bs isDigit (adv bs pos) with
        | .error e => .error e
        | .ok q => .ok (q, true)
      else if n == 46 then .ok (pos, false)
      else .ok (adv bs pos, true)

def scanDecimal (bs : Bytes) (start : Nat) : Except Fault Tok :=
  match scanWhile bs isDigit start with
  | .error e => .error e
  | .ok p1 =>
    match scanFrac bs p1 with
    | .error e => .error e
    | .ok (p2, f1) =>
      match scanExp bs p2 with
      | .error e => .error e
      | .ok (p3, f2) =>
        mkS bs (if f1 || f2 then .float else .integer) start p3 start p3

def scanNumber (bs : Bytes) (start : Nat) : Except Fault Tok :=
  match rd bs start with
  | .error e => .error e
  | .ok c =>
    if c == 48 then
      match peek bs start with
      | some n =>
        if n == 120 || n == 88 then scanRadix bs isHex .hexNumber "invalid hex number" start
        else if n == 98 || n == 66 then scanRadix bs isBin .binaryNumber "invalid binary number" start
        else if n == 111 || n == 79 then scanRadix bs isOct .octalNumber "invalid octal number" start
        else scanDecimal bs start
      | none => scanDecimal bs start
    else scanDecimal bs start

/-! ### quoted things -/

/-- loop shared by `scan_string` / `scan_quoted_identifier` / `scan_backtick_identifier`:
`none` = unterminated, `some e` = position of the closing quote -/
def quoteLoop (bs : Bytes) (q : Nat) (pos : Nat) : Except Fault (Option Nat) :=
  if h : pos < bs.size then
    match rd bs pos with
    | .error e => .error e
    | .ok c =>
      if c == q then
        if peek bs pos == some q then quoteLoop bs q (pos + 2)   -- two `advance()`s, both not at eof
        else .ok (some pos)
      else quoteLoop bs q (pos + 1)
  else .ok none
termination_by bs.size - pos

def scanQuoted (bs : Bytes) (q : Nat) (k : Kind) (msg : String) (start : Nat) : Except Fault Tok :=
  let s := adv bs start
  match quoteLoop bs q s with
  | .error e => .error e
  | .ok none => mk (.error msg) start bs.size
  | .ok (some e) => mkS bs k start (adv bs e) s e

/-! ### `$` -/

/-- `remaining.starts_with(end_tag)` on bytes -/
def matchAt (bs : Bytes) (pos : Nat) : List Nat → Bool
  | [] => true
  | t :: ts => bs[pos]? == some t && matchAt bs (pos + 1) ts

def advN (bs : Bytes) : Nat → Nat → Nat
  | 0, pos => pos
  | n + 1, pos => advN bs n (adv bs pos)

/-- loop of `scan_dollar_string`: `none` = unterminated, `some e` = start of the closing tag;
`Fault.slice` if `&self.input[self.pos..]` is not sliceable -/
def dollarLoop (bs : Bytes) (tag : List Nat) (pos : Nat) : Except Fault (Option Nat) :=
  if h : pos < bs.size then
    match rd bs pos with
    | .error e => .error e
    | .ok c =>
      if c == 36 then
        if sliceOk bs pos bs.size then
          if matchAt bs pos tag then .ok (some pos) else dollarLoop bs tag (pos + 1)
        else .error .slice
      else dollarLoop bs tag (pos + 1)
  else .ok none
termination_by bs.size - pos

/-- `pos` is at the `$` that ends the opening tag; `inner` = bytes of the tag name -/
def scanDollarString (bs : Bytes) (inner : List Nat) (start pos : Nat) : Except Fault Tok :=
  let s := adv bs pos
  let tag := 36 :: (inner ++ [36])
  match dollarLoop bs tag s with
  | .error e => .error e
  | .ok none => mk (.error "unterminated dollar-quoted string") start bs.size
  | .ok (some e) => mkS bs .string start (advN bs tag.length e) s e

/-- decimal value of the digit bytes in `[a, b)` (`str::parse::<u32>` succeeds iff it is < 2^32) -/
def decVal (bs : Bytes) (a b : Nat) : Nat :=
  (bs.extract a b).foldl (fun acc c => acc * 10 + (c - 48)) 0

def scanDollar (bs : Bytes) (start : Nat) : Except Fault Tok :=
  let p := adv bs start
  if p ≥ bs.size then mk (.error "unexpected end after $") start p
  else
    match rd bs p with
    | .error e => .error e
    | .ok c =>
      if isDigit c then
        match scanWhile bs isDigit p with
        | .error e => .error e
        | .ok e =>
          if sliceOk bs p e then
            let v := decVal bs p e
            if v < 4294967296 then mk (.paramPos v) start e
            else mk (.error "invalid positional parameter") start e
          else .error .slice
      else if c == 36 then scanDollarString bs [] start p
      else if isIdentStart c then
        match scanWhile bs isIdentChar p with
        | .error e => .error e
        | .ok e =>
          match curSat bs e (fun c => c == 36) with
          | .error x => .error x
          | .ok true =>
            if sliceOk bs p e then scanDollarString bs (bs.extract p e).toList start e
            else .error .slice
          | .ok false => mk (.error "invalid dollar-quoted string tag") start e
      else mk (.error "invalid token after $") start p

/-! ### punctuation -/

def scanColon (bs : Bytes) (start : Nat) : Except Fault Tok :=
  let p := adv bs start
  if p ≥ bs.size then mk (.sym "Colon") start p
  else
    match rd bs p with
    | .error e => .error e
    | .ok c =>
      if c == 58 then mk (.sym "DoubleColon") start (adv bs p)
      else if c == 61 then mk (.sym "Assign") start (adv bs p)
      else if isIdentStart c then
        match scanWhile bs isIdentChar p with
        | .error e => .error e
        | .ok e => mkS bs .paramNamed start e p e
      else mk (.sym "Colon") start p

def scanAt (bs : Bytes) (start : Nat) : Except Fault Tok :=
  let p := adv bs start
  if p ≥ bs.size then mk (.error "unexpected end after @") start p
  else
    match rd bs p with
    | .error e => .error e
    | .ok c =>
      if c == 62 then mk (.sym "AtGt") start (adv bs p)
      else if isIdentStart c then
        match scanWhile bs isIdentChar p with
        | .error e => .error e
        | .ok e => mkS bs .paramNamed start e p e
      else mk (.error "invalid @ parameter") start p

def scanQuestion (bs : Bytes) (start : Nat) : Except Fault Tok :=
  let p := adv bs start
  if p ≥ bs.size then mk .paramAnon start p
  else
    match rd bs p with
    | .error e => .error e
    | .ok c =>
      if c == 124 then mk (.sym "QuestionPipe") start (adv bs p)
      else if c == 38 then mk (.sym "QuestionAmpersand") start (adv bs p)
      else mk .paramAnon start p

/-- a scanner either produces a token or has skipped a comment and calls `self.next_token()` again -/
inductive Step
  | tok (t : Tok)
  | again (pos : Nat)

def liftTok (r : Except Fault Tok) : Except Fault Step :=
  match r with
  | .ok t => .ok (.tok t)
  | .error e => .error e

def scanMinus (bs : Bytes) (start : Nat) : Except Fault Step :=
  let p := adv bs start
  if p ≥ bs.size then liftTok (mk (.sym "Minus") start p)
  else
    match rd bs p with
    | .error e => .error e
    | .ok c =>
      if c == 45 then
        match scanWhile bs notNl p with
        | .error e => .error e
        | .ok e => .ok (.again e)
      else if c == 62 then
        let p2 := adv bs p
        match curSat bs p2 (fun c => c == 62) with
        | .error e => .error e
        | .ok true => liftTok (mk (.sym "DoubleArrow") start (adv bs p2))
        | .ok false => liftTok (mk (.sym "Arrow") start p2)
      else liftTok (mk (.sym "Minus") start p)

/-- loop of `scan_block_comment`: returns (pos, remaining nesting depth) -/
def blockLoop (bs : Bytes) (pos depth : Nat) : Except Fault (Nat × Nat) :=
  if h : pos < bs.size ∧ depth > 0 then
    match rd bs pos with
    | .error e => .error e
    | .ok c =>
      if c == 47 && peek bs pos == some 42 then blockLoop bs (pos + 2) (depth + 1)
      else if c == 42 && peek bs pos == some 47 then blockLoop bs (pos + 2) (depth - 1)
      else blockLoop bs (pos + 1) depth
  else .ok (pos, depth)
termination_by bs.size - pos

def scanSlash (bs : Bytes) (start : Nat) : Except Fault Step :=
  let p := adv bs start
  if p ≥ bs.size then liftTok (mk (.sym "Slash") start p)
  else
    match rd bs p with
    | .error e => .error e
    | .ok c =>
      if c == 42 then
        match blockLoop bs (adv bs p) 1 with
        | .error e => .error e
        | .ok (q, d) =>
          if d > 0 then liftTok (mk (.error "unterminated block comment") start q)
          else .ok (.again q)
      else liftTok (mk (.sym "Slash") start p)

/-- `X` then optionally a second byte `c2` giving `two`, else `one` -/
def scanPair (bs : Bytes) (c2 : Nat) (one two : Kind) (start : Nat) : Except Fault Tok :=
  let p := adv bs start
  match curSat bs p (fun c => c == c2) with
  | .error e => .error e
  | .ok true => mk two start (adv bs p)
  | .ok false => mk one start p

def scanHash (bs : Bytes) (start : Nat) : Except Fault Tok :=
  let p := adv bs start
  if p ≥ bs.size then mk (.sym "Hash") start p
  else
    match rd bs p with
    | .error e => .error e
    | .ok c =>
      if c == 62 then
        let p2 := adv bs p
        match curSat bs p2 (fun c => c == 62) with
        | .error e => .error e
        | .ok true => mk (.sym "HashDoubleArrow") start (adv bs p2)
        | .ok false => mk (.sym "HashArrow") start p2
      else mk (.sym "Hash") start p

/-- `<-` / `<#` not followed by `>`: `self.pos -= 1; Token::Lt` -/
def backOne (start p2 : Nat) : Except Fault Tok :=
  if p2 = 0 then .error .underflow else mk (.sym "Lt") start (p2 - 1)

def scanLess (bs : Bytes) (start : Nat) : Except Fault Tok :=
  let p := adv bs start
  if p ≥ bs.size then mk (.sym "Lt") start p
  else
    match rd bs p with
    | .error e => .error e
    | .ok c =>
      if c == 61 then
        let p2 := adv bs p
        match curSat bs p2 (fun c => c == 62) with
        | .error e => .error e
        | .ok true => mk (.sym "Spaceship") start (adv bs p2)
        | .ok false => mk (.sym "LtEq") start p2
      else if c == 62 then mk (.sym "NotEq") start (adv bs p)
      else if c == 60 then mk (.sym "LeftShift") start (adv bs p)
      else if c == 64 then mk (.sym "LtAt") start (adv bs p)
      else if c == 45 then
        let p2 := adv bs p
        match curSat bs p2 (fun c => c == 62) with
        | .error e => .error e
        | .ok true => mk (.sym "LtMinusGt") start (adv bs p2)
        | .ok false => backOne start p2
      else if c == 35 then
        let p2 := adv bs p
        match curSat bs p2 (fun c => c == 62) with
        | .error e => .error e
        | .ok true => mk (.sym "LtHashGt") start (adv bs p2)
        | .ok false => backOne start p2
      else mk (.sym "Lt") start p

def scanGreater (bs : Bytes) (start : Nat) : Except Fault Tok :=
  let p := adv bs start
  if p ≥ bs.size then mk (.sym "Gt") start p
  else
    match rd bs p with
    | .error e => .error e
    | .ok c =>
      if c == 61 then mk (.sym "GtEq") start (adv bs p)
      else if c == 62 then mk (.sym "RightShift") start (adv bs p)
      else mk (.sym "Gt") start p

def scanDot (bs : Bytes) (start : Nat) : Except Fault Tok :=
  let p := adv bs start
  match curSat bs p (fun c => c == 46) with
  | .error e => .error e
  | .ok true => mk (.sym "DoubleDot") start (adv bs p)
  | .ok false =>
    match curSat bs p isDigit with
    | .error e => .error e
    | .ok true =>
      if p = 0 then .error .underflow
      else
        match scanWhile bs isDigit p with
        | .error e => .error e
        | .ok q =>
          match scanExp bs q with
          | .error e => .error e
          | .ok (r, _) => mkS bs .float start r (p - 1) r
    | .ok false => mk (.sym "Dot") start p

/-- single-byte tokens of the `match ch` in `next_token` -/
def single (c : Nat) : Option String :=
  if c == 43 then some "Plus" else if c == 42 then some "Star" else if c == 37 then some "Percent"
  else if c == 94 then some "Caret" else if c == 126 then some "Tilde"
  else if c == 40 then some "LParen" else if c == 41 then some "RParen"
  else if c == 91 then some "LBracket" else if c == 93 then some "RBracket"
  else if c == 123 then some "LBrace" else if c == 125 then some "RBrace"
  else if c == 44 then some "Comma" else if c == 59 then some "Semicolon"
  else none

/-- the dispatch of `next_token` after whitespace has been skipped and `is_eof()` was false -/
def dispatch (bs : Bytes) (pos : Nat) : Except Fault Step :=
  match rd bs pos with
  | .error e => .error e
  | .ok ch =>
    if isIdentStart ch then liftTok (scanIdent bs pos)
    else if isDigit ch then liftTok (scanNumber bs pos)
    else if ch == 39 then liftTok (scanQuoted bs 39 .string "unterminated string" pos)
    else if ch == 34 then liftTok (scanQuoted bs 34 .quotedIdent "unterminated quoted identifier" pos)
    else if ch == 96 then liftTok (scanQuoted bs 96 .quotedIdent "unterminated backtick identifier" pos)
    else if ch == 36 then liftTok (scanDollar bs pos)
    else if ch == 58 then liftTok (scanColon bs pos)
    else if ch == 64 then liftTok (scanAt bs pos)
    else if ch == 63 then liftTok (scanQuestion bs pos)
    else if ch == 45 then scanMinus bs pos
    else if ch == 47 then scanSlash bs pos
    else if ch == 38 then liftTok (scanPair bs 38 (.sym "Ampersand") (.sym "DoubleAmpersand") pos)
    else if ch == 124 then liftTok (scanPair bs 124 (.sym "Pipe") (.sym "DoublePipe") pos)
    else if ch == 35 then liftTok (scanHash bs pos)
    else if ch == 61 then liftTok (scanPair bs 62 (.sym "Eq") (.sym "FatArrow") pos)
    else if ch == 60 then liftTok (scanLess bs pos)
    else if ch == 62 then liftTok (scanGreater bs pos)
    else if ch == 33 then liftTok (scanPair bs 61 (.error "expected '=' after '!'") (.sym "NotEq") pos)
    else if ch == 46 then liftTok (scanDot bs pos)
    else
      match single ch with
      | some name => liftTok (mk (.sym name) pos (adv bs pos))
      | none => liftTok (mk (.error "unexpected character") pos (adv bs pos))

/-- `next_token` with a recursion budget: one unit per comment skipped before the token -/
def nextTok (bs : Bytes) : Nat → Nat → Except Fault Tok
  | 0, _ => .error .depth
  | d + 1, pos0 =>
    match scanWhile bs isWs pos0 with
    | .error e => .error e
    | .ok pos =>
      if pos ≥ bs.size then mk .eof pos pos
      else
        match dispatch bs pos with
        | .error e => .error e
        | .ok (.tok t) => .ok t
        | .ok (.again p) => nextTok bs d p

/-- `next_token` (budget = more than the number of bytes left: always enough, see `Props/C22`) -/
def nextToken (bs : Bytes) (pos : Nat) : Except Fault Tok := nextTok bs (bs.size + 1) pos

/-- number of nested `next_token` frames used to produce the token at `pos` (1 = no comment) -/
def framesAt (bs : Bytes) : Nat → Nat → Nat
  | 0, _ => 0
  | d + 1, pos0 =>
    match scanWhile bs isWs pos0 with
    | .error _ => 1
    | .ok pos =>
      if pos ≥ bs.size then 1
      else
        match dispatch bs pos with
        | .ok (.again p) => 1 + framesAt bs d p
        | _ => 1

/-- the parser's token loop: call `next_token` until `Eof` -/
def tokenize (bs : Bytes) : Nat → Nat → Except Fault (List Tok)
  | 0, _ => .error .depth
  | f + 1, pos =>
    match nextToken bs pos with
    | .error e => .error e
    | .ok t =>
      if t.kind = .eof then .ok [t]
      else
        match tokenize bs f t.stop with
        | .error e => .error e
        | .ok ts => .ok (t :: ts)

def tokenizeAll (bs : Bytes) : Except Fault (List Tok) := tokenize bs (bs.size + 1) 0

end TurVerif.Lexer
