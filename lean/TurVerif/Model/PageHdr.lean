import TurVerif.Model.DecCore
import TurVerif.Model.Varint
/-
M-code model of the page decoders:
  /repo/src/storage/page.rs     `PageHeader::from_bytes`, `validate_page`
  /repo/src/btree/leaf.rs       `LeafNode::{from_page, cell_count, slot_at, key_at, value_at, value_len_at}`
  /repo/src/btree/interior.rs   `InteriorNode::{from_page, slot_at, key_at, find_child}`
  /repo/src/hnsw/storage.rs     `HnswPageRef::{from_bytes, slot_count, get_slot, read_node_data}`

Page header (16 bytes): type u8 | flags u8 | cell_count u16 | free_start u16 | free_end u16 |
frag u8 | reserved 3 | right_child u32 (all little endian).
-/
namespace TurVerif.PageHdr
open TurVerif.Dec

def PAGE_SIZE : Nat := 16384
def PAGE_HEADER_SIZE : Nat := 16

/-- `PageHeader::from_bytes`: `ensure!(len >= 16)` then `ref_from_bytes(&data[..16])`
(an `Unaligned` zerocopy struct of exactly 16 bytes: the cast cannot fail) -/
def hdrFromBytes (b : Buf) : Res Unit :=
  (ensure (decide (16 ≤ b.len)) "hdr-short").bind fun _ => (slice b 0 16).bind fun _ => .ok ()

def knownType (t : Nat) : Bool :=
  t = 0x01 || t = 0x02 || t = 0x10 || t = 0x11 || t = 0x20 || t = 0x30 || t = 0x40

/-- `validate_page` -/
def validatePage (b : Buf) : Res Unit :=
  (ensure (decide (b.len = PAGE_SIZE)) "size").bind fun _ =>
  (hdrFromBytes b).bind fun _ =>
  (rd b 0).bind fun ty => (rd b 1).bind fun flags =>
  (rd16 b 2).bind fun cc => (rd16 b 4).bind fun fs => (rd16 b 6).bind fun fe =>
  if ty = 0 ∧ flags = 0 ∧ cc = 0 ∧ fs = 0 ∧ fe = 0 then .ok () else
  (ensure (knownType ty) "type").bind fun _ =>
  (ensure (decide (PAGE_HEADER_SIZE ≤ fs)) "free_start").bind fun _ =>
  (ensure (decide (fe ≤ PAGE_SIZE)) "free_end").bind fun _ =>
  ensure (decide (fs ≤ fe)) "free_order"

/-- `X::from_page` for page type `ty` (leaf 0x02, interior 0x01, hnsw node 0x10) -/
def fromPage (ty : Nat) (b : Buf) : Res Unit :=
  (ensure (decide (b.len = PAGE_SIZE)) "size").bind fun _ =>
  (hdrFromBytes b).bind fun _ =>
  (rd b 0).bind fun t => ensure (decide (t = ty)) "type"

/-- `cell_count()`: `PageHeader::from_bytes(self.data).unwrap().cell_count()` -/
def cellCount (b : Buf) : Res Nat := (hdrFromBytes b).unwrap.bind fun _ => rd16 b 2

/-- `right_child()` / `next_leaf()` -/
def rightChild (b : Buf) : Res Nat := (hdrFromBytes b).unwrap.bind fun _ => rd32 b 12

/-! ### leaf -/
def LEAF_CONTENT_START : Nat := 24
def SLOT_SIZE : Nat := 8

structure Slot where
  pfx : List Nat
  off : Nat
  klen : Nat
  deriving Repr, DecidableEq

/-- `LeafNode::slot_at` (the view was built by `from_page`) -/
def leafSlotAt (b : Buf) (i : Nat) : Res Slot :=
  (cellCount b).bind fun cc =>
  (ensure (decide (i < cc)) "slot-index").bind fun _ =>
  let o := LEAF_CONTENT_START + i * SLOT_SIZE
  (slice b o (o + SLOT_SIZE)).bind fun s =>
  .ok ⟨s.take 4, le ((s.drop 4).take 2), le ((s.drop 6).take 2)⟩

/-- `LeafNode::key_at` -/
def leafKeyAt (b : Buf) (i : Nat) : Res (List Nat) :=
  (leafSlotAt b i).bind fun s =>
  (ensure (decide (s.off + s.klen ≤ PAGE_SIZE)) "key-beyond-page").bind fun _ =>
  slice b s.off (s.off + s.klen)

/-- `decode_varint(&self.data[value_start..])`: the decoder looks at no more than 9 bytes and
compares the slice length only with constants ≤ 9, so it is given the first `min 9 len` bytes -/
def varintAt (b : Buf) (start : Nat) : Res (Nat × Nat) :=
  (sliceFromB b start).bind fun t =>
  match TurVerif.Varint.decode (bytes t 0 (min 9 t.len)) with
  | .ok v n => .ok (v, n)
  | .err e => .err e
  | .oob => .oob

/-- `LeafNode::value_at`; `value_data_start + value_len as usize` is a checked usize addition -/
def leafValueAt (b : Buf) (i : Nat) : Res (List Nat) :=
  (leafSlotAt b i).bind fun s =>
  let vs := s.off + s.klen
  (ensure (decide (vs < PAGE_SIZE)) "value-len-beyond-page").bind fun _ =>
  (varintAt b vs).bind fun (vlen, n) =>
  let vds := vs + n
  (addUsize vds vlen).bind fun e =>
  (ensure (decide (e ≤ PAGE_SIZE)) "value-beyond-page").bind fun _ =>
  slice b vds e

/-- `LeafNode::value_len_at` -/
def leafValueLenAt (b : Buf) (i : Nat) : Res Nat :=
  (leafSlotAt b i).bind fun s =>
  let vs := s.off + s.klen
  (ensure (decide (vs < PAGE_SIZE)) "value-len-beyond-page").bind fun _ =>
  (varintAt b vs).bind fun (vlen, _) => .ok vlen

/-! ### interior -/
def INTERIOR_SLOT_SIZE : Nat := 12

structure ISlot where
  pfx : Nat        -- big-endian u32 of the 4 prefix bytes
  child : Nat
  off : Nat
  klen : Nat
  deriving Repr, DecidableEq

def be4 : List Nat → Nat
  | [a, b, c, d] => ((a * 256 + b) * 256 + c) * 256 + d
  | _ => 0

/-- `InteriorNode::slot_at` -/
def intSlotAt (b : Buf) (i : Nat) : Res ISlot :=
  (cellCount b).bind fun cc =>
  (ensure (decide (i < cc)) "slot-index").bind fun _ =>
  let o := PAGE_HEADER_SIZE + i * INTERIOR_SLOT_SIZE
  (slice b o (o + INTERIOR_SLOT_SIZE)).bind fun s =>
  .ok ⟨be4 (s.take 4), le ((s.drop 4).take 4), le ((s.drop 8).take 2), le ((s.drop 10).take 2)⟩

/-- `InteriorNode::key_at` -/
def intKeyAt (b : Buf) (i : Nat) : Res (List Nat) :=
  (intSlotAt b i).bind fun s =>
  (ensure (decide (s.off + s.klen ≤ PAGE_SIZE)) "key-beyond-page").bind fun _ =>
  slice b s.off (s.off + s.klen)

/-- `u32::from_be_bytes(extract_prefix(key))` -/
def prefixOf (k : List Nat) : Nat := be4 ((k ++ [0, 0, 0, 0]).take 4)

/-- the `while left < right` loop of `find_child` -/
def findLoop (b : Buf) (key : List Nat) (kp : Nat) : Nat → Nat → Nat → Res Nat
  | 0, _, _ => .fuel
  | f + 1, l, r =>
    if l < r then
      let mid := l + (r - l) / 2
      (intSlotAt b mid).bind fun s =>
      if kp < s.pfx then findLoop b key kp f l mid
      else if s.pfx < kp then findLoop b key kp f (mid + 1) r
      else
        (intKeyAt b mid).bind fun sep =>
        if ltBytes key sep then findLoop b key kp f l mid else findLoop b key kp f (mid + 1) r
    else .ok l

/-- `InteriorNode::find_child`: (child page, `Some(index)` or `None` = right child) -/
def findChild (b : Buf) (key : List Nat) : Res (Nat × Option Nat) :=
  (cellCount b).bind fun count =>
  if count = 0 then (rightChild b).bind fun rc => .ok (rc, none) else
  (findLoop b key (prefixOf key) (count + 1) 0 count).bind fun l =>
  if l < count then (intSlotAt b l).bind fun s => .ok (s.child, some l)
  else (rightChild b).bind fun rc => .ok (rc, none)

/-! ### HNSW node page -/
def HNSW_PAGE_HEADER_SIZE : Nat := 64
def HNSW_SLOT_SIZE : Nat := 4

/-- `hnsw_header()`: `ref_from_bytes(&data[16..16+52]).unwrap()`, then `slot_count` -/
def hnswSlotCount (b : Buf) : Res Nat := (slice b 16 68).bind fun h => .ok (le (h.take 2))

/-- `HnswPageRef::get_slot`: (offset, status, size); status 1 = active, 2 = deleted, else free -/
def hnswGetSlot (b : Buf) (idx : Nat) : Res (Option (Nat × Nat × Nat)) :=
  (hnswSlotCount b).bind fun sc =>
  if sc ≤ idx then .ok none else
  let o := HNSW_PAGE_HEADER_SIZE + idx * HNSW_SLOT_SIZE
  (slice b o (o + HNSW_SLOT_SIZE)).bind fun s =>
  let os := le (s.take 2)
  let st := os / 8192 % 4
  .ok (some (os % 8192, (if st = 1 then 1 else if st = 2 then 2 else 0), le ((s.drop 2).take 2)))

/-- `HnswPageRef::read_node_data` -/
def hnswReadNodeData (b : Buf) (idx : Nat) : Res (List Nat) :=
  (hnswGetSlot b idx).bind fun o =>
  match o with
  | none => .err "slot-index"
  | some (off, st, sz) =>
    (ensure (decide (st = 1)) "inactive").bind fun _ => slice b off (off + sz)

end TurVerif.PageHdr
