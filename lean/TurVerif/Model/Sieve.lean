/-
M-code model of /repo/src/storage/cache.rs (SIEVE page cache, 64 lock shards) and of the part of
/repo/src/memory/budget.rs it uses (`can_allocate`, `allocate`, `release` for `Pool::Cache`).

Granularity: one model step per public call.  Reading of cache.rs that justifies it: `get`,
`unpin`, `data`, `data_mut_unchecked`, `mark_dirty`, `is_dirty`, `clear_dirty` hold the shard's read
lock for their whole body and touch only per-entry atomics (pin_count fetch_add/fetch_sub, visited /
dirty stores); `get_or_insert` first runs the same read-locked lookup as `get` (a miss there has no
effect) and then does everything else under the shard's write lock; `evict_all_unpinned` and `clear`
take the write locks shard by shard (`clear` reads `len()` *before* that, so an insert racing with
`clear` is outside this model).  `evict`/`remove`/`insert` only run under the write lock.

Page contents are abstracted to one `Nat` per page (the harness fills the 16 KiB page with a
pattern derived from it and checks the whole page on read).
-/
namespace TurVerif.Sieve

def SHARD_COUNT : Nat := 64
def PAGE_SIZE : Nat := 16384
def CACHE_RESERVED : Nat := 512 * 1024
def TOTAL_RESERVED : Nat := (512 + 256 + 256 + 128) * 1024
def MIN_BUDGET_FLOOR : Nat := 4 * 1024 * 1024

structure Key where
  file : Nat
  page : Nat
  deriving DecidableEq, Repr

structure Entry where
  key : Key
  visited : Bool
  dirty : Bool
  pin : Nat
  data : Nat
  deriving Repr

/-! association list standing for `HashMap<PageKey, usize>` -/
def alFind : List (Key × Nat) → Key → Option Nat
  | [], _ => none
  | (k, v) :: r, q => if k = q then some v else alFind r q

def alErase : List (Key × Nat) → Key → List (Key × Nat)
  | [], _ => []
  | (k, v) :: r, q => if k = q then alErase r q else (k, v) :: alErase r q

def alInsert (l : List (Key × Nat)) (k : Key) (v : Nat) : List (Key × Nat) := (k, v) :: alErase l k

structure Shard where
  entries : List Entry
  index : List (Key × Nat)
  hand : Nat
  cap : Nat

def Shard.empty (cap : Nat) : Shard := ⟨[], [], 0, cap⟩

inductive EvictRes where
  | victim (k : Key) (dirty : Bool)
  | none
  | oob        -- `self.entries[self.hand]` out of range: the Rust code would panic
  | fuelOut    -- the loop did not end within the model's fuel
  deriving Repr, DecidableEq

/-- the `loop` of `CacheShard::evict` -/
def evictLoop (start : Nat) : Nat → Shard → Bool → Shard × EvictRes
  | 0, sh, _ => (sh, .fuelOut)
  | f + 1, sh, checked =>
    match sh.entries[sh.hand]? with
    | none => (sh, .oob)
    | some e =>
      if 0 < e.pin then
        let sh' := { sh with hand := (sh.hand + 1) % sh.entries.length }
        if sh'.hand = start then
          if checked then (sh', .none) else evictLoop start f sh' true
        else evictLoop start f sh' checked
      else if e.visited then
        evictLoop start f
          { sh with entries := sh.entries.set sh.hand { e with visited := false },
                    hand := (sh.hand + 1) % sh.entries.length } checked
      else (sh, .victim e.key e.dirty)

/-- `CacheShard::evict` -/
def evict (sh : Shard) : Shard × EvictRes :=
  if sh.entries.isEmpty then (sh, .none)
  else evictLoop sh.hand (3 * sh.entries.length + 3) sh false

/-- `Vec::swap_remove` (for `idx < len`) -/
def swapRemove (l : List Entry) (idx : Nat) : List Entry :=
  match l.getLast? with
  | none => l
  | some last => (l.set idx last).dropLast

/-- `CacheShard::remove`; `none` = index out of range (Rust panics) -/
def remove (sh : Shard) (idx : Nat) : Option Shard :=
  match sh.entries[idx]? with
  | none => none
  | some e =>
    let entries' := swapRemove sh.entries idx
    let index1 := alErase sh.index e.key
    let index2 := match entries'[idx]? with
      | some m => alInsert index1 m.key idx
      | none => index1
    let hand' := if entries'.length ≤ sh.hand ∧ entries'.length ≠ 0 then 0 else sh.hand
    some { sh with entries := entries', index := index2, hand := hand' }

/-- `CacheShard::insert` -/
def insert (sh : Shard) (e : Entry) : Shard :=
  { sh with entries := sh.entries ++ [e], index := alInsert sh.index e.key sh.entries.length }

/-! ### memory budget (Pool::Cache only; the other pools are one opaque total) -/
structure Budget where
  limit : Nat
  cacheUsed : Nat
  otherUsed : Nat

def Budget.sharedAvailable (b : Budget) : Nat :=
  (b.limit - TOTAL_RESERVED) - ((b.cacheUsed + b.otherUsed) - TOTAL_RESERVED)

/-- `available(Pool::Cache)` -/
def Budget.available (b : Budget) : Nat :=
  (CACHE_RESERVED - b.cacheUsed) + b.sharedAvailable

def Budget.canAllocate (b : Budget) (bytes : Nat) : Bool := decide (bytes ≤ b.available)

/-- `allocate(Pool::Cache, bytes)`; `none` = MemoryError -/
def Budget.allocate (b : Budget) (bytes : Nat) : Option Budget :=
  if bytes = 0 then some b
  else if b.limit < b.cacheUsed + b.otherUsed + bytes then none
  else if CACHE_RESERVED < b.cacheUsed + bytes ∧
      b.sharedAvailable < b.cacheUsed + bytes - CACHE_RESERVED then none
  else some { b with cacheUsed := b.cacheUsed + bytes }

/-- `release(Pool::Cache, bytes)` (saturating) -/
def Budget.release (b : Budget) (bytes : Nat) : Budget := { b with cacheUsed := b.cacheUsed - bytes }

/-! ### the cache -/
structure Cache where
  shards : List Shard
  budget : Option Budget

def shardIndex (k : Key) : Nat := (k.file * 31 + k.page) % SHARD_COUNT

def mkShards (total : Nat) : List Shard :=
  (List.range SHARD_COUNT).map fun i =>
    Shard.empty (if i < total % SHARD_COUNT then total / SHARD_COUNT + 1 else total / SHARD_COUNT)

/-- `PageCache::with_budget`; `none` = capacity below SHARD_COUNT -/
def Cache.new (total : Nat) (budget : Option Budget) : Option Cache :=
  if total < SHARD_COUNT then none else some ⟨mkShards total, budget⟩

def Cache.shard (c : Cache) (i : Nat) : Shard := c.shards.getD i (Shard.empty 0)
def Cache.setShard (c : Cache) (i : Nat) (sh : Shard) : Cache := { c with shards := c.shards.set i sh }

def releaseB (b : Option Budget) (bytes : Nat) : Option Budget := b.map (·.release bytes)

inductive GRes where
  | hit
  | inserted
  | errBudget      -- "memory budget exhausted and no evictable pages"
  | errAlloc       -- budget.allocate failed after can_allocate said yes
  | errFull        -- "cache shard full and all pages pinned"
  | errInit        -- the caller's init closure failed
  | broken (what : String)   -- a Rust panic / endless loop; proved unreachable
  deriving Repr, DecidableEq

/-- pin + mark visited (the hit path of `get` and `get_or_insert`) -/
def touch (sh : Shard) (idx : Nat) : Shard :=
  match sh.entries[idx]? with
  | none => sh
  | some e => { sh with entries := sh.entries.set idx { e with pin := e.pin + 1, visited := true } }

/-- `PageCache::get` -/
def Cache.get (c : Cache) (k : Key) : Cache × Bool :=
  let i := shardIndex k
  let sh := c.shard i
  match alFind sh.index k with
  | some idx => (c.setShard i (touch sh idx), true)
  | none => (c, false)

/-- evict one entry of the shard and give its budget back: `evict` + `get(evicted_key)` + `remove`
    + `budget.release`.  Result: `some true` evicted, `some false` nothing evictable. -/
def evictOne (sh : Shard) (b : Option Budget) : Shard × Option Budget × Option Bool × String :=
  match evict sh with
  | (sh1, .victim k _) =>
    match alFind sh1.index k with
    | some idx =>
      match remove sh1 idx with
      | some sh2 => (sh2, releaseB b PAGE_SIZE, some true, "")
      | none => (sh1, b, none, "remove-oob")
    | none => (sh1, b, some true, "")      -- `if let Some(idx)` fails: nothing removed, nothing released
  | (sh1, .none) => (sh1, b, some false, "")
  | (sh1, .oob) => (sh1, b, none, "evict-oob")
  | (sh1, .fuelOut) => (sh1, b, none, "evict-loop")

/-- `while !budget.can_allocate(..) { evict … }` -/
def budgetLoop : Nat → Shard → Budget → Shard × Budget × Option Bool × String
  | 0, sh, b => (sh, b, none, "budget-loop")
  | f + 1, sh, b =>
    if b.canAllocate PAGE_SIZE then (sh, b, some true, "")
    else
      match evictOne sh (some b) with
      | (sh1, some b1, some true, _) => budgetLoop f sh1 b1
      | (sh1, _, some false, _) => (sh1, b, some false, "")
      | (sh1, _, _, w) => (sh1, b, none, w)

/-- second half of the write-locked part of `get_or_insert`: eviction when the shard is full, `init`,
    insert.  `b1` already contains the 16 KiB taken by `budget.allocate` (when there is a budget).
    `initOk = false` models an `init` that returns `Err`, otherwise the page is filled with `val`. -/
def goiFinish (sh1 : Shard) (b1 : Option Budget) (k : Key) (initOk : Bool) (val : Nat) :
    Shard × Option Budget × GRes :=
  let phase2 : Shard × Option Budget × Option GRes :=
    if sh1.cap ≤ sh1.entries.length then
      match evictOne sh1 b1 with
      | (sh2, b2, some true, _) => (sh2, b2, none)
      | (sh2, _, some false, _) => (sh2, releaseB b1 PAGE_SIZE, some .errFull)
      | (sh2, _, none, w) => (sh2, b1, some (.broken w))
    else (sh1, b1, none)
  match phase2 with
  | (sh2, b2, some err) => (sh2, b2, err)
  | (sh2, b2, none) =>
    if initOk then (insert sh2 ⟨k, true, false, 1, val⟩, b2, .inserted)
    else
      -- `init(..)?` returns after `budget.allocate`: nothing is given back
      (sh2, b2, .errInit)

/-- `budget.allocate(Pool::Cache, PAGE_SIZE)?` after the budget loop said there is room -/
def goiAlloc (sh1 : Shard) (b1 : Budget) (k : Key) (initOk : Bool) (val : Nat) :
    Shard × Option Budget × GRes :=
  match b1.allocate PAGE_SIZE with
  | some b2 => goiFinish sh1 (some b2) k initOk val
  | none => (sh1, some b1, .errAlloc)

/-- continuation after the budget loop -/
def goiAfterLoop (r : Shard × Budget × Option Bool × String) (k : Key) (initOk : Bool) (val : Nat) :
    Shard × Option Budget × GRes :=
  match r with
  | (sh1, b1, some true, _) => goiAlloc sh1 b1 k initOk val
  | (sh1, b1, some false, _) => (sh1, some b1, .errBudget)
  | (sh1, b1, none, w) => (sh1, some b1, .broken w)

/-- the write-locked part of `PageCache::get_or_insert(key, init)` on the key's shard (the key was
    not found): budget loop + `budget.allocate`, then `goiFinish`. -/
def goiMiss (sh : Shard) (b : Option Budget) (k : Key) (initOk : Bool) (val : Nat) :
    Shard × Option Budget × GRes :=
  match b with
  | none => goiFinish sh none k initOk val
  | some b => goiAfterLoop (budgetLoop (sh.entries.length + 2) sh b) k initOk val

/-- `get_or_insert` on the key's shard -/
def goiShard (sh : Shard) (b : Option Budget) (k : Key) (initOk : Bool) (val : Nat) :
    Shard × Option Budget × GRes :=
  match alFind sh.index k with
  | some idx => (touch sh idx, b, .hit)
  | none => goiMiss sh b k initOk val

/-- `PageCache::get_or_insert(key, init)` -/
def Cache.getOrInsert (c : Cache) (k : Key) (initOk : Bool) (val : Nat) : Cache × GRes :=
  let i := shardIndex k
  match goiShard (c.shard i) c.budget k initOk val with
  | (sh', b', r) => ({ (c.setShard i sh') with budget := b' }, r)

/-- entry update under the read lock -/
def Cache.updEntry (c : Cache) (k : Key) (f : Entry → Entry) : Cache :=
  let i := shardIndex k
  let sh := c.shard i
  match alFind sh.index k with
  | some idx =>
    match sh.entries[idx]? with
    | some e => c.setShard i { sh with entries := sh.entries.set idx (f e) }
    | none => c
  | none => c

def Cache.findEntry (c : Cache) (k : Key) : Option Entry :=
  let sh := c.shard (shardIndex k)
  match alFind sh.index k with
  | some idx => sh.entries[idx]?
  | none => none

/-- `PageCache::unpin` (the caller holds a pin: `pin > 0`) -/
def Cache.unpin (c : Cache) (k : Key) : Cache := c.updEntry k fun e => { e with pin := e.pin - 1 }
/-- `PageRef::data_mut` followed by a write of the whole page -/
def Cache.write (c : Cache) (k : Key) (v : Nat) : Cache :=
  c.updEntry k fun e => { e with dirty := true, data := v }
def Cache.markDirty (c : Cache) (k : Key) : Cache := c.updEntry k fun e => { e with dirty := true }
def Cache.clearDirty (c : Cache) (k : Key) : Cache := c.updEntry k fun e => { e with dirty := false }
def Cache.read (c : Cache) (k : Key) : Option Nat := (c.findEntry k).map (·.data)
def Cache.isDirty (c : Cache) (k : Key) : Bool := ((c.findEntry k).map (·.dirty)).getD false
def Cache.len (c : Cache) : Nat := (c.shards.map (·.entries.length)).sum

/-- `PageCache::clear` -/
def Cache.clear (c : Cache) : Cache :=
  { shards := c.shards.map fun sh => { sh with entries := [], index := [], hand := 0 },
    budget := releaseB c.budget (c.len * PAGE_SIZE) }

/-- remove the listed indices (descending) from a shard -/
def removeAll : List Nat → Shard → Option Shard
  | [], sh => some sh
  | i :: is, sh => match remove sh i with
    | some sh' => removeAll is sh'
    | none => none

def unpinnedDesc (sh : Shard) : List Nat :=
  ((List.range sh.entries.length).filter fun i =>
    match sh.entries[i]? with | some e => e.pin = 0 | none => false).reverse

/-- `PageCache::evict_all_unpinned`; returns the number evicted (`none`: a `remove` was out of range) -/
def Cache.evictAllUnpinned (c : Cache) : Option (Cache × Nat) :=
  let step := fun (acc : Option (List Shard × Nat)) (sh : Shard) =>
    match acc with
    | none => none
    | some (done, n) =>
      let idxs := unpinnedDesc sh
      match removeAll idxs sh with
      | some sh' => some (done ++ [sh'], n + idxs.length)
      | none => none
  match c.shards.foldl step (some ([], 0)) with
  | some (shs, n) => some ({ shards := shs, budget := releaseB c.budget (n * PAGE_SIZE) }, n)
  | none => none

end TurVerif.Sieve
