/-
M-code: the open-file LRU of `src/storage/file_manager.rs`

  pub struct LruFileCache<K, V> { capacity: usize, order: Vec<K>, map: HashMap<K, V> }

transcribed method by method (`get`, `get_mut`, `insert`, `pop_lru`, `remove`, `touch`, `len`), and
the way `FileManager::table_data / table_data_mut / index_data / index_data_mut` use it
(`fetch`: look the key up, on a miss open the file and insert the handle, syncing the evicted
handle, then `get(..).unwrap()`), plus `FileManager::drop_index` (`remove`).

Keys are `Nat` (the harness numbers the `FileKey`s), the `HashMap` is an association list with at
most one entry per key (`mapInsert` replaces), `order` is the `Vec<K>`: least recently used first.
No imports outside core.
-/
namespace TurVerif.Lru

structure Lru (V : Type) where
  cap : Nat
  order : List Nat := []
  map : List (Nat × V) := []
  deriving Repr

variable {V : Type}

def mapGet (m : List (Nat × V)) (k : Nat) : Option V :=
  match m with
  | [] => none
  | (k', v) :: rest => if k' = k then some v else mapGet rest k

def mapRemove (m : List (Nat × V)) (k : Nat) : List (Nat × V) :=
  m.filter (fun e => !(e.1 == k))

/-- `HashMap::insert`: replaces the value of an existing key -/
def mapInsert (m : List (Nat × V)) (k : Nat) (v : V) : List (Nat × V) :=
  (k, v) :: mapRemove m k

def mapHas (m : List (Nat × V)) (k : Nat) : Bool := (mapGet m k).isSome

def new (cap : Nat) : Lru V := { cap := cap }

/-- `touch`: `if let Some(pos) = order.position(k) { let k = order.remove(pos); order.push(k) }`.
`order.remove(pos)` removes the FIRST occurrence only = `List.erase`. -/
def touch (c : Lru V) (k : Nat) : Lru V :=
  if c.order.contains k then { c with order := c.order.erase k ++ [k] } else c

/-- `get` and `get_mut` (same code): a hit moves the key to the most-recent end -/
def get (c : Lru V) (k : Nat) : Lru V × Option V :=
  if mapHas c.map k then
    let c' := touch c k
    (c', mapGet c'.map k)
  else (c, none)

/-- `pop_lru`: `if order.is_empty() {return None}; let key = order.remove(0);
let value = map.remove(&key)?; Some((key, value))` – note the `?` AFTER the key was removed from
`order`. -/
def popLru (c : Lru V) : Lru V × Option (Nat × V) :=
  match c.order with
  | [] => (c, none)
  | k :: rest =>
    let c' := { c with order := rest }
    match mapGet c.map k with
    | none => (c', none)
    | some v => ({ c' with map := mapRemove c.map k }, some (k, v))

/-- `insert`: present key → touch + replace, returns None; absent key → evict the LRU entry when
`order.len() >= capacity`, push, insert; returns the evicted pair. -/
def insert (c : Lru V) (k : Nat) (v : V) : Lru V × Option (Nat × V) :=
  if mapHas c.map k then
    let c' := touch c k
    ({ c' with map := mapInsert c'.map k v }, none)
  else
    let (c1, ev) := if c.order.length ≥ c.cap then popLru c else (c, none)
    ({ c1 with order := c1.order ++ [k], map := mapInsert c1.map k v }, ev)

/-- `remove`: erase the first occurrence in `order`, remove from the map -/
def remove (c : Lru V) (k : Nat) : Lru V × Option V :=
  ({ c with order := c.order.erase k, map := mapRemove c.map k }, mapGet c.map k)

def len (c : Lru V) : Nat := c.map.length

/-! ### FileManager on top of the cache -/

/-- `FileManager::table_data` & co.: `if open_files.get(&key).is_none() { let s = open(path);
if let Some((_, lock)) = open_files.insert(key, Arc::new(s)) { lock.write().sync() } }
Ok(open_files.get(&key).unwrap().clone())`.  `load k` is "open the file of key k" – the handle
denotes the file, its content lives in the (shared) file mapping, so handles are reloadable.
Returns the new cache, the handle (none = the `unwrap` would panic) and the evicted key that was
synced. -/
def fetch (load : Nat → V) (c : Lru V) (k : Nat) : Lru V × Option V × Option Nat :=
  let (c1, hit) := get c k
  match hit with
  | some _ =>
    let (c2, v) := get c1 k
    (c2, v, none)
  | none =>
    let (c2, ev) := insert c1 k (load k)
    let (c3, v) := get c2 k
    (c3, v, ev.map (·.1))

inductive Op where
  | fetch (k : Nat)
  /-- `drop_index` / closing a file -/
  | drop (k : Nat)
  deriving Repr, DecidableEq

/-- run a sequence of file-manager operations; the trace has one entry per `fetch` -/
def runOps (load : Nat → V) (c : Lru V) : List Op → Lru V × List (Option V)
  | [] => (c, [])
  | .fetch k :: rest =>
    let (c1, v, _) := fetch load c k
    let (c2, vs) := runOps load c1 rest
    (c2, v :: vs)
  | .drop k :: rest => runOps load (remove c k).1 rest

/-- the reference: a total map from keys to handles – every fetch returns the file's handle -/
def runMap (load : Nat → V) : List Op → List (Option V)
  | [] => []
  | .fetch k :: rest => some (load k) :: runMap load rest
  | .drop _ :: rest => runMap load rest

end TurVerif.Lru
