import TurVerif.Model.Varint
import TurVerif.Model.Simd
/-
M-code model of a B-tree LEAF PAGE: /repo/src/btree/leaf.rs (`LeafNodeMut::init`, `insert_cell`,
`insert_cell_at`, `insert_at_end`, `delete_cell`, `should_compact`, `compact`,
`update_cell_value_in_place`, `update_cell_value_shrink`, `set_next_leaf`) and of the part of
/repo/src/btree/tree.rs that works on ONE leaf (`BTree::update` after the descent, `BTree::delete`
after the descent, the no-split branches of `insert_into_leaf*`, `try_fastpath_insert`).

Page layout (src/storage/page.rs, 16 KiB pages):
  bytes 0..16   page header: type, flags, cell_count u16, free_start u16, free_end u16,
                frag_bytes u8, reserved[3], next_leaf u32
  bytes 16..24  leaf header (unused)
  bytes 24..    slot array, 8 bytes per slot: prefix[4], offset u16, key_len u16
  ...           free space  [free_start, free_end)
  ...16384      cell area, cells allocated downwards from the page end;
                cell = key bytes ++ varint(value_len) ++ value bytes

The model keeps, per slot (in slot order), what the slot and its cell contain: the stored prefix,
the cell offset, the key and the value; plus the header fields.  Dead bytes (free space, leaked
cells) are not represented.  The harness' abstraction function decodes exactly this from the raw
page bytes.

`find_key` is modelled by its specification (position of the probe in the key sequence, linear
scan = `TurVerif.Simd.spec`); that the shipped binary/AVX2 search computes this on a page with
strictly increasing keys is property C30 (`TurVerif.C30.scalar_correct`, `avx2_correct`).

Arithmetic: `usize`/`u16` quantities are `Nat`s; the only narrowing casts that can lose
information on a well-formed page are the two `as u8` casts feeding `frag_bytes`
(`cell_size as u8`, `freed as u8`), modelled as `% 256`, and `saturating_add` on `u8`.
-/
namespace TurVerif.Leaf
open TurVerif.Simd (cmpBytes byteAt SearchResult)

/-- `extract_prefix`: the first four key bytes, zero padded. -/
def extractPrefix (k : List Nat) : List Nat := [byteAt k 0, byteAt k 1, byteAt k 2, byteAt k 3]

structure Cell where
  pre : List Nat   -- slot bytes 0..4
  off : Nat        -- slot bytes 4..6
  key : List Nat   -- `key_len` (slot bytes 6..8) bytes at `off`
  val : List Nat   -- value after the varint length
  deriving DecidableEq, Repr

/-- `key.len() + varint_len(value.len()) + value.len()` -/
def cellSize (k v : List Nat) : Nat := k.length + Varint.len v.length + v.length

def Cell.size (c : Cell) : Nat := cellSize c.key c.val

structure Leaf where
  cells : List Cell
  freeStart : Nat
  freeEnd : Nat
  frag : Nat
  next : Nat
  deriving DecidableEq, Repr

inductive Err where
  | noSpace       -- "not enough free space"
  | keyExists     -- "key already exists"
  | oob           -- slot index out of bounds
  | mismatch      -- "value size mismatch"
  | notShrinking  -- "value not shrinking"
  | badPos        -- insert_cell_at called with a position past the slot array (outside its contract)
  deriving DecidableEq, Repr

/-- `LeafNodeMut::init` -/
def init : Leaf := { cells := [], freeStart := 24, freeEnd := 16384, frag := 0, next := 0 }

/-- `free_end - free_start` -/
def freeSpace (l : Leaf) : Nat := l.freeEnd - l.freeStart

/-- specification of `find_key` on the slot sequence starting at index `i` -/
def findFrom (k : List Nat) : List Cell → Nat → SearchResult
  | [], i => .notFound i
  | c :: cs, i =>
    match cmpBytes c.key k with
    | .lt => findFrom k cs (i + 1)
    | .eq => .found i
    | .gt => .notFound i

def findKey (l : Leaf) (k : List Nat) : SearchResult := findFrom k l.cells 0

/-- slot array shift + slot write -/
def insertAt : List Cell → Nat → Cell → List Cell
  | xs, 0, a => a :: xs
  | [], _ + 1, a => [a]
  | x :: xs, n + 1, a => x :: insertAt xs n a

/-- common tail of insert_cell / insert_cell_at / insert_at_end: allocate the cell below
`free_end`, write the slot at `pos`, bump the header. -/
def place (l : Leaf) (k v : List Nat) (pos : Nat) : Leaf :=
  let newEnd := l.freeEnd - cellSize k v
  { l with
    cells := insertAt l.cells pos { pre := extractPrefix k, off := newEnd, key := k, val := v }
    freeStart := l.freeStart + 8
    freeEnd := newEnd }

def insertCell (l : Leaf) (k v : List Nat) : Except Err Leaf :=
  if freeSpace l < cellSize k v + 8 then .error .noSpace else
  match findKey l k with
  | .found _ => .error .keyExists
  | .notFound pos => .ok (place l k v pos)

def insertCellAt (l : Leaf) (k v : List Nat) (pos : Nat) : Except Err Leaf :=
  if freeSpace l < cellSize k v + 8 then .error .noSpace else
  if l.cells.length < pos then .error .badPos else
  .ok (place l k v pos)

def insertAtEnd (l : Leaf) (k v : List Nat) : Except Err Leaf :=
  if freeSpace l < cellSize k v + 8 then .error .noSpace else
  .ok (place l k v l.cells.length)

/-- `u8::saturating_add` -/
def satAddU8 (a b : Nat) : Nat := if a + b < 256 then a + b else 255

/-- `frag > (PAGE_SIZE - LEAF_CONTENT_START) / 4` -/
def shouldCompact (l : Leaf) : Bool := decide ((16384 - 24) / 4 < l.frag)

/-- second loop of `compact`: cells are rewritten contiguously from `e` downwards in slot order -/
def compactCells : List Cell → Nat → List Cell × Nat
  | [], e => ([], e)
  | c :: cs, e =>
    let r := compactCells cs (e - c.size)
    ({ c with off := e - c.size } :: r.1, r.2)

def compact (l : Leaf) : Leaf :=
  if l.cells.isEmpty then { l with freeEnd := 16384, frag := 0 } else
  let r := compactCells l.cells 16384
  { l with cells := r.1, freeEnd := r.2, frag := 0 }

def removeAt : List Cell → Nat → List Cell
  | [], _ => []
  | _ :: xs, 0 => xs
  | x :: xs, n + 1 => x :: removeAt xs n

def deleteCell (l : Leaf) (i : Nat) : Except Err Leaf :=
  match l.cells[i]? with
  | none => .error .oob
  | some c =>
    let l1 : Leaf := { l with
      cells := removeAt l.cells i
      freeStart := l.freeStart - 8
      frag := satAddU8 l.frag (c.size % 256) }
    .ok (if shouldCompact l1 then compact l1 else l1)

def modifyAt (f : Cell → Cell) : List Cell → Nat → List Cell
  | [], _ => []
  | x :: xs, 0 => f x :: xs
  | x :: xs, n + 1 => x :: modifyAt f xs n

def updateInPlace (l : Leaf) (i : Nat) (v : List Nat) : Except Err Leaf :=
  match l.cells[i]? with
  | none => .error .oob
  | some c =>
    if v.length ≠ c.val.length then .error .mismatch else
    .ok { l with cells := modifyAt (fun c => { c with val := v }) l.cells i }

def updateShrink (l : Leaf) (i : Nat) (v : List Nat) : Except Err Leaf :=
  match l.cells[i]? with
  | none => .error .oob
  | some c =>
    if ¬ v.length < c.val.length then .error .notShrinking else
    let freed := (Varint.len c.val.length + c.val.length) - (Varint.len v.length + v.length)
    .ok { l with
      cells := modifyAt (fun c => { c with val := v }) l.cells i
      frag := satAddU8 l.frag (freed % 256) }

def setNext (l : Leaf) (p : Nat) : Leaf := { l with next := p }

/-! ### tree.rs code that touches exactly one leaf -/

/-- outcome of a keyed operation on the leaf reached by the descent: the page as the call leaves
it (also when the call returns `Err`) and the returned value. -/
structure Out where
  leaf : Leaf
  res : Except Err Bool

/-- `BTree::delete` once the leaf is reached -/
def delete (l : Leaf) (k : List Nat) : Out :=
  match findKey l k with
  | .notFound _ => ⟨l, .ok false⟩
  | .found i =>
    match deleteCell l i with
    | .ok l' => ⟨l', .ok true⟩
    | .error e => ⟨l, .error e⟩

/-- guard of the growing branch of `BTree::update`.
`fixed = false`: the pinned tree, `free_space >= size_increase` with
size_increase = (new_len + varint_len(new_len)).saturating_sub(old_len + varint_len(old_len));
`fixed = true`: after fix_update_grow.patch, `free_space >= key.len() + varint_len(new_len) + new_len`. -/
def growGuard (fixed : Bool) (l : Leaf) (c : Cell) (k v : List Nat) : Bool :=
  if fixed then decide (cellSize k v ≤ freeSpace l)
  else decide ((v.length + Varint.len v.length) - (c.val.length + Varint.len c.val.length) ≤ freeSpace l)

/-- `BTree::update` once the leaf is reached (search + the three branches). In the growing branch
`delete_cell` has already been applied to the page when `insert_cell` fails. -/
def updateG (fixed : Bool) (l : Leaf) (k v : List Nat) : Out :=
  match findKey l k with
  | .notFound _ => ⟨l, .ok false⟩
  | .found i =>
    match l.cells[i]? with
    | none => ⟨l, .error .oob⟩
    | some c =>
      if v.length = c.val.length then
        match updateInPlace l i v with
        | .ok l' => ⟨l', .ok true⟩
        | .error e => ⟨l, .error e⟩
      else if v.length < c.val.length then
        match updateShrink l i v with
        | .ok l' => ⟨l', .ok true⟩
        | .error e => ⟨l, .error e⟩
      else
        if growGuard fixed l c k v then
          match deleteCell l i with
          | .error e => ⟨l, .error e⟩
          | .ok l1 =>
            match insertCell l1 k v with
            | .ok l2 => ⟨l2, .ok true⟩
            | .error e => ⟨l1, .error e⟩
        else ⟨l, .ok false⟩

/-- the pinned tree -/
def update (l : Leaf) (k v : List Nat) : Out := updateG false l k v
/-- after fix_update_grow.patch -/
def updateFixed (l : Leaf) (k v : List Nat) : Out := updateG true l k v

/-- result of trying to insert without a split: `none` = the leaf must be split -/
def insertNoSplit (l : Leaf) (k v : List Nat) : Option (Except Err Leaf) :=
  if cellSize k v + 8 ≤ freeSpace l then some (insertCell l k v) else none

/-- `try_fastpath_insert` / `try_append_fastpath` on the hinted page (already known to be a leaf):
`none` = fall back to the slow path, `some l'` = inserted at the end.
`fixed = false`: the pinned tree (an empty leaf is accepted without any key comparison);
`fixed = true`: after fix_fastpath_empty_leaf.patch (an empty leaf is rejected). -/
def fastpathInsertG (fixed : Bool) (l : Leaf) (k v : List Nat) : Option Leaf :=
  if l.next ≠ 0 then none else
  let bad : Bool := match l.cells.getLast? with
    | none => fixed
    | some c => cmpBytes k c.key != .gt
  if bad then none else
  if freeSpace l < cellSize k v + 8 then none else
  match insertAtEnd l k v with
  | .ok l' => some l'
  | .error _ => none

def fastpathInsert (l : Leaf) (k v : List Nat) : Option Leaf := fastpathInsertG false l k v
def fastpathInsertFixed (l : Leaf) (k v : List Nat) : Option Leaf := fastpathInsertG true l k v

/-! ### abstraction to an association list -/
def abs (l : Leaf) : List (List Nat × List Nat) := l.cells.map fun c => (c.key, c.val)

end TurVerif.Leaf
