/-
M-code model of TurDB's string-matching CHECK evaluator (C09):
`Database::evaluate_check_expression` and helpers in src/database/database.rs
(`eval_check_expr_with_depth`, `split_on_logical_op_case_insensitive`, `strip_outer_parens`,
`eval_simple_comparison`, `find_comparison_operator`, `contains_ignore_ascii_case`,
`extract_numeric_operand`, `compare_value_with_threshold`).

The evaluator receives the CHECK expression as the *string* stored in the catalog
(`Database::expr_to_string`, which prints binary operators without parentheses), the name of the
column the constraint is attached to and that column's value only.

Strings are lists of characters (the Rust code works on bytes; the correspondence run uses ASCII
expressions only).  The numeric operand is a decimal literal `[+-]digits[.digits]`; its value is
the exact rational (the Rust code parses to f64: the run uses literals that are exactly
representable, and integers of magnitude ≤ 2^53 or the two boundaries 2^63-1, 2^63).  No imports.
-/
namespace TurVerif.CheckEval

/-- the column value as the evaluator sees it -/
inductive CVal where
  | null
  | int (i : Int)
  | flt (q : Rat)
  | other            -- text, bool, … : every comparison is false
  deriving Repr, DecidableEq, Inhabited

inductive Cmp where
  | ge | le | gt | lt
  deriving Repr, DecidableEq, Inhabited

def isWs (c : Char) : Bool :=
  c == ' ' || c == '\t' || c == '\n' || c == '\r' || c == Char.ofNat 11 || c == Char.ofNat 12

def trimStart (s : List Char) : List Char := s.dropWhile isWs
def trimEnd (s : List Char) : List Char := (s.reverse.dropWhile isWs).reverse
def trim (s : List Char) : List Char := trimEnd (trimStart s)

def lower (c : Char) : Char :=
  if 65 ≤ c.toNat ∧ c.toNat ≤ 90 then Char.ofNat (c.toNat + 32) else c

/-- `<[u8]>::eq_ignore_ascii_case` -/
def eqIgnoreCase : List Char → List Char → Bool
  | [], [] => true
  | a :: as, b :: bs => lower a == lower b && eqIgnoreCase as bs
  | _, _ => false

/-- `split_on_logical_op_case_insensitive`: scan left to right tracking parenthesis depth; at depth
0 the first position where `op` matches (ASCII case-insensitively) with non-empty trimmed sides
splits; an unmatched `)` aborts.  `pre` is the reversed prefix already scanned. -/
def splitOn (op : List Char) (pre : List Char) (rest : List Char) (depth : Nat) :
    Option (List Char × List Char) :=
  match rest with
  | [] => none
  | c :: tl =>
    if rest.length < op.length then none
    else if c == '(' then splitOn op (c :: pre) tl (depth + 1)
    else if c == ')' then
      if depth == 0 then none else splitOn op (c :: pre) tl (depth - 1)
    else if depth == 0 && eqIgnoreCase (rest.take op.length) op then
      let left := trim pre.reverse
      let right := trim (rest.drop op.length)
      if !left.isEmpty && !right.isEmpty then some (left, right)
      else splitOn op (c :: pre) tl depth
    else splitOn op (c :: pre) tl depth

/-- the depth scan of `strip_outer_parens` over the inner part: `none` when a `)` closes more than
was opened, else the final depth -/
def parenScan : List Char → Int → Option Int
  | [], d => some d
  | c :: cs, d =>
    if c == '(' then parenScan cs (d + 1)
    else if c == ')' then (if d - 1 < 0 then none else parenScan cs (d - 1))
    else parenScan cs d

def stripOuterParens (s : List Char) : List Char :=
  match s with
  | [] => s
  | c :: tl =>
    if c != '(' then s
    else match tl.reverse with
      | [] => s                       -- "(" alone does not end with ')'
      | l :: initRev =>
        if l != ')' then s
        else
          let inner := initRev.reverse
          match parenScan inner 0 with
          | some 0 => inner
          | _ => s

/-- `contains_ignore_ascii_case` (windows of the needle's length) -/
def containsIgnoreCase (hay needle : List Char) : Bool :=
  if needle.isEmpty then true
  else go hay
where
  go : List Char → Bool
    | [] => false
    | c :: cs =>
      if (c :: cs).length < needle.length then false
      else eqIgnoreCase ((c :: cs).take needle.length) needle || go cs

/-- `find_comparison_operator`: the first `<` or `>`; followed by `=` it is `<=`/`>=`.
Returns (operator, operator length, the text after the operator). -/
def findOp : List Char → Option (Cmp × List Char)
  | [] => none
  | c :: cs =>
    if c == '>' then
      match cs with
      | '=' :: r => some (.ge, r)
      | _ => some (.gt, cs)
    else if c == '<' then
      match cs with
      | '=' :: r => some (.le, r)
      | _ => some (.lt, cs)
    else findOp cs

def digitVal (c : Char) : Option Nat :=
  if 48 ≤ c.toNat ∧ c.toNat ≤ 57 then some (c.toNat - 48) else none

/-- the digit/dot scan of `extract_numeric_operand`: accumulates the integer mantissa and the
number of fractional digits; stops at the first other character or a second dot -/
def scanNum : List Char → (mant : Nat) → (fracDigits : Nat) → (hasDigit hasDot : Bool) →
    Nat × Nat × Bool
  | [], m, k, hd, _ => (m, k, hd)
  | c :: cs, m, k, hd, dot =>
    match digitVal c with
    | some d => scanNum cs (m * 10 + d) (if dot then k + 1 else k) true dot
    | none =>
      if c == '.' && !dot then scanNum cs m k hd true
      else (m, k, hd)

def pow10 : Nat → Nat
  | 0 => 1
  | n + 1 => 10 * pow10 n

/-- `extract_numeric_operand`: optional sign, digits with at most one dot, at least one digit -/
def extractNum (s : List Char) : Option Rat :=
  match trimStart s with
  | [] => none
  | c :: cs =>
    let (neg, body) := if c == '-' then (true, cs) else if c == '+' then (false, cs) else (false, c :: cs)
    let (m, k, hd) := scanNum body 0 0 false false
    if !hd then none
    else
      let q : Rat := (m : Rat) / (pow10 k : Rat)
      some (if neg then -q else q)

def Cmp.holdsRat (op : Cmp) (a b : Rat) : Bool :=
  match op with
  | .ge => b ≤ a
  | .le => a ≤ b
  | .gt => b < a
  | .lt => a < b

def Cmp.holdsInt (op : Cmp) (a b : Int) : Bool :=
  match op with
  | .ge => b ≤ a
  | .le => a ≤ b
  | .gt => b < a
  | .lt => a < b

def i64Min : Int := -9223372036854775808
def i64Max : Int := 9223372036854775807

/-- `compare_value_with_threshold`.  An integral threshold within [-2^63, 2^63] is cast to i64
(saturating) and compared as integers; otherwise both sides are compared as reals. -/
def compareWithThreshold (v : CVal) (thr : Rat) (op : Cmp) : Bool :=
  match v with
  | .int i =>
    if thr.den = 1 ∧ (i64Min : Rat) ≤ thr ∧ thr ≤ ((i64Max + 1 : Int) : Rat) then
      let t : Int := if thr.num > i64Max then i64Max else thr.num
      op.holdsInt i t
    else op.holdsRat (i : Rat) thr
  | .flt q => op.holdsRat q thr
  | _ => false

/-- `eval_simple_comparison` -/
def evalSimple (expr col : List Char) (v : CVal) : Bool :=
  if !containsIgnoreCase expr col then true
  else
    match findOp expr with
    | some (op, after) =>
      match extractNum after with
      | some thr => compareWithThreshold v thr op
      | none => false
    | none => false

/-- `eval_check_expr_with_depth`; `fuel = MAX_CHECK_EXPR_DEPTH - depth`, `none` = the
"exceeds maximum nesting depth" error.  Both operands of OR / AND are always evaluated. -/
def evalDepth : Nat → List Char → List Char → CVal → Option Bool
  | 0, _, _, _ => none
  | fuel + 1, expr, col, v =>
    let t := trim expr
    match splitOn " or ".toList [] t 0 with
    | some (l, r) =>
      match evalDepth fuel l col v with
      | none => none
      | some a => match evalDepth fuel r col v with
        | none => none
        | some b => some (a || b)
    | none =>
      match splitOn " and ".toList [] t 0 with
      | some (l, r) =>
        match evalDepth fuel l col v with
        | none => none
        | some a => match evalDepth fuel r col v with
          | none => none
          | some b => some (a && b)
      | none =>
        let st := stripOuterParens t
        if st != t then evalDepth fuel st col v
        else some (evalSimple t col v)

/-- `evaluate_check_expression`: a missing or NULL value passes without looking at the expression -/
def evaluateCheck (expr col : List Char) (v : CVal) : Option Bool :=
  match v with
  | .null => some true
  | _ => evalDepth 32 expr col v

end TurVerif.CheckEval
