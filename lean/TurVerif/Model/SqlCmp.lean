/-
M-code: the three value comparators the engine sorts with (C15).

* `cmpForSort`   = `Value::compare_for_sort` (src/types/value.rs:501) = `compare(..).unwrap_or(Equal)`,
                   used by the live sort paths (`DynamicExecutor::Sort` / `TopK` through
                   `compare_values_for_sort`, src/sql/util.rs:87).  `compare` returns `None` as soon
                   as one side is NULL, so NULL compares *Equal* to everything.
* `cmpSortExec`  = `SortExecutor::compare_values` (src/sql/executor.rs:1570): NULL lowest, but every
                   mixed pair (Int/Float included) compares Equal.
* `cmpOwned`     = `compare_owned_values` (src/database/query/helpers.rs:300): NULL lowest, Int/Float
                   by value, other mixed pairs Equal.

Same branches as the Rust `match`es, restricted to the variants NULL / BOOL / INT / FLOAT / TEXT /
BLOB.  Floats are exact rationals (the harness only sends dyadic values and integers of magnitude
≤ 2^53, for which `i as f64` is exact; NaN is not sent).  No imports outside core.
-/
namespace TurVerif.SqlCmp

inductive EV where
  | null
  | bool (b : Bool)
  | int (i : Int)
  | flt (q : Rat)
  | text (s : String)
  | blob (b : List Nat)
  deriving DecidableEq, Repr, Inhabited

def ratCmp (a b : Rat) : Ordering :=
  if a < b then .lt else if a = b then .eq else .gt

/-- lexicographic order on byte strings (`<[u8]>::cmp`) -/
def bytesCmp : List Nat → List Nat → Ordering
  | [], [] => .eq
  | [], _ :: _ => .lt
  | _ :: _, [] => .gt
  | x :: xs, y :: ys => if x < y then .lt else if y < x then .gt else bytesCmp xs ys

/-- `Value::compare` on the modelled variants (`Value` has no BOOL variant: a BOOL here takes the
catch-all `_ => None`) -/
def compare? : EV → EV → Option Ordering
  | .null, _ => none
  | _, .null => none
  | .int a, .int b => some (compare a b)
  | .flt a, .flt b => some (ratCmp a b)
  | .int a, .flt b => some (ratCmp (a : Rat) b)
  | .flt a, .int b => some (ratCmp a (b : Rat))
  | .text a, .text b => some (compare a b)
  | .blob a, .blob b => some (bytesCmp a b)
  | .int _, .text _ => some .lt
  | .flt _, .text _ => some .lt
  | .int _, .blob _ => some .lt
  | .flt _, .blob _ => some .lt
  | .text _, .int _ => some .gt
  | .text _, .flt _ => some .gt
  | .text _, .blob _ => some .lt
  | .blob _, .int _ => some .gt
  | .blob _, .flt _ => some .gt
  | .blob _, .text _ => some .gt
  | _, _ => none

/-- `Value::compare_for_sort` -/
def cmpForSort (a b : EV) : Ordering := (compare? a b).getD .eq

/-- `SortExecutor::compare_values` -/
def cmpSortExec : EV → EV → Ordering
  | .null, .null => .eq
  | .null, _ => .lt
  | _, .null => .gt
  | .int a, .int b => compare a b
  | .flt a, .flt b => ratCmp a b
  | .text a, .text b => compare a b
  | .blob a, .blob b => bytesCmp a b
  | _, _ => .eq

/-- `compare_owned_values` -/
def cmpOwned : EV → EV → Ordering
  | .null, .null => .eq
  | .null, _ => .lt
  | _, .null => .gt
  | .int a, .int b => compare a b
  | .flt a, .flt b => ratCmp a b
  | .int a, .flt b => ratCmp (a : Rat) b
  | .flt a, .int b => ratCmp a (b : Rat)
  | .text a, .text b => compare a b
  | .bool a, .bool b => compare a b
  | .blob a, .blob b => bytesCmp a b
  | _, _ => .eq

/-- the `sort_by` closure of the engine: first key that does not compare Equal decides, DESC reverses -/
def rowCmp (cmp : EV → EV → Ordering) : List (EV × Bool) → List (EV × Bool) → Ordering
  | (a, d) :: as, (b, _) :: bs =>
    match cmp a b with
    | .eq => rowCmp cmp as bs
    | o => if d then o.swap else o
  | _, _ => .eq

end TurVerif.SqlCmp
