/-
M-code model of the row record format: /repo/src/records/schema.rs (Schema::new: fixed offsets,
var column indices, null_bitmap_size), builder.rs (RecordBuilder::new / reset / set_null /
set_fixed_bytes / set_blob-like setters / build, build_into) and view.rs (header_len, is_null,
get_fixed_col_offset, get_var_bounds and the slice every getter takes).

Layout written by `build`:
  [header_len: u16 LE] [null bitmap: ceil(n/8) bytes, bit set = NULL] [u16 LE end offset per
  variable column] [fixed area: every fixed column at its schema offset] [variable area]

State abstraction (stated, and checked by the correspondence run on arbitrary setter sequences):
the builder state `(null_bitmap, fixed_data, var_data)` is kept per column as a `Cell`:
`null` = that column's bitmap bit, `bytes` = that column's slice of `fixed_data` (fixed column)
or its `var_data[var_idx]` (variable column).  `fixed_data` is the concatenation of the fixed
cells in column order, `var_data` the list of the variable cells.  Padding bits of the last
bitmap byte are never set by the code and are 0 here.  `set_null` keeps the stale bytes, as the
code does.  Typed setters/getters are little-endian encodings of fixed width and are handled at
byte level (the harness encodes with the same `to_le_bytes`).

`header_len as u16` is `% 65536`; `var_offset += len as u16` is a checked u16 addition in the dev
profile: the model has the explicit outcome `overflow` (the real code panics there).
Every read of the view goes through `slice`, with the explicit outcome `oob`.
-/
namespace TurVerif.Record

inductive ColKind where
  | fixed (n : Nat)
  | var
  deriving Repr, DecidableEq

structure Cell where
  null : Bool
  bytes : List Nat
  deriving Repr, DecidableEq

/-! ### schema -/

def fixedSize : ColKind → Nat
  | .fixed n => n
  | .var => 0

/-- `Schema::fixed_offset(i)`: sum of the fixed sizes of the columns before `i` -/
def fixedOffset : List ColKind → Nat → Nat
  | [], _ => 0
  | _ :: _, 0 => 0
  | k :: ks, i + 1 => fixedSize k + fixedOffset ks i

def totalFixed : List ColKind → Nat
  | [] => 0
  | k :: ks => fixedSize k + totalFixed ks

def isVar : ColKind → Bool
  | .var => true
  | .fixed _ => false

def varCount (s : List ColKind) : Nat := (s.filter isVar).length

/-- `Schema::var_column_index(i)`: position of column `i` among the variable columns -/
def varIndex (s : List ColKind) (i : Nat) : Nat := ((s.take i).filter isVar).length

def bitmapSize (n : Nat) : Nat := (n + 7) / 8

/-! ### builder -/

def newCell : ColKind → Cell
  | .fixed n => ⟨true, List.replicate n 0⟩
  | .var => ⟨true, []⟩

/-- `RecordBuilder::new` -/
def new (s : List ColKind) : List Cell := s.map newCell

/-- `reset`: all NULL bits set, `fixed_data.fill(0)`, every `var_data` cleared -/
def resetCell (k : ColKind) (c : Cell) : Cell :=
  match k with
  | .fixed _ => ⟨true, c.bytes.map fun _ => 0⟩
  | .var => ⟨true, []⟩

def reset (s : List ColKind) (st : List Cell) : List Cell := List.zipWith resetCell s st

/-- `set_null`: bit set, bytes untouched -/
def setNull (st : List Cell) (i : Nat) : List Cell :=
  st.modify i fun c => { c with null := true }

/-- a setter: `clear_null`, then `fixed_data[off .. off+len] = bytes` (fixed column; a shorter
value leaves the tail of the slot) or `var_data[idx] = bytes` (variable column) -/
def setBytes (s : List ColKind) (st : List Cell) (i : Nat) (bytes : List Nat) : List Cell :=
  match s[i]? with
  | some (.fixed _) => st.modify i fun c => ⟨false, bytes ++ c.bytes.drop bytes.length⟩
  | some .var => st.modify i fun _ => ⟨false, bytes⟩
  | none => st

def bit (b : Bool) : Nat := if b then 1 else 0

/-- byte `k` of the null bitmap: bit `j` is column `8k+j` (0 beyond the last column) -/
def packByte (fl : List Bool) (k : Nat) : Nat :=
  bit (fl.getD (8 * k) false) + 2 * bit (fl.getD (8 * k + 1) false)
    + 4 * bit (fl.getD (8 * k + 2) false) + 8 * bit (fl.getD (8 * k + 3) false)
    + 16 * bit (fl.getD (8 * k + 4) false) + 32 * bit (fl.getD (8 * k + 5) false)
    + 64 * bit (fl.getD (8 * k + 6) false) + 128 * bit (fl.getD (8 * k + 7) false)

def bitmap (fl : List Bool) : List Nat := (List.range (bitmapSize fl.length)).map (packByte fl)

def le16 (v : Nat) : List Nat := [v % 256, v / 256 % 256]

/-- the offset-table loop: `var_offset += len as u16` (checked), `extend(var_offset.to_le_bytes())` -/
def offsetTable : List (List Nat) → Nat → Option (List Nat)
  | [], _ => some []
  | v :: vs, acc =>
    let a := acc + v.length % 65536
    if 65536 ≤ a then none
    else match offsetTable vs a with
      | some t => some (le16 a ++ t)
      | none => none

def fixedArea : List ColKind → List Cell → List Nat
  | k :: ks, c :: cs => (if isVar k then [] else c.bytes) ++ fixedArea ks cs
  | _, _ => []

def varCells : List ColKind → List Cell → List (List Nat)
  | k :: ks, c :: cs => if isVar k then c.bytes :: varCells ks cs else varCells ks cs
  | _, _ => []

def headerLen (s : List ColKind) : Nat := 2 + bitmapSize s.length + 2 * varCount s

inductive BuildRes where
  | ok (bytes : List Nat)
  | overflow
  deriving Repr, DecidableEq

/-- `build` / `build_into` -/
def build (s : List ColKind) (st : List Cell) : BuildRes :=
  match offsetTable (varCells s st) 0 with
  | none => .overflow
  | some table =>
    .ok (le16 (headerLen s % 65536) ++ bitmap (st.map (·.null)) ++ table
      ++ fixedArea s st ++ (varCells s st).flatten)

/-! ### view -/

inductive Get where
  | null
  | val (bytes : List Nat)
  | oob
  deriving Repr, DecidableEq

def slice (data : List Nat) (off n : Nat) : Option (List Nat) :=
  if off + n ≤ data.length then some ((data.drop off).take n) else none

def rd16 (data : List Nat) (off : Nat) : Option Nat :=
  match slice data off 2 with
  | some [a, b] => some (a + 256 * b)
  | _ => none

/-- `is_null`: `(bitmap[i/8] & (1 << (i%8))) != 0` -/
def isNull (data : List Nat) (i : Nat) : Option Bool :=
  match slice data (2 + i / 8) 1 with
  | some [b] => some (b / 2 ^ (i % 8) % 2 == 1)
  | _ => none

/-- `get_var_bounds` -/
def varBounds (s : List ColKind) (data : List Nat) (i : Nat) : Option (Nat × Nat) :=
  match rd16 data 0 with
  | none => none
  | some hl =>
    let vi := varIndex s i
    let tbl := 2 + bitmapSize s.length
    let varStart := hl + totalFixed s
    match rd16 data (tbl + vi * 2) with
    | none => none
    | some e =>
      if vi = 0 then some (varStart, varStart + e)
      else match rd16 data (tbl + (vi - 1) * 2) with
        | none => none
        | some b => some (varStart + b, varStart + e)

/-- the `_opt` getters: NULL test, then the slice of the column -/
def get (s : List ColKind) (data : List Nat) (i : Nat) : Get :=
  match isNull data i with
  | none => .oob
  | some true => .null
  | some false =>
    match s[i]? with
    | none => .oob
    | some (.fixed n) =>
      match rd16 data 0 with
      | none => .oob
      | some hl =>
        match slice data (hl + fixedOffset s i) n with
        | some bs => .val bs
        | none => .oob
    | some .var =>
      match varBounds s data i with
      | none => .oob
      | some (b, e) =>
        if e < b then .oob else
        match slice data b (e - b) with
        | some bs => .val bs
        | none => .oob

/-- the loop of `record_column_count`: columns are counted while their fixed parts fit into the
bytes after the header (variable columns always count) -/
def countCols : List ColKind → Nat → Nat → Nat
  | [], _, _ => 0
  | .fixed n :: ks, consumed, avail =>
    if consumed + n > avail then 0 else 1 + countCols ks (consumed + n) avail
  | .var :: ks, consumed, avail => 1 + countCols ks consumed avail

/-- `record_column_count` -/
def recordColumnCount (s : List ColKind) (data : List Nat) : Option Nat :=
  match rd16 data 0 with
  | none => none
  | some hl => if data.length ≤ hl then some 0 else some (countCols s 0 (data.length - hl))

/-- the `get_*_opt` getters (what `OwnedValue::extract_row_from_record` uses):
`is_null_or_missing` first -/
def getOpt (s : List ColKind) (data : List Nat) (i : Nat) : Get :=
  match recordColumnCount s data with
  | none => .oob
  | some c => if c ≤ i then .null else get s data i

/-! ### the property's objects -/

/-- a row: `none` = NULL, `some bytes` = the encoded value -/
def setRow (s : List ColKind) : List (Option (List Nat)) → Nat → List Cell → List Cell
  | [], _, st => st
  | none :: r, i, st => setRow s r (i + 1) (setNull st i)
  | some b :: r, i, st => setRow s r (i + 1) (setBytes s st i b)

/-- the row matches the schema: fixed values have exactly the column width -/
def RowOk : List ColKind → List (Option (List Nat)) → Prop
  | [], [] => True
  | .fixed n :: ks, some b :: r => b.length = n ∧ RowOk ks r
  | .var :: ks, some _ :: r => RowOk ks r
  | _ :: ks, none :: r => RowOk ks r
  | _, _ => False

def varTotal : List ColKind → List (Option (List Nat)) → Nat
  | .var :: ks, some b :: r => b.length + varTotal ks r
  | _ :: ks, _ :: r => varTotal ks r
  | _, _ => 0

/-- the u16 fields do not wrap -/
def Fits (s : List ColKind) (row : List (Option (List Nat))) : Prop :=
  headerLen s < 65536 ∧ varTotal s row < 65536

end TurVerif.Record
