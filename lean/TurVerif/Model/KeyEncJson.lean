import TurVerif.Model.KeyEnc
/-
M-code model of the JSON part of /repo/src/encoding/key.rs: `encode_json`, `decode_json`,
`decode_json_array`, `decode_json_object`.  Strings and object keys are byte lists (UTF-8),
numbers are f64 bit patterns.  Uses `be`, `esc`, `unesc`, `utf8Valid`, `flipTop` of Model/KeyEnc.
-/
namespace TurVerif.KeyEnc

mutual
inductive JVal where
  | null
  | bool (b : Bool)
  | num (bits : Nat)
  | str (bs : List Nat)
  | arr (es : JList)
  | obj (kvs : JObj)
inductive JList where
  | nil
  | cons (v : JVal) (vs : JList)
inductive JObj where
  | nil
  | cons (k : List Nat) (v : JVal) (rest : JObj)
end

/-- `if *n < 0.0 { !bits } else { bits ^ (1<<63) }` -/
def jnumEnc (b : Nat) : Nat :=
  if b > 9223372036854775808 ∧ ¬ isNan64 b then 18446744073709551615 - b
  else flipTop 9223372036854775808 b

/-- `if encoded & (1<<63) != 0 { encoded ^ (1<<63) } else { !encoded }` -/
def jnumDec (e : Nat) : Nat :=
  if e ≥ 9223372036854775808 then e - 9223372036854775808 else 18446744073709551615 - e

mutual
/-- `encode_json` -/
def encJ : JVal → List Nat
  | .null => [0x50]
  | .bool b => [if b then 0x52 else 0x51]
  | .num b => 0x53 :: be 8 (jnumEnc b)
  | .str bs => 0x54 :: esc bs
  | .arr es => 0x55 :: encJElems es
  | .obj kvs => 0x56 :: encJObj kvs
def encJElems : JList → List Nat
  | .nil => [0]
  | .cons v vs => encJ v ++ encJRest vs
def encJRest : JList → List Nat
  | .nil => [0]
  | .cons v vs => 1 :: (encJ v ++ encJRest vs)
/-- object body: the escaped key is written with NO prefix byte, then the value -/
def encJObj : JObj → List Nat
  | .nil => [0]
  | .cons k v rest => esc k ++ (encJ v ++ encJObjRest rest)
def encJObjRest : JObj → List Nat
  | .nil => [0]
  | .cons k v rest => 1 :: (esc k ++ (encJ v ++ encJObjRest rest))
end

inductive JRes where
  | ok (v : JVal) (n : Nat)
  | err (e : String)
inductive JLRes where
  | ok (vs : JList) (n : Nat)
  | err (e : String)
inductive JORes where
  | ok (kvs : JObj) (n : Nat)
  | err (e : String)

mutual
/-- `decode_json` -/
def decJ : Nat → List Nat → JRes
  | 0, _ => .err "fuel"
  | fuel + 1, d =>
    match d with
    | [] => .err "empty"
    | p :: t =>
      if p = 0x50 then .ok .null 1
      else if p = 0x51 then .ok (.bool false) 1
      else if p = 0x52 then .ok (.bool true) 1
      else if p = 0x53 then
        if d.length < 9 then .err "trunc" else .ok (.num (jnumDec (fromBe (t.take 8)))) 9
      else if p = 0x54 then
        match unesc t with
        | none => .err "escape"
        | some (bs, n) => if utf8Valid bs then .ok (.str bs) (1 + n) else .err "utf8"
      else if p = 0x55 then
        match decJElems fuel t false with
        | .ok vs n => .ok (.arr vs) (1 + n)
        | .err e => .err e
      else if p = 0x56 then
        match decJObj fuel t false with
        | .ok kvs n => .ok (.obj kvs) (1 + n)
        | .err e => .err e
      else .err "prefix"
/-- `decode_json_array` -/
def decJElems : Nat → List Nat → Bool → JLRes
  | 0, _, _ => .err "fuel"
  | fuel + 1, d, nonempty =>
    match d with
    | [] => .err "terminator"
    | x :: t =>
      if x = 0 then .ok .nil 1
      else if nonempty then
        if x ≠ 1 then .err "separator" else
        match decJ fuel t with
        | .err e => .err e
        | .ok v n =>
          match decJElems fuel (t.drop n) true with
          | .err e => .err e
          | .ok vs m => .ok (.cons v vs) (1 + n + m)
      else
        match decJ fuel d with
        | .err e => .err e
        | .ok v n =>
          match decJElems fuel (d.drop n) true with
          | .err e => .err e
          | .ok vs m => .ok (.cons v vs) (n + m)
/-- `decode_json_object`: a leading 00 is the terminator, also when it is the first byte of a key -/
def decJObj : Nat → List Nat → Bool → JORes
  | 0, _, _ => .err "fuel"
  | fuel + 1, d, nonempty =>
    match d with
    | [] => .err "terminator"
    | x :: t =>
      if x = 0 then .ok .nil 1
      else
        let body := if nonempty then t else d
        let skip := if nonempty then 1 else 0
        if nonempty ∧ x ≠ 1 then .err "separator" else
        match unesc body with
        | none => .err "escape"
        | some (k, kn) =>
          if ¬ utf8Valid k then .err "utf8" else
          match decJ fuel (body.drop kn) with
          | .err e => .err e
          | .ok v vn =>
            match decJObj fuel (body.drop (kn + vn)) true with
            | .err e => .err e
            | .ok rest m => .ok (.cons k v rest) (skip + kn + vn + m)
end

/-- top level entry as reached from `decode_key` for prefixes 0x50..0x56 -/
def decodeJ (d : List Nat) : JRes := decJ (2 * d.length + 2) d

end TurVerif.KeyEnc
