import TurVerif.Model.Cal
import Driver.Util
/-! Line protocol for the calendar model (family `cal`).

`date Y M D`      → `ok lit def fn dow doy dimlit dimfn leap`   (all converters on one field triple)
`year Y`          → the first six fields for every m ∈ 1..12, d ∈ 1..31, separated by `;`
`inv N0 CNT`      → for N = N0..N0+CNT-1 (days since 1970-01-01): `<format_date> <FROM_DAYS> <format_unix_timestamp date part>;`
`<parser> HEX`    → `some N` | `none`     parser ∈ litdate littime litts defdate deftime defts
                                                     castdate casttime castts
`fndate HEX`      → `some Y M D` | `none`
`fmtdate N` `fmttime N` `fmtts N` `fromdays N` `unixts N` → rendered text as hex
-/
namespace Driver.Cal
open TurVerif.Cal

def b2s (b : Bool) : String := if b then "1" else "0"

def tuple6 (y : Int) (m d : Nat) : String :=
  s!"{b2s (litDateOk y m d)} {litDateToDays y m d} {defDaysFromYmd y m d} {fnDateToDays y m d} {fnDayOfWeek y m d} {fnDayOfYear y m d}"

/-- same as `tuple6`, with the value of the year loop of `litDateToDays` supplied by the caller
(`litDateToDays y m d = litDateFrom (litYearPart y) y m d` holds by definition) -/
def tuple6From (yp : Int) (y : Int) (m d : Nat) : String :=
  s!"{b2s (litDateOk y m d)} {litDateFrom yp y m d} {defDaysFromYmd y m d} {fnDateToDays y m d} {fnDayOfWeek y m d} {fnDayOfYear y m d}"

def yearLine (y : Int) : String := Id.run do
  let mut out := ""
  let yp := litYearPart y
  for m in [1:13] do
    for d in [1:32] do
      out := out ++ tuple6From yp y m d ++ ";"
  return out

def asciiOfText (t : Text) : String := String.ofList (t.map Char.ofNat)

def unixtsText (secs : Int) : Text :=
  match fnFormatUnixTimestamp secs with
  | some t => t
  | none => "panic-sub-overflow".toList.map Char.toNat

/-- the three inverse converters on day `n` (days since 1970-01-01), as rendered dates -/
def invOne (n : Int) : String :=
  let a := asciiOfText (cliFormatDate n)
  let b := asciiOfText (fnFromDays (n + 719163))
  let c := asciiOfText ((unixtsText (n * 86400)).takeWhile (· ≠ 32))
  s!"{a} {b} {c};"

def invLine (n0 : Int) (cnt : Nat) : String := Id.run do
  let mut out := ""
  for i in [0:cnt] do
    out := out ++ invOne (n0 + i)
  return out

def optInt : Option Int → String
  | some v => s!"some {v}"
  | none => "none"

def textParser (name : String) : Option (Text → Option Int) :=
  match name with
  | "litdate" => some litParseDate
  | "littime" => some litParseTime
  | "litts" => some litParseTimestamp
  | "defdate" => some defParseDate
  | "deftime" => some defParseTime
  | "defts" => some defParseTimestamp
  | "castdate" => some castParseDate
  | "casttime" => some castParseTime
  | "castts" => some castParseTimestamp
  | _ => none

def renderer (name : String) : Option (Int → Text) :=
  match name with
  | "fmtdate" => some cliFormatDate
  | "fmttime" => some cliFormatTime
  | "fmtts" => some cliFormatTimestamp
  | "fromdays" => some fnFromDays
  | "unixts" => some unixtsText
  | _ => none

def step (_ : Unit) : List String → Unit × String
  | ["date", ys, ms, ds] =>
    match Driver.parseInt ys, ms.toNat?, ds.toNat? with
    | some y, some m, some d =>
      ((), s!"{tuple6 y m d} {litDaysInMonth y m} {fnDaysInMonth y m} {b2s (litIsLeap y)}")
    | _, _, _ => ((), "bad-op")
  | ["year", ys] =>
    match Driver.parseInt ys with
    | some y => ((), yearLine y)
    | none => ((), "bad-op")
  | ["inv", ns, cs] =>
    match Driver.parseInt ns, cs.toNat? with
    | some n, some c => ((), invLine n c)
    | _, _ => ((), "bad-op")
  | ["fndate", h] =>
    match Driver.bytesOfHex h with
    | some t =>
      match fnParseDate t with
      | some (y, m, d) => ((), s!"some {y} {m} {d}")
      | none => ((), "none")
    | none => ((), "bad-op")
  | [op, arg] =>
    match textParser op with
    | some p =>
      match Driver.bytesOfHex arg with
      | some t => ((), optInt (p t))
      | none => ((), "bad-op")
    | none =>
      match renderer op with
      | some r =>
        match Driver.parseInt arg with
        | some n => ((), Driver.hexOrDash (r n))
        | none => ((), "bad-op")
      | none => ((), "bad-op")
  | _ => ((), "bad-op")

end Driver.Cal
