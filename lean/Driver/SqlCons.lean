import TurVerif.Model.SqlCons
import TurVerif.Model.CheckEval
import Driver.SqlDb
/- Line protocol, family `sqlcons` (C09): everything of family `sqldb`, except that `stmt` runs
`TurVerif.SqlCons.step` (ON UPDATE CASCADE aware), plus
  `load <table> <nextauto> (<row>…)`    overwrite the rows of a table (resynchronisation)
  `wouldbe <stmt>`                      `err <e>` | `viol <table>:<kind,…>;…` | `viol -`
  `viol`                                violations of the current state
  `checkeval <exprhex> <colhex> <val>`  M-code CHECK evaluator: `ok 0|1` | `err depth`
-/
namespace Driver.SqlCons
open TurVerif.Sql TurVerif.SqlDb TurVerif.SqlCons Driver Driver.Sql Driver.SqlDb

def showKind : Kind → String
  | .notnull => "notnull" | .pk => "pk" | .unique => "unique" | .check => "check" | .fk => "fk"

def showViol (v : List (String × List Kind)) : String :=
  if v.isEmpty then "viol -"
  else "viol " ++ ";".intercalate (v.map (fun x => x.1 ++ ":" ++ ",".intercalate (x.2.map showKind)))

def cval? : SX → Option TurVerif.CheckEval.CVal
  | .list [.atom "null"] => some .null
  | .list [.atom "int", .atom n] => (parseInt n).map .int
  | .list [.atom "flt", .atom n, .atom d] =>
    match parseInt n, d.toNat? with
    | some num, some den => if den = 0 then none else some (.flt ((num : Rat) / (den : Rat)))
    | _, _ => none
  | .list [.atom "other"] => some .other
  | _ => none

def step (s : DbState) (ws : List String) : DbState × String :=
  match ws with
  | "stmt" :: rest =>
    match sxOfLine rest with
    | some [sx] => match stmt? sx with
      | some st => let (s', r) := TurVerif.SqlCons.step s st; (s', showRes r)
      | none => (s, "bad-op")
    | _ => (s, "bad-op")
  | "wouldbe" :: rest =>
    match sxOfLine rest with
    | some [sx] => match stmt? sx with
      | some st =>
        if !isWrite st then (s, "bad-op") else
        match wouldBe s st with
        | .error e => (s, s!"err {showErr e}")
        | .ok (s', _) => (s, showViol (violations s'))
      | none => (s, "bad-op")
    | _ => (s, "bad-op")
  | ["viol"] => (s, showViol (violations s))
  | "load" :: n :: na :: rest =>
    match s.find n, parseInt na, sxOfLine rest with
    | some t, some next, some [.list rows] =>
      match mapM? row? rows with
      | some rs => (s.put { t with rows := rs, nextAuto := next }, "ok")
      | none => (s, "bad-op")
    | _, _, _ => (s, "bad-op")
  | "checkeval" :: eh :: ch :: rest =>
    match strOfHex eh, strOfHex ch, sxOfLine rest with
    | some e, some c, some [vx] =>
      match cval? vx with
      | some v => match TurVerif.CheckEval.evaluateCheck e.toList c.toList v with
        | some true => (s, "ok 1")
        | some false => (s, "ok 0")
        | none => (s, "err depth")
      | none => (s, "bad-op")
    | _, _, _ => (s, "bad-op")
  | _ => Driver.SqlDb.step s ws

end Driver.SqlCons
