import TurVerif.Model.SqlCmp
import Driver.Util
/-! family `sqlcmp`: `cmp <forsort|sortexec|owned> <cell> <cell>` -> `lt|eq|gt`.
Cells: `N`, `B0/B1`, `I<int>`, `F<num>/<den>`, `T<hex>`, `X<hex>`. -/
namespace Driver.SqlCmp
open TurVerif.SqlCmp Driver

def cell? (s : String) : Option EV :=
  match s.toList with
  | ['N'] => some .null
  | ['B', '0'] => some (.bool false)
  | ['B', '1'] => some (.bool true)
  | 'I' :: rest => (parseInt (String.ofList rest)).map .int
  | 'F' :: rest =>
    match (String.ofList rest).splitOn "/" with
    | [n, d] => match parseInt n, d.toNat? with
      | some num, some den => if den = 0 then none else some (.flt ((num : Rat) / (den : Rat)))
      | _, _ => none
    | _ => none
  | 'T' :: rest =>
    match bytesOfHex (String.ofList rest) with
    | some bs => (String.fromUTF8? (ByteArray.mk (bs.map (fun b => UInt8.ofNat b)).toArray)).map .text
    | none => none
  | 'X' :: rest => (bytesOfHex (String.ofList rest)).map .blob
  | _ => none

def isBool : EV → Bool
  | .bool _ => true
  | _ => false

def showOrd : Ordering → String
  | .lt => "lt" | .eq => "eq" | .gt => "gt"

def step (_ : Unit) (ws : List String) : Unit × String :=
  match ws with
  | ["cmp", f, a, b] =>
    match cell? a, cell? b with
    | some x, some y =>
      match f with
      | "forsort" => if isBool x || isBool y then ((), "bad-op") else ((), showOrd (cmpForSort x y))
      | "sortexec" => if isBool x || isBool y then ((), "bad-op") else ((), showOrd (cmpSortExec x y))
      | "owned" => ((), showOrd (cmpOwned x y))
      | _ => ((), "bad-op")
    | _, _ => ((), "bad-op")
  | _ => ((), "bad-op")

end Driver.SqlCmp
