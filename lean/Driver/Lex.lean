import TurVerif.Model.Lex
import Driver.Util
/-! line protocol for family `lex` (C13): see harness/src/engines/sql_params.rs -/
namespace Driver.Lex
open TurVerif.Lex

def msgCode (m : String) : String := m.map (fun c => if c = ' ' then '_' else c)

def showTok (total : Nat) (r : Lexed) : String :=
  let s := total - r.start.length
  let e := total - r.rest.length
  let body := match r.tok with
    | .eof => "eof"
    | .word b => "w:" ++ Driver.hexOrDash b
    | .int b => "i:" ++ Driver.hexOrDash b
    | .float b => "f:" ++ Driver.hexOrDash b
    | .hexnum b => "h:" ++ Driver.hexOrDash b
    | .binnum b => "b:" ++ Driver.hexOrDash b
    | .octnum b => "o:" ++ Driver.hexOrDash b
    | .str b => "s:" ++ Driver.hexOrDash b
    | .qident b => "q:" ++ Driver.hexOrDash b
    | .param .anon => "p:anon"
    | .param (.pos n) => s!"p:pos{n}"
    | .param (.named b) => "p:named" ++ Driver.hexOrDash b
    | .op n => "op:" ++ n
    | .error m => "err:" ++ msgCode m
  s!"{s}:{e}:{body}"

/-- token list with spans; iterative (inputs may hold 10^5 tokens) -/
partial def lexAll (total : Nat) (inp : List Nat) (acc : Array String) : Array String :=
  let r := nextToken inp
  if r.tok = Tok.eof then acc
  else if r.rest.length < inp.length then lexAll total r.rest (acc.push (showTok total r))
  else acc.push (showTok total r) |>.push "stuck"

def parsePVal (s : String) : Option PVal :=
  match s.splitOn ":" with
  | ["null"] => some .null
  | ["bool", "1"] => some (.bool true)
  | ["bool", "0"] => some (.bool false)
  | ["int", n] => (Driver.parseInt n).map PVal.int
  | ["text", h] => (Driver.bytesOfHex h).map PVal.text
  | ["blob", h] => (Driver.bytesOfHex h).map PVal.blob
  | ["nan"] => some .nan
  | ["inf"] => some (.inf true)
  | ["ninf"] => some (.inf false)
  | ["raw", h] => (Driver.bytesOfHex h).map PVal.raw
  | ["qraw", h] => (Driver.bytesOfHex h).map PVal.quotedRaw
  | ["uuid", h] => (Driver.bytesOfHex h).bind (fun b => if b.length = 16 then some (PVal.uuid b) else none)
  | ["jsonb", h] => (Driver.bytesOfHex h).map PVal.jsonb
  | _ => none

def parsePVals : List String → Option (List PVal)
  | [] => some []
  | s :: t => match parsePVal s, parsePVals t with
    | some v, some vs => some (v :: vs)
    | _, _ => none

def step (_ : Unit) : List String → Unit × String
  | ["lex", h] => match Driver.bytesOfHex h with
      | some bs => ((), " ".intercalate (lexAll bs.length bs #[]).toList)
      | none => ((), "bad-op")
  | ["lexspec", h] => match Driver.bytesOfHex h with   -- the `lex` function the theorems are about
      | some bs => ((), toString (lex bs).length)
      | none => ((), "bad-op")
  | ["lit", v] => match parsePVal v with
      | some pv => ((), Driver.hexOrDash (valueToLiteral pv))
      | none => ((), "bad-op")
  | "subst" :: h :: vs => match Driver.bytesOfHex h, parsePVals vs with
      | some bs, some pvs => match substitute bs pvs with
          | some out => ((), "ok " ++ Driver.hexOrDash out)
          | none => ((), "range")
      | _, _ => ((), "bad-op")
  | ["count", h] => match Driver.bytesOfHex h with
      | some bs => ((), toString (countParameters bs))
      | none => ((), "bad-op")
  | ["quote", h] => match Driver.bytesOfHex h with
      | some bs => ((), Driver.hexOrDash (quote bs))
      | none => ((), "bad-op")
  | ["unescape", h] => match Driver.bytesOfHex h with
      | some bs => ((), Driver.hexOrDash (unescape bs))
      | none => ((), "bad-op")
  | ["evalint", h] => match Driver.bytesOfHex h with
      | some bs => match evalIntTokens (lex bs) with
          | some i => ((), s!"ok {i}")
          | none => ((), "none")
      | none => ((), "bad-op")
  | _ => ((), "bad-op")

end Driver.Lex
