import TurVerif.Model.SqlAggImpl
import Driver.Util
/-! family `sqlagg`: `run <count|sum|avg|min|max> <cell>*` -> `ok <cell>` | `panic`.
Cells: `N`, `I<int>`, `F<num>/<den>`, anything starting with `T`/`B` = other. -/
namespace Driver.SqlAgg
open TurVerif.SqlAggImpl Driver

def cell? (s : String) : Option AV :=
  match s.toList with
  | ['N'] => some .null
  | 'I' :: rest => (parseInt (String.ofList rest)).map .int
  | 'F' :: rest =>
    match (String.ofList rest).splitOn "/" with
    | [n, d] => match parseInt n, d.toNat? with
      | some num, some den => if den = 0 then none else some (.flt ((num : Rat) / (den : Rat)))
      | _, _ => none
    | _ => none
  | 'T' :: _ => some .other
  | 'B' :: _ => some .other
  | _ => none

def cells? : List String → Option (List AV)
  | [] => some []
  | c :: cs => match cell? c, cells? cs with
    | some v, some vs => some (v :: vs)
    | _, _ => none

def fn? : String → Option Fn
  | "count" => some .count | "sum" => some .sum | "avg" => some .avg
  | "min" => some .min | "max" => some .max | _ => none

def showOut : Out → String
  | .null => "N"
  | .int i => s!"I{i}"
  | .flt q => s!"F{q.num}/{q.den}"

def step (_ : Unit) (ws : List String) : Unit × String :=
  match ws with
  | "run" :: f :: cs =>
    match fn? f, cells? cs with
    | some fn, some vs => match run fn vs with
      | some o => ((), s!"ok {showOut o}")
      | none => ((), "panic")
    | _, _ => ((), "bad-op")
  | _ => ((), "bad-op")

end Driver.SqlAgg
