import TurVerif.Model.SqlJoin
import Driver.Sql
/-! line protocol `sqljoin`: M-code hash / grace hash join vs the nested-loop spec.
  reset
  L (row)            append a left input row          R (row)   append a right input row
  hash N (v ...)     the code's hash of this key-value list (decimal u64); unknown keys hash to 0
  grace KIND N (lk ..) (rk ..) WL WR      -> rows in emission order
  stream KIND (lk ..) (rk ..) WL WR       -> rows in emission order
  nl KIND (lk ..) (rk ..) WL WR           -> nested-loop spec over keys_match (bag)
  sqljoin KIND (lk ..) (rk ..) WL WR      -> TurVerif.Sql.join with ON = conjunction of column equalities
-/
namespace Driver.SqlJoin
open TurVerif.Sql TurVerif.SqlJoin Driver Driver.Sql

structure St where
  l : List Row := []
  r : List Row := []
  tbl : List (List Val × Nat) := []

def hashOf (tbl : List (List Val × Nat)) (k : List Val) : Nat :=
  match tbl.find? (fun e => e.1 == k) with
  | some e => e.2
  | none => 0

def nats? : SX → Option (List Nat)
  | .list l => mapM? (fun x => match x with | .atom a => a.toNat? | _ => none) l
  | _ => none

def step (st : St) (ws : List String) : St × String :=
  match ws with
  | ["reset"] => ({}, "ok")
  | "L" :: rest => match sxOfLine rest with
    | some [sx] => match row? sx with
      | some r => ({ st with l := st.l ++ [r] }, "ok")
      | none => (st, "bad-op")
    | _ => (st, "bad-op")
  | "R" :: rest => match sxOfLine rest with
    | some [sx] => match row? sx with
      | some r => ({ st with r := st.r ++ [r] }, "ok")
      | none => (st, "bad-op")
    | _ => (st, "bad-op")
  | "hash" :: n :: rest => match n.toNat?, sxOfLine rest with
    | some hv, some [sx] => match row? sx with
      | some k => ({ st with tbl := (k, hv) :: st.tbl.filter (fun e => !(e.1 == k)) }, "ok")
      | none => (st, "bad-op")
    | _, _ => (st, "bad-op")
  | "grace" :: k :: n :: rest => match kind? k, n.toNat?, sxOfLine rest with
    | some kk, some nn, some [lk, rk, .atom wl, .atom wr] =>
      match nats? lk, nats? rk, wl.toNat?, wr.toNat? with
      | some a, some b, some x, some y =>
        if nn = 0 then (st, "bad-op") else
        (st, showRows (.ok (graceJoin nn id kk (hashOf st.tbl) a b x y st.l st.r)))
      | _, _, _, _ => (st, "bad-op")
    | _, _, _ => (st, "bad-op")
  | op :: k :: rest => match kind? k, sxOfLine rest with
    | some kk, some [lk, rk, .atom wl, .atom wr] =>
      match nats? lk, nats? rk, wl.toNat?, wr.toNat? with
      | some a, some b, some x, some y =>
        if op == "stream" then (st, showRows (.ok (hashJoin kk (hashOf st.tbl) a b x y st.l st.r)))
        else if op == "nl" then (st, showRows (.ok (nlJoinP kk (keysMatch a b) x y st.l st.r)))
        else if op == "sqljoin" then (st, showRows (join kk (eqOn x a b) x y st.l st.r))
        else (st, "bad-op")
      | _, _, _, _ => (st, "bad-op")
    | _, _ => (st, "bad-op")
  | _ => (st, "bad-op")

end Driver.SqlJoin
