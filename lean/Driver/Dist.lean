import TurVerif.Model.Dist
import Driver.Util
/-! Line protocol for the distance model (family `dist`).

Vectors are strings of 8-hex-digit IEEE-754 binary32 bit patterns (`-` = empty vector); they are
converted EXACTLY to `Rat` (dyadic rationals); infinities / NaNs are rejected with `bad-op`.

`l2  W A B`   → `NUM/DEN` exact squared L2 of the kernel with lane width W (0 = scalar loop,
                 8 = AVX2, 4 = NEON, 1000 = the definition) | `oob`
`dot W A B`   → same for the dot product
`cos W A B`   → `DOT NA NB KEY` (four `NUM/DEN`): the three accumulators and the ordering key
                 `cosSimSq` (0 when the zero-norm guard fires)
`knn M K Q V1 V2 …` → indices (0-based, space separated) of the K nearest rows to Q in the table
                 V1 V2 … by metric M ∈ {l2, cos} according to the specification `knn`
                 (K = `all` for no LIMIT)
-/
namespace Driver.Dist
open TurVerif.Dist

def pow2 : Nat → Nat
  | 0 => 1
  | k + 1 => 2 * pow2 k

/-- exact value of a binary32 bit pattern -/
def f32ToRat (bits : Nat) : Option Rat :=
  let s := bits / 2147483648
  let e := (bits / 8388608) % 256
  let m := bits % 8388608
  if e = 255 then none else
  let mag : Rat :=
    if e = 0 then mkRat (Int.ofNat m) (pow2 149)
    else if e ≥ 150 then ((Int.ofNat ((8388608 + m) * pow2 (e - 150)) : Int) : Rat)
    else mkRat (Int.ofNat (8388608 + m)) (pow2 (150 - e))
  some (if s = 1 then -mag else mag)

def hexWord : List Char → Option Nat
  | cs => cs.foldl (fun acc c => match acc, Driver.hexVal c with
      | some a, some v => some (a * 16 + v)
      | _, _ => none) (some 0)

partial def chunks8 (cs : List Char) (acc : List (List Char)) : Option (List (List Char)) :=
  if cs.isEmpty then some acc.reverse
  else if cs.length < 8 then none
  else chunks8 (cs.drop 8) (cs.take 8 :: acc)

def parseVec (s : String) : Option (List Rat) :=
  if s == "-" then some [] else
  match chunks8 s.toList [] with
  | none => none
  | some ws => ws.mapM (fun w => (hexWord w).bind f32ToRat)

def showRat (q : Rat) : String := s!"{q.num}/{q.den}"

def showRes : Option Rat → String
  | some q => showRat q
  | none => "oob"

def runSum (f : Rat → Rat → Rat) (w : Nat) (a b : List Rat) : Option (Option Rat) :=
  match w with
  | 0 => some (some (scalarLoop f a b 0))
  | 8 => some (kernel 8 hsum8 f a b)
  | 4 => some (kernel 4 hsum4 f a b)
  | 1000 => some (some (sumDef f a b))
  | _ => none

def cosLine (w : Nat) (a b : List Rat) : Option String :=
  match runSum prd w a b, runSum fstSq w a b, runSum sndSq w a b with
  | some (some d), some (some na), some (some nb) =>
    some s!"{showRat d} {showRat na} {showRat nb} {showRat (cosSimSqOf d na nb)}"
  | some _, some _, some _ => some "oob"
  | _, _, _ => none

def idxList (l : List Nat) : String := " ".intercalate (l.map toString)

def knnLine (metric kS : String) (q : List Rat) (rows : List (List Rat)) : Option String :=
  let k? : Option Nat := if kS == "all" then some rows.length else kS.toNat?
  let indexed := (List.range rows.length).zip rows
  match k?, metric with
  | some k, "l2" => some (idxList ((knn (fun p => l2sqDef p.2 q) indexed k).map (·.1)))
  | some k, "cos" => some (idxList ((knn (fun p => - cosSimSqDef p.2 q) indexed k).map (·.1)))
  | _, _ => none

def step (_ : Unit) : List String → Unit × String
  | [op, w, a, b] =>
    match w.toNat?, parseVec a, parseVec b with
    | some w, some a, some b =>
      match op with
      | "l2" => match runSum sqd w a b with
          | some r => ((), showRes r)
          | none => ((), "bad-op")
      | "dot" => match runSum prd w a b with
          | some r => ((), showRes r)
          | none => ((), "bad-op")
      | "cos" => match cosLine w a b with
          | some r => ((), r)
          | none => ((), "bad-op")
      | _ => ((), "bad-op")
    | _, _, _ => ((), "bad-op")
  | "knn" :: metric :: k :: q :: rows =>
    match parseVec q, rows.mapM parseVec with
    | some q, some rows =>
      match knnLine metric k q rows with
      | some r => ((), if r.isEmpty then "-" else r)
      | none => ((), "bad-op")
    | _, _ => ((), "bad-op")
  | _ => ((), "bad-op")

end Driver.Dist
