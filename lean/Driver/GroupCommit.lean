import TurVerif.Model.GroupCommit
import Driver.Util
namespace Driver.GroupCommit
open TurVerif.GroupCommit Driver

def pcName : Pc → String
  | .start => "start" | .waitLock => "wait_lock" | .condWait => "cond_wait" | .take => "take"
  | .write .. => "write" | .mark .. => "mark" | .clear .. => "clear"
  | .done true => "done_ok" | .done false => "done_err"

def showState (s : State) (tid : Nat) : String :=
  let pc := match s.threads[tid]? with | some t => pcName t.pc | none => "none"
  let log := if s.log.isEmpty then "-" else ",".intercalate (s.log.map toString)
  let pcs := ",".intercalate (s.threads.map (fun t => pcName t.pc))
  s!"pc {pc} pending {s.pending.length} flag {if s.flushInProgress then 1 else 0} log {log} pcs {pcs} acklogged {if ackImpliesLogged s then 1 else 0}"

def step (s : State) (ws : List String) : State × String :=
  match ws with
  | "init" :: fails => (init (fails.map (· == "1")), "ok")
  | ["step", t] => match t.toNat? with
    | some tid => match TurVerif.GroupCommit.step s tid with
      | some s' => (s', showState s' tid)
      | none => (s, "disabled " ++ showState s tid)
    | none => (s, "bad-op")
  | ["willblock", t] => match t.toNat? with
    | some tid => match TurVerif.GroupCommit.step s tid with
      | some s' => match s'.threads[tid]? with
        | some th => (s, if th.pc = .condWait then "1" else "0")
        | none => (s, "0")
      | none => (s, "disabled")
    | none => (s, "bad-op")
  | ["show"] => (s, showState s 0)
  | _ => (s, "bad-op")

end Driver.GroupCommit
