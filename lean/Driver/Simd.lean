import TurVerif.Model.Simd
import Driver.Util
/-!
Line protocol for the `simd` family (C30).
  leaf <n> <slot>*        slot = <pfx decimal>:<off decimal>:<key hex or ->   -> "ok <n>"
  probe <key hex or ->    -> "s=l,r,m o=l,r,hz a=l,r fs=<res> fo=<res> fa=<res> sp=<res>"
      s  = narrowScalar, o = narrowAvx2Old (+ hazard code), a = narrowAvx2 (fixed code)
      fs/fo/fa = find_key_simd with the respective narrowing, sp = spec;  <res> = F<i> | N<i>
  prefix <key hex>        -> prefixOf as decimal
-/
namespace Driver.Simd
open TurVerif.Simd

structure St where
  leaf : Leaf

def St.init : St := ⟨⟨0, fun _ => 0, fun _ => 0, fun _ => []⟩⟩

def parseSlot (s : String) : Option (Nat × Nat × List Nat) :=
  match s.splitOn ":" with
  | [p, o, k] =>
    match p.toNat?, o.toNat?, Driver.bytesOfHex k with
    | some p, some o, some k => some (p, o, k)
    | _, _, _ => none
  | _ => none

def parseSlots : List String → List (Nat × Nat × List Nat) → Option (List (Nat × Nat × List Nat))
  | [], acc => some acc.reverse
  | s :: rest, acc =>
    match parseSlot s with
    | some x => parseSlots rest (x :: acc)
    | none => none

def mkLeaf (n : Nat) (slots : Array (Nat × Nat × List Nat)) : Leaf :=
  { n := n
    pfx := fun i => match slots[i]? with | some x => x.1 | none => 0
    off := fun i => match slots[i]? with | some x => x.2.1 | none => 0
    key := fun i => match slots[i]? with | some x => x.2.2 | none => [] }

def showRes : SearchResult → String
  | .found i => s!"F{i}"
  | .notFound i => s!"N{i}"

/-- `find_key_simd` given the already computed narrowing result (so that the driver runs each
narrowing once); definitionally the model's `findScalar` / `findAvx2Old` / `findAvx2`. -/
def findVia (L : Leaf) (k : List Nat) (l r : Nat) : SearchResult :=
  if L.n = 0 then .notFound 0 else finish L k l r

example (L : Leaf) (k : List Nat) :
    findVia L k (narrowScalar L (prefixOf k)).1 (narrowScalar L (prefixOf k)).2.1 = findScalar L k := rfl
example (L : Leaf) (k : List Nat) :
    findVia L k (narrowAvx2Old L (prefixOf k)).1 (narrowAvx2Old L (prefixOf k)).2 = findAvx2Old L k := rfl
example (L : Leaf) (k : List Nat) :
    findVia L k (narrowAvx2 L (prefixOf k)).1 (narrowAvx2 L (prefixOf k)).2 = findAvx2 L k := rfl

def step (st : St) : List String → St × String
  | "leaf" :: n :: slots =>
    match n.toNat?, parseSlots slots [] with
    | some n, some sl =>
      if sl.length = n then (⟨mkLeaf n sl.toArray⟩, s!"ok {n}") else (st, "bad-op")
    | _, _ => (st, "bad-op")
  | ["probe", kh] =>
    match Driver.bytesOfHex kh with
    | some k =>
      let L := st.leaf
      let t := prefixOf k
      let s := narrowScalar L t
      let o := narrowAvx2Old L t
      let a := narrowAvx2 L t
      let hz := hazardOld L t
      (st, s!"s={s.1},{s.2.1},{s.2.2} o={o.1},{o.2},{hz} a={a.1},{a.2} " ++
           s!"fs={showRes (findVia L k s.1 s.2.1)} fo={showRes (findVia L k o.1 o.2)} " ++
           s!"fa={showRes (findVia L k a.1 a.2)} sp={showRes (spec L k)}")
    | none => (st, "bad-op")
  | ["prefix", kh] =>
    match Driver.bytesOfHex kh with
    | some k => (st, toString (prefixOf k))
    | none => (st, "bad-op")
  | _ => (st, "bad-op")

end Driver.Simd
