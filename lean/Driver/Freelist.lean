import TurVerif.Model.Freelist
import Driver.Util
/-
Line protocol, family `freelist` (state = variant × model state):
  new <npages> orig|fixed                    -> ok
  rel <p>                                    -> ok|err   <summary>
  alloc                                      -> page <p>|none|err|diverge   <summary>
  poke <p> <ptype> <next> <count> <k> <v>    -> ok       (client overwrites page p: header fields,
                                                           slots 0..k-1 = v, v+1, …, rest zero)
  chain                                      -> <n> then per trunk  t:ptype:next:count:checksum
  dump <p>                                   -> entries slot0..slot(count-1) of page p (count capped at 4090)
summary = head free_count ptype(head) next(head) count(head) top(head)
-/
namespace Driver.Freelist
open TurVerif.Freelist

structure DSt where
  fixed : Bool
  s : St

def init : DSt := ⟨false, St.init 1⟩

def summary (s : St) : String :=
  let pg := s.page s.head
  let top := if pg.count = 0 then 0 else pg.slot (pg.count - 1)
  s!"{s.head} {s.freeCount} {pg.ptype} {pg.next} {pg.count} {top}"

def checksum (l : List Nat) : Nat :=
  l.foldl (fun acc e => (acc * 31 + e + 7) % 4294967291) 17

def showRes : Res → String
  | .page p => s!"page {p}"
  | .none => "none"
  | .err => "err"
  | .diverge => "diverge"

def nats (ws : List String) : Option (List Nat) := ws.mapM String.toNat?

def step (d : DSt) (ws : List String) : DSt × String :=
  match ws with
  | ["new", n, v] =>
    match n.toNat?, v with
    | some np, "orig" => (⟨false, St.init np⟩, "ok")
    | some np, "fixed" => (⟨true, St.init np⟩, "ok")
    | _, _ => (d, "bad-op")
  | ["rel", p] =>
    match p.toNat? with
    | some p =>
      let (s', ok) := release d.s p
      ({ d with s := s' }, (if ok then "ok " else "err ") ++ summary s')
    | none => (d, "bad-op")
  | ["alloc"] =>
    let (s', r) := if d.fixed then allocateFixed d.s else allocate d.s
    ({ d with s := s' }, showRes r ++ " " ++ summary s')
  | "poke" :: rest =>
    match nats rest with
    | some [p, pt, nx, cnt, k, v] =>
      let pg : Page := ⟨pt, nx, cnt, (List.range k).map (· + v)⟩
      ({ d with s := clientWrite d.s p pg }, "ok")
    | _ => (d, "bad-op")
  | ["chain"] =>
    let ts := chainFrom d.s (d.s.npages + 1) d.s.head
    let items := ts.map fun t =>
      let pg := d.s.page t
      let c := min pg.count TRUNK_MAX
      s!"{t}:{pg.ptype}:{pg.next}:{pg.count}:{checksum (ents pg c)}"
    (d, String.intercalate " " (toString ts.length :: items))
  | ["dump", p] =>
    match p.toNat? with
    | some p =>
      let pg := d.s.page p
      let c := min pg.count TRUNK_MAX
      (d, String.intercalate " " ("e" :: (ents pg c).reverse.map toString))
    | none => (d, "bad-op")
  | _ => (d, "bad-op")

end Driver.Freelist
