import TurVerif.Model.CommitCover
import Driver.Util
namespace Driver.CommitCover
open TurVerif.CommitCover

/-- stateful: `reset`; `ops <op>*` with op = `w:<file>:<page>:<0|1>` | `d:<file>` | `x:<file>` ->
`drains g1|g2..` (pages logged by each drain op, in log order); `uncovered <file>.<page>*` -> those
of the listed pages whose current image is not in the log -/
def parseOp (t : String) : Option Op :=
  match t.splitOn ":" with
  | ["d", f] => f.toNat?.map .drain
  | ["x", f] => f.toNat?.map .clear
  | ["w", f, p, w] =>
    match f.toNat?, p.toNat? with
    | some f, some p => some (.write (f, p) (w == "1"))
    | _, _ => none
  | _ => none

def showPgs (l : List PageId) : String :=
  if l.isEmpty then "-" else ",".intercalate (l.map (fun (f, p) => s!"{f}.{p}"))

def go (s : St) (acc : List String) : List Op → St × List String
  | [] => (s, acc)
  | .drain f :: rest => go (TurVerif.CommitCover.step s (.drain f)) (acc ++ [showPgs (drained s f)]) rest
  | op :: rest => go (TurVerif.CommitCover.step s op) acc rest

def parsePg (t : String) : Option PageId :=
  match t.splitOn "." with
  | [f, p] => match f.toNat?, p.toNat? with
    | some f, some p => some (f, p)
    | _, _ => none
  | _ => none

def step (s : St) (ws : List String) : St × String :=
  match ws with
  | ["reset"] => ({}, "ok")
  | "ops" :: toks =>
    match toks.mapM parseOp with
    | none => (s, "bad-op")
    | some ops =>
      let (s', groups) := go s [] ops
      (s', s!"drains {if groups.isEmpty then "-" else "|".intercalate groups} pending {showPgs s'.dirty}")
  | "uncovered" :: toks =>
    match toks.mapM parsePg with
    | none => (s, "bad-op")
    | some pgs => (s, s!"uncovered {showPgs (pgs.filter (fun pg => !covered s pg))}")
  | _ => (s, "bad-op")

end Driver.CommitCover
