import TurVerif.Model.Lexer
import TurVerif.Model.ArithImpl
import TurVerif.Model.Like
import Driver.Util
/-! family `robust`:
  `lex <hex>`            -> `ok <tok> <tok> ...` | `fault <oob|slice|underflow|depth>`
                            tok = kind:start:stop:a:b
  `frames <hex>`         -> max number of nested next_token frames over all tokens
  `arith <op> <a> <b>`   -> `int v` | `float` | `null` | `panic <msg with _>`
  `neg <a>`
  `like <hex t> <hex p>` -> `true` | `false` | `fuel`
-/
namespace Driver.Robust
open TurVerif

def us (s : String) : String := s.map (fun c => if c = ' ' then '_' else c)

def kindStr : Lexer.Kind → String
  | .eof => "Eof" | .word => "Word" | .integer => "Integer" | .float => "Float"
  | .hexNumber => "HexNumber" | .binaryNumber => "BinaryNumber" | .octalNumber => "OctalNumber"
  | .string => "String" | .quotedIdent => "QuotedIdent"
  | .paramPos n => s!"ParamPos({n})" | .paramNamed => "ParamNamed" | .paramAnon => "ParamAnon"
  | .sym n => n
  | .error m => "Error(" ++ us m ++ ")"

def tokStr (t : Lexer.Tok) : String :=
  s!"{kindStr t.kind}:{t.start}:{t.stop}:{t.a}:{t.b}"

def faultStr : Lexer.Fault → String
  | .oob => "oob" | .slice => "slice" | .underflow => "underflow" | .depth => "depth"

def maxFrames (bs : Lexer.Bytes) : List Lexer.Tok → Nat → Nat → Nat
  | [], _, m => m
  | t :: ts, pos, m => maxFrames bs ts t.stop (max m (Lexer.framesAt bs (bs.size + 1) pos))

def outStr : ArithImpl.Out → String
  | .int v => s!"int {v}" | .float => "float" | .null => "null" | .panic m => "panic " ++ us m

def opOf : String → Option ArithImpl.Op
  | "add" => some .add | "sub" => some .sub | "mul" => some .mul
  | "div" => some .div | "mod" => some .mod | "pow" => some .pow
  | _ => none

def step (_ : Unit) : List String → Unit × String
  | ["lex", h] => match Driver.bytesOfHex h with
      | some bs => match Lexer.tokenizeAll bs.toArray with
          | .ok ts => ((), "ok " ++ " ".intercalate (ts.map tokStr))
          | .error f => ((), "fault " ++ faultStr f)
      | none => ((), "bad-op")
  | ["frames", h] => match Driver.bytesOfHex h with
      | some bs => match Lexer.tokenizeAll bs.toArray with
          | .ok ts => ((), toString (maxFrames bs.toArray ts 0 0))
          | .error f => ((), "fault " ++ faultStr f)
      | none => ((), "bad-op")
  | ["arith", o, a, b] => match opOf o, Driver.parseInt a, Driver.parseInt b with
      | some op, some x, some y => ((), outStr (ArithImpl.binImpl op x y))
      | _, _, _ => ((), "bad-op")
  | ["neg", a] => match Driver.parseInt a with
      | some x => ((), outStr (ArithImpl.negImpl x))
      | none => ((), "bad-op")
  | ["like", t, p] => match Driver.bytesOfHex t, Driver.bytesOfHex p with
      | some tb, some pb => match Like.likeImpl tb pb with
          | some true => ((), "true") | some false => ((), "false") | none => ((), "fuel")
      | _, _ => ((), "bad-op")
  | _ => ((), "bad-op")

end Driver.Robust
