import TurVerif.Model.Hnsw
import Driver.Util
/-! Line protocol for the HNSW model (family `hnsw`, stateful).

Distances are supplied per request as `ROW:D,ROW:D,…` (`-` = empty): the distance from the
query / new vector to the vector the callback returns for that row id, as a non-negative integer
(in units of 1/16: the harness only uses quarter-grid vectors, whose squared distances are exact
in f32); a row that is not listed has distance ∞ (callback returned `None`).

`new M M0 EFC`           → `ok`            fresh index
`ins ROW LEVEL DISTS`    → `ok N` | `err entry` | `err nb`
`del ROW`                → `ok` | `norow` | `err`
`vac MAX`                → `N`
`sync` / `reopen`        → `ok`
`search K EF DISTS`      → `NODE:ROW:DIST …` (`-` = no result; DIST integer or `inf`)
`dump`                   → `E=… ML=… NC=… Q=… | node | node …`,
                            node = `D` (deleted slot) or `A<row>,<level>,<l0 nbrs ;>/<l1 nbrs>/…`
-/
namespace Driver.Hnsw
open TurVerif.Hnsw

def parseDists (s : String) : Option (List (Nat × Nat)) :=
  if s == "-" then some [] else
  (s.splitOn ",").mapM fun item =>
    match item.splitOn ":" with
    | [r, d] => match r.toNat?, d.toNat? with
      | some r, some d => some (r, d)
      | _, _ => none
    | _ => none

def mkVd (t : List (Nat × Nat)) (row : Nat) : D :=
  match t.find? (fun p => p.1 == row) with
  | some (_, d) => .fin ((Int.ofNat d : Int) : Rat)
  | none => .inf

def showD : D → String
  | .fin q => toString q.num
  | .inf => "inf"

def showNode (nd : Node) : String :=
  if nd.deleted then "D"
  else
    let lv := nd.nbrs.map fun l => ";".intercalate (l.map toString)
    s!"A{nd.rowId},{nd.level},{"/".intercalate lv}"

def showEntry : Entry → String
  | .unset => "unset"
  | .at n => if n = noneId then "none" else toString n

def dump (s : Index) : String :=
  let hd := s!"E={showEntry s.entry} ML={s.maxLevel} NC={s.nodeCount} Q={s.queue.length}"
  " | ".intercalate (hd :: s.nodes.map showNode)

def step (s : Index) : List String → Index × String
  | ["new", m, m0, efc] =>
    match m.toNat?, m0.toNat?, efc.toNat? with
    | some m, some m0, some efc => ({ m := m, m0 := m0, efC := efc }, "ok")
    | _, _, _ => (s, "bad-op")
  | ["ins", row, level, dists] =>
    match row.toNat?, level.toNat?, parseDists dists with
    | some row, some level, some t =>
      let r := s.insert row level (mkVd t)
      (r.1, match r.2 with
        | .ok n => s!"ok {n}"
        | .errEntry => "err entry"
        | .errNeighbor => "err nb")
    | _, _, _ => (s, "bad-op")
  | ["del", row] =>
    match row.toNat? with
    | some row =>
      let r := s.delete row
      (r.1, match r.2 with
        | .ok => "ok"
        | .noSuchRow => "norow"
        | .errNotActive => "err")
    | none => (s, "bad-op")
  | ["vac", n] =>
    match n.toNat? with
    | some n => let r := s.vacuum n; (r.1, toString r.2)
    | none => (s, "bad-op")
  | ["sync"] => (s.sync, "ok")
  | ["reopen"] => (s.reopen, "ok")
  | ["search", k, ef, dists] =>
    match k.toNat?, ef.toNat?, parseDists dists with
    | some k, some ef, some t =>
      let hits := s.search k ef (mkVd t)
      let out := " ".intercalate (hits.map fun h => s!"{h.node}:{h.rowId}:{showD h.dist}")
      (s, if out.isEmpty then "-" else out)
    | _, _, _ => (s, "bad-op")
  | ["dump"] => (s, dump s)
  | _ => (s, "bad-op")

end Driver.Hnsw
