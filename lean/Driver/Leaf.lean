import TurVerif.Model.Leaf
import Driver.Util
/-!
Line protocol for the `leaf` family (C28/C29, leaf-page level).  State: page id ↦ model leaf.

bytes  = `-` | part(+part)*      part = lowercase hex | `*<n>:<hh>` (n copies of byte hh)
  init <p>                                   LeafNodeMut::init
  load <p> <fs> <fe> <frag> <next> <cell>*   cell = <pre hex>:<off>:<key bytes>:<val bytes>
  drop <p>
  ins <p> <key> <val>          insert_cell            insat <p> <key> <val> <pos>   insert_cell_at
  insend <p> <key> <val>       insert_at_end          del <p> <i>                   delete_cell
  upd <p> <i> <val>            update_cell_value_in_place
  shr <p> <i> <val>            update_cell_value_shrink
  compact <p>                  compact                setnext <p> <n>
  find <p> <key>               find_key  -> F<i> | N<i>
  tdel <p> <key>               BTree::delete on the reached leaf   -> <res> <summary>
  tupd <p> <key> <val>         BTree::update on the reached leaf   -> <res> <summary>   (tupd2: after fix_update_grow.patch)
  tins <p> <key> <val>         insert_into_leaf without split      -> split | ok <summary> | err <e>
  fast <p> <key> <val>         try_fastpath_insert                 -> slow | ok <summary>   (fast2: after fix_fastpath_empty_leaf.patch)
  sum <p>                      -> <summary>           chk <p>  -> content hash
  dump <p>                     -> full state
Mutating ops answer `ok <summary>` or `err <kind>` (state unchanged on err unless stated).
summary = `<n> <freeStart> <freeEnd> <frag> <next> <shouldCompact 0|1> <hash of (off,klen,vlen)*>`
-/
namespace Driver.Leaf
open TurVerif.Leaf
open TurVerif.Simd (SearchResult)

abbrev St := List (Nat × Leaf)

def parsePart (s : String) : Option (List Nat) :=
  if s.startsWith "*" then
    match ((s.drop 1).toString).splitOn ":" with
    | [n, h] =>
      match n.toNat?, Driver.bytesOfHex h with
      | some n, some [b] => some (List.replicate n b)
      | _, _ => none
    | _ => none
  else Driver.bytesOfHex s

def parseParts : List String → List Nat → Option (List Nat)
  | [], acc => some acc
  | p :: ps, acc =>
    match parsePart p with
    | some bs => parseParts ps (acc ++ bs)
    | none => none

def parseBytes (s : String) : Option (List Nat) :=
  if s == "-" then some [] else parseParts (s.splitOn "+") []

def get (st : St) (p : Nat) : Option Leaf := (st.find? (·.1 == p)).map (·.2)
def put (st : St) (p : Nat) (l : Leaf) : St := (p, l) :: st.filter (·.1 != p)

def mix (h x : Nat) : Nat := (h * 1000003 + x + 1) % 2147483629

def shapeHash (l : Leaf) : Nat :=
  l.cells.foldl (fun h c => mix (mix (mix h c.off) c.key.length) c.val.length) 7

def contentHash (l : Leaf) : Nat :=
  l.cells.foldl (fun h c => (c.val.foldl mix (mix (c.key.foldl mix (mix (c.pre.foldl mix h) 300)) 301))) 11

def summary (l : Leaf) : String :=
  s!"{l.cells.length} {l.freeStart} {l.freeEnd} {l.frag} {l.next} {if shouldCompact l then 1 else 0} {shapeHash l}"

def showErr : Err → String
  | .noSpace => "nospace" | .keyExists => "exists" | .oob => "oob" | .mismatch => "mismatch"
  | .notShrinking => "notshrinking" | .badPos => "badpos"

def showRes : SearchResult → String
  | .found i => s!"F{i}"
  | .notFound i => s!"N{i}"

def parseCell (s : String) : Option Cell :=
  match s.splitOn ":" with
  | [pre, off, k, v] =>
    match Driver.bytesOfHex pre, off.toNat?, parseBytes k, parseBytes v with
    | some pre, some off, some k, some v => some ⟨pre, off, k, v⟩
    | _, _, _, _ => none
  | _ => none

def parseCells : List String → List Cell → Option (List Cell)
  | [], acc => some acc.reverse
  | s :: rest, acc =>
    match parseCell s with
    | some c => parseCells rest (c :: acc)
    | none => none

def showCell (c : Cell) : String :=
  s!"{Driver.hexOrDash c.pre}:{c.off}:{Driver.hexOrDash c.key}:{Driver.hexOrDash c.val}"

def dump (l : Leaf) : String :=
  s!"{l.freeStart} {l.freeEnd} {l.frag} {l.next}" ++ l.cells.foldl (fun s c => s ++ " " ++ showCell c) ""

def fin (st : St) (p : Nat) : Except Err Leaf → St × String
  | .ok l => (put st p l, "ok " ++ summary l)
  | .error e => (st, "err " ++ showErr e)

def showOut (st : St) (p : Nat) (o : Out) : St × String :=
  let r := match o.res with
    | .ok true => "true" | .ok false => "false" | .error e => "err-" ++ showErr e
  (put st p o.leaf, r ++ " " ++ summary o.leaf)

def step (st : St) : List String → St × String
  | ["init", p] =>
    match p.toNat? with
    | some p => (put st p init, "ok " ++ summary init)
    | none => (st, "bad-op")
  | "load" :: p :: fs :: fe :: fr :: nx :: cells =>
    match p.toNat?, fs.toNat?, fe.toNat?, fr.toNat?, nx.toNat?, parseCells cells [] with
    | some p, some fs, some fe, some fr, some nx, some cs =>
      let l : Leaf := ⟨cs, fs, fe, fr, nx⟩
      (put st p l, "ok " ++ summary l)
    | _, _, _, _, _, _ => (st, "bad-op")
  | ["drop", p] =>
    match p.toNat? with
    | some p => (st.filter (·.1 != p), "ok")
    | none => (st, "bad-op")
  | [op, p, a] =>
    match p.toNat? with
    | none => (st, "bad-op")
    | some p =>
    match get st p with
    | none => (st, "bad-op")
    | some l =>
      if op == "del" then
        match a.toNat? with
        | some i => fin st p (deleteCell l i)
        | none => (st, "bad-op")
      else if op == "setnext" then
        match a.toNat? with
        | some n => fin st p (.ok (setNext l n))
        | none => (st, "bad-op")
      else if op == "find" then
        match parseBytes a with
        | some k => (st, showRes (findKey l k))
        | none => (st, "bad-op")
      else if op == "tdel" then
        match parseBytes a with
        | some k => showOut st p (delete l k)
        | none => (st, "bad-op")
      else (st, "bad-op")
  | [op, p] =>
    match p.toNat? with
    | none => (st, "bad-op")
    | some p =>
    match get st p with
    | none => (st, "bad-op")
    | some l =>
      if op == "compact" then fin st p (.ok (compact l))
      else if op == "sum" then (st, summary l)
      else if op == "chk" then (st, toString (contentHash l))
      else if op == "dump" then (st, dump l)
      else (st, "bad-op")
  | [op, p, a, b] =>
    match p.toNat? with
    | none => (st, "bad-op")
    | some p =>
    match get st p with
    | none => (st, "bad-op")
    | some l =>
      if op == "ins" then
        match parseBytes a, parseBytes b with
        | some k, some v => fin st p (insertCell l k v)
        | _, _ => (st, "bad-op")
      else if op == "insend" then
        match parseBytes a, parseBytes b with
        | some k, some v => fin st p (insertAtEnd l k v)
        | _, _ => (st, "bad-op")
      else if op == "upd" then
        match a.toNat?, parseBytes b with
        | some i, some v => fin st p (updateInPlace l i v)
        | _, _ => (st, "bad-op")
      else if op == "shr" then
        match a.toNat?, parseBytes b with
        | some i, some v => fin st p (updateShrink l i v)
        | _, _ => (st, "bad-op")
      else if op == "tupd" then
        match parseBytes a, parseBytes b with
        | some k, some v => showOut st p (update l k v)
        | _, _ => (st, "bad-op")
      else if op == "tupd2" then
        match parseBytes a, parseBytes b with
        | some k, some v => showOut st p (updateFixed l k v)
        | _, _ => (st, "bad-op")
      else if op == "tins" then
        match parseBytes a, parseBytes b with
        | some k, some v =>
          match insertNoSplit l k v with
          | none => (st, "split")
          | some r => fin st p r
        | _, _ => (st, "bad-op")
      else if op == "fast" || op == "fast2" then
        match parseBytes a, parseBytes b with
        | some k, some v =>
          match fastpathInsertG (op == "fast2") l k v with
          | none => (st, "slow")
          | some l' => (put st p l', "ok " ++ summary l')
        | _, _ => (st, "bad-op")
      else (st, "bad-op")
  | [op, p, a, b, c] =>
    match p.toNat? with
    | none => (st, "bad-op")
    | some p =>
    match get st p with
    | none => (st, "bad-op")
    | some l =>
      if op == "insat" then
        match parseBytes a, parseBytes b, c.toNat? with
        | some k, some v, some pos => fin st p (insertCellAt l k v pos)
        | _, _, _ => (st, "bad-op")
      else (st, "bad-op")
  | _ => (st, "bad-op")

end Driver.Leaf
