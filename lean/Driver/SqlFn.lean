import TurVerif.Model.SqlFn
import Driver.Util
import Driver.SExpr
import Driver.Sql
/- Line protocol, family `sqlfn`:  `fn <name> (<val> ...)`  ->  `ok <cell>` | `err <class>`;
   `instr_impl <hay hex> <needle hex>` -> M-code of the pinned eval_instr;
   `bytes <hex>` -> `<charLen> <byteLen>` (sanity of the UTF-8 helper).  Values and cells use the
   syntax of family `sql` (Driver.Sql.val? / showVal). -/
namespace Driver.SqlFn
open TurVerif.Sql TurVerif.SqlFn Driver

def fn? : String → Option Fn
  | "char_length" => some .charLength | "length" => some .length | "upper" => some .upper
  | "lower" => some .lower | "substr" => some .substr | "left" => some .left | "right" => some .right
  | "locate" => some .locate | "instr" => some .instr | "reverse" => some .reverse
  | "lpad" => some .lpad | "rpad" => some .rpad | "trim" => some .trim | "ltrim" => some .ltrim
  | "rtrim" => some .rtrim | "replace" => some .replace | "concat" => some .concat
  | "concat_ws" => some .concatWs | "repeat" => some .repeat_ | "ascii" => some .ascii
  | "abs" => some .abs | "sign" => some .sign | "mod" => some .mod | "power" => some .power
  | "round" => some .round | "floor" => some .floor | "ceil" => some .ceil
  | "truncate" => some .truncate | "greatest" => some .greatest | "least" => some .least
  | "coalesce" => some .coalesce | "nullif" => some .nullif | "ifnull" => some .ifnull
  | "if" => some .iff | "cast_int" => some .castInt | "cast_text" => some .castText
  | "cast_bool" => some .castBool | "cast_float" => some .castFloat
  | "add" => some .add | "sub" => some .sub | "mul" => some .mul | "div" => some .div
  | "rem" => some .rem | "neg" => some .neg | "concat_op" => some .concatOp
  | _ => none

def step (_ : Unit) (ws : List String) : Unit × String :=
  match ws with
  | "fn" :: name :: rest =>
    match fn? name, sxOfLine rest with
    | some f, some [.list l] =>
      match Driver.Sql.mapM? Driver.Sql.val? l with
      | some args => ((), match apply f args with
          | .ok v => s!"ok {Driver.Sql.showVal v}"
          | .error e => s!"err {Driver.Sql.showErr e}")
      | none => ((), "bad-op")
    | _, _ => ((), "bad-op")
  | ["instr_impl", hh, nh] =>
    match Driver.Sql.strOfHex hh, Driver.Sql.strOfHex nh with
    | some h, some n => ((), s!"ok I{instrImpl h.toList n.toList}")
    | _, _ => ((), "bad-op")
  | ["bytes", h] =>
    match Driver.Sql.strOfHex h with
    | some s => ((), s!"{charLen s.toList} {byteLen s.toList}")
    | none => ((), "bad-op")
  | _ => ((), "bad-op")

end Driver.SqlFn
