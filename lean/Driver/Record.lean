import TurVerif.Model.Record
import Driver.RowSerde
/-!
Line protocol for the `record` family.
  schema   = comma separated column kinds: f<n> (fixed, n bytes) | v (variable); `-` = no columns
  build <schema> <op>*   ops applied to RecordBuilder::new(schema), then build():
        n<i> = set_null(i) | s<i>:<hex> = setter writing these bytes to column i | r = reset()
        -> ok <hex> | overflow
  view <schema> <hex>    -> one token per column: N | <hex> | oob      (`-` = empty value); direct getters
  viewopt <schema> <hex> -> same through the `_opt` getters (is_null_or_missing / record_column_count first)
-/
namespace Driver.Record
open TurVerif.Record

def parseKind (t : String) : Option ColKind :=
  if t == "v" then some .var
  else if t.startsWith "f" then (t.drop 1).toString.toNat?.map .fixed
  else none

def parseSchema (t : String) : Option (List ColKind) :=
  if t == "-" then some [] else (t.splitOn ",").mapM parseKind

def applyOp (s : List ColKind) (st : List Cell) (t : String) : Option (List Cell) :=
  if t == "r" then some (reset s st)
  else if t.startsWith "n" then (t.drop 1).toString.toNat?.map (setNull st)
  else if t.startsWith "s" then
    match (t.drop 1).toString.splitOn ":" with
    | [i, h] => match i.toNat?, Driver.RowSerde.bytesOfHex h with
      | some i, some bs => some (setBytes s st i bs)
      | _, _ => none
    | _ => none
  else none

def applyOps (s : List ColKind) : List String → List Cell → Option (List Cell)
  | [], st => some st
  | t :: ts, st => match applyOp s st t with
    | some st' => applyOps s ts st'
    | none => none

def showGet : Get → String
  | .null => "N"
  | .val bs => Driver.hexOrDash bs
  | .oob => "oob"

def step (_ : Unit) : List String → Unit × String
  | "build" :: sch :: ops =>
    match parseSchema sch with
    | some s => match applyOps s ops (new s) with
      | some st => match build s st with
        | .ok bs => ((), "ok " ++ Driver.hexOrDash bs)
        | .overflow => ((), "overflow")
      | none => ((), "bad-op")
    | none => ((), "bad-op")
  | ["view", sch, h] =>
    match parseSchema sch, Driver.RowSerde.bytesOfHex h with
    | some s, some data =>
      ((), if s.isEmpty then "()" else " ".intercalate ((List.range s.length).map fun i => showGet (get s data i)))
    | _, _ => ((), "bad-op")
  | ["viewopt", sch, h] =>
    match parseSchema sch, Driver.RowSerde.bytesOfHex h with
    | some s, some data =>
      ((), if s.isEmpty then "()" else " ".intercalate ((List.range s.length).map fun i => showGet (getOpt s data i)))
    | _, _ => ((), "bad-op")
  | _ => ((), "bad-op")

end Driver.Record
