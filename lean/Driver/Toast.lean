import TurVerif.Model.Toast
import Driver.Util
/-! line protocol for family `toast` (C11): see harness/src/engines/sql_values.rs -/
namespace Driver.Toast
open TurVerif.Toast

def showVal : Option Val → String
  | none => "err"
  | some (.text b) => "T " ++ Driver.hexOrDash b
  | some (.blob b) => "X " ++ Driver.hexOrDash b

def step (_ : Unit) : List String → Unit × String
  | ["needs", n] => match n.toNat? with
      | some v => ((), if needsToast (List.replicate v 0) then "1" else "0")
      | none => ((), "bad-op")
  | ["count", n] => match n.toNat? with
      | some v => ((), toString (chunkCount v))
      | none => ((), "bad-op")
  | ["chunklens", n] => match n.toNat? with
      | some v => ((), " ".intercalate ("n" :: ((chunks TOAST_CHUNK_SIZE (List.replicate v 0)).map (fun c => toString c.length))))
      | none => ((), "bad-op")
  | ["ptr", r, c, sz] => match r.toNat?, c.toNat?, sz.toNat? with
      | some r, some c, some sz => ((), Driver.hexOfBytes (Pointer.encode ⟨sz, chunkId r c⟩))
      | _, _, _ => ((), "bad-op")
  | ["decode", h] => match Driver.bytesOfHex h with
      | some bs => match Pointer.decode bs with
          | some p => ((), s!"ok {p.totalSize} {p.chunkId}")
          | none => ((), "err")
      | none => ((), "bad-op")
  | ["isptr", h] => match Driver.bytesOfHex h with
      | some bs => ((), if isToastPointer bs then "1" else "0")
      | none => ((), "bad-op")
  | ["key", c, s] => match c.toNat?, s.toNat? with
      | some c, some s => ((), Driver.hexOfBytes (chunkKey c s))
      | _, _ => ((), "bad-op")
  | ["utf8", h] => match Driver.bytesOfHex h with
      | some bs => ((), if validUtf8 bs then "1" else "0")
      | none => ((), "bad-op")
  | ["toast", r, c, h] => match r.toNat?, c.toNat?, Driver.bytesOfHex h with
      | some r, some c, some bs =>
        match toastValue [] r c bs with
        | none => ((), "dup")
        | some (p, st) =>
          let keys := st.reverse.map (fun e => Driver.hexOfBytes (chunkKey e.1.1 e.1.2) ++ "=" ++ toString e.2.length)
          let back := match detoastValue st p.encode with
            | some d => if d = bs then "same" else "differs"
            | none => "err"
          ((), " ".intercalate (Driver.hexOfBytes p.encode :: back :: keys))
      | _, _, _ => ((), "bad-op")
  | ["rt", ty, kind, h] =>
      let ty? := if ty = "text" then some ColTy.text else if ty = "blob" then some ColTy.blob else none
      match ty?, Driver.bytesOfHex h with
      | some ty, some bs =>
        let v? := if kind = "T" then some (Val.text bs) else if kind = "X" then some (Val.blob bs) else none
        match v? with
        | some v => ((), showVal (roundTrip 1 1 ty v))
        | none => ((), "bad-op")
      | _, _ => ((), "bad-op")
  | _ => ((), "bad-op")

end Driver.Toast
