import TurVerif.Model.SubSpill
import Driver.RowSerde
/-!
Line protocol for the `subspill` family (MaterializedRow format of src/sql/subquery/spill.rs).
tokens: those of Driver/RowSerde.lean plus  b:<2> (Bool)  d:<8> (Date)  t:<16> (Time)  s:<16> (Timestamp)
requests:
  ser <tok>*                      -> <hex of MaterializedRow::serialize>
  rtn <tok>* ; <tok>* ; ...       -> ok <remaining bytes> <rows>  | err     (write all rows, read them back in sequence)
  de <hex>                        -> ok <remaining bytes> <tok>*  | err
-/
namespace Driver.SubSpill
open TurVerif.SubSpill
open TurVerif.RowSerde (beBytes beVal)
open Driver.RowSerde (fixedHex fixed bytesN groups4)

def tok : OV → String
  | .null => "N"
  | .bool b => if b then "b:01" else "b:00"
  | .int i => "I:" ++ fixedHex 8 i
  | .float f => "F:" ++ fixedHex 8 f
  | .text s => "T:" ++ Driver.hexOrDash s
  | .blob s => "B:" ++ Driver.hexOrDash s
  | .vector v => "V:" ++ Driver.hexOrDash (v.flatMap (beBytes 4))
  | .date d => "d:" ++ fixedHex 4 d
  | .time t => "t:" ++ fixedHex 8 t
  | .timestamp t => "s:" ++ fixedHex 8 t
  | .uuid b => "U:" ++ Driver.hexOrDash b
  | .macaddr b => "M:" ++ Driver.hexOrDash b
  | .inet4 b => "4:" ++ Driver.hexOrDash b
  | .inet6 b => "6:" ++ Driver.hexOrDash b
  | .jsonb s => "J:" ++ Driver.hexOrDash s
  | .timestamptz m o => "Z:" ++ fixedHex 8 m ++ "," ++ fixedHex 4 o
  | .interval m d mo => "L:" ++ fixedHex 8 m ++ "," ++ fixedHex 4 d ++ "," ++ fixedHex 4 mo
  | .point x y => "P:" ++ fixedHex 8 x ++ "," ++ fixedHex 8 y
  | .box a b c d => "G:" ++ fixedHex 8 a ++ "," ++ fixedHex 8 b ++ "," ++ fixedHex 8 c ++ "," ++ fixedHex 8 d
  | .circle a b r => "C:" ++ fixedHex 8 a ++ "," ++ fixedHex 8 b ++ "," ++ fixedHex 8 r
  | .enum t o => "E:" ++ fixedHex 2 t ++ "," ++ fixedHex 2 o
  | .decimal d s => "D:" ++ fixedHex 16 d ++ "," ++ fixedHex 2 s
  | .toast s => "O:" ++ Driver.hexOrDash s

def parseTok (t : String) : Option OV :=
  if t == "N" then some .null else
  match t.splitOn ":" with
  | [k, body] =>
    let fs := body.splitOn ","
    match k, fs with
    | "b", [a] => (fixed 1 a).map fun x => .bool (x != 0)
    | "d", [a] => (fixed 4 a).map .date
    | "t", [a] => (fixed 8 a).map .time
    | "s", [a] => (fixed 8 a).map .timestamp
    | "I", [a] => (fixed 8 a).map .int
    | "F", [a] => (fixed 8 a).map .float
    | "T", [a] => (Driver.RowSerde.bytesOfHex a).map .text
    | "B", [a] => (Driver.RowSerde.bytesOfHex a).map .blob
    | "V", [a] => match Driver.RowSerde.bytesOfHex a with
        | some bs => (groups4 bs.length bs []).map .vector
        | none => none
    | "U", [a] => (bytesN 16 a).map .uuid
    | "M", [a] => (bytesN 6 a).map .macaddr
    | "4", [a] => (bytesN 4 a).map .inet4
    | "6", [a] => (bytesN 16 a).map .inet6
    | "J", [a] => (Driver.RowSerde.bytesOfHex a).map .jsonb
    | "O", [a] => (Driver.RowSerde.bytesOfHex a).map .toast
    | "Z", [a, b] => match fixed 8 a, fixed 4 b with
        | some x, some y => some (.timestamptz x y)
        | _, _ => none
    | "L", [a, b, c] => match fixed 8 a, fixed 4 b, fixed 4 c with
        | some x, some y, some z => some (.interval x y z)
        | _, _, _ => none
    | "P", [a, b] => match fixed 8 a, fixed 8 b with
        | some x, some y => some (.point x y)
        | _, _ => none
    | "G", [a, b, c, d] => match fixed 8 a, fixed 8 b, fixed 8 c, fixed 8 d with
        | some x, some y, some z, some w => some (.box x y z w)
        | _, _, _, _ => none
    | "C", [a, b, c] => match fixed 8 a, fixed 8 b, fixed 8 c with
        | some x, some y, some z => some (.circle x y z)
        | _, _, _ => none
    | "E", [a, b] => match fixed 2 a, fixed 2 b with
        | some x, some y => some (.enum x y)
        | _, _ => none
    | "D", [a, b] => match fixed 16 a, fixed 2 b with
        | some x, some y => some (.decimal x y)
        | _, _ => none
    | _, _ => none
  | _ => none

def parseRow : List String → List OV → Option (List OV)
  | [], acc => some acc.reverse
  | t :: ts, acc =>
    if t == "()" then parseRow ts acc else
    match parseTok t with
    | some v => parseRow ts (v :: acc)
    | none => none

def showRow (r : List OV) : String := if r.isEmpty then "()" else " ".intercalate (r.map tok)

def step (_ : Unit) : List String → Unit × String
  | "ser" :: toks =>
    match parseRow toks [] with
    | some row => ((), Driver.hexOrDash (serializeRow row))
    | none => ((), "bad-op")
  | "rtn" :: toks =>
    match (Driver.RowSerde.splitRows toks).mapM (fun r => parseRow r []) with
    | some rows =>
      match deserializeRows rows.length (serializeRows rows) [] with
      | .ok rs rest => ((), s!"ok {rest.length} " ++ " ; ".intercalate (rs.map showRow))
      | .err _ => ((), "err")
    | none => ((), "bad-op")
  | ["de", h] =>
    match Driver.RowSerde.bytesOfHex h with
    | some bs =>
      match deserializeRow bs with
      | .ok r rest => ((), s!"ok {rest.length} " ++ showRow r)
      | .err _ => ((), "err")
    | none => ((), "bad-op")
  | _ => ((), "bad-op")

end Driver.SubSpill
