import TurVerif.Model.RecordView
import TurVerif.Model.PageHdr
import TurVerif.Model.FileHdr
import TurVerif.Model.ArrayView
import TurVerif.Model.CatalogDec
import Driver.Util
/-!
Line protocol of the C23 decoder models (family `dec`).  The state is the current buffer.

  buf <zhex>         set the current buffer; `zhex` = segments joined by `.`, a segment is hex
                     digits, `z<n>` (n zero bytes) or `r<hh>x<n>` (n copies of a byte); `-` = empty
                     -> `len <n>`
every other request decodes the current buffer:
  rv <schema> <op> <col> [arg]    RecordView; schema = comma list of fixed sizes / `v`, `-` = no columns
        ops: new hl null fixed:<n> bool fields:<w+w+..> vb blob text minlen:<n> vec range:<w> rcc nom
             and `o<op>` = the `_opt` wrapper of fixed/bool/blob/text/vec/range/fields/minlen
  validate | leaf from|cc|slot|key|val|vlen <i> | int from|slot|key <i> | int find <keyhex>
  hnsw from|sc | hnsw slot|node <i>
  meta | table | index | hnswhdr | wal <crc decimal|x> | walreq <pageCount> <pageNo> <dbSize>
  arr new|et|len | arr null|vb|blob|text <i> | arr fixed <i> <w>
  cat <knownhex,knownhex..>
answers: `ok <payload>` | `err <tag>` | `oob` | `arith` | `expect` | `fuel` | `bad-op`
-/
namespace Driver.Dec
open TurVerif.Dec

def parseSeg (s : String) : Option (List Nat) :=
  if s.startsWith "z" then (s.drop 1).toString.toNat?.map fun n => List.replicate n 0
  else if s.startsWith "r" then
    match (s.drop 1).toString.splitOn "x" with
    | [h, n] => match Driver.bytesOfHex h, n.toNat? with
      | some [b], some k => some (List.replicate k b)
      | _, _ => none
    | _ => none
  else Driver.bytesOfHex s

def parseZhex (s : String) : Option (Array Nat) :=
  if s == "-" then some #[] else
  (s.splitOn ".").foldl (fun acc seg => match acc, parseSeg seg with
    | some a, some bs => some (a ++ bs.toArray)
    | _, _ => none) (some #[])

def hx (bs : List Nat) : String := Driver.hexOrDash bs
def csv (ns : List Nat) : String := if ns.isEmpty then "-" else ",".intercalate (ns.map toString)
def showBool (b : Bool) : String := if b then "t" else "f"

def showRes {α : Type} (f : α → String) : Res α → String
  | .ok a => "ok " ++ f a
  | .err e => "err " ++ e
  | .oob => "oob"
  | .arith => "arith"
  | .expect => "expect"
  | .fuel => "fuel"

def showOpt {α : Type} (f : α → String) : Option α → String
  | none => "none"
  | some a => "some " ++ f a

def parseSchema (s : String) : Option (List (Option Nat)) :=
  if s == "-" then some [] else
  (s.splitOn ",").foldr (fun w acc => match acc with
    | none => none
    | some l => if w == "v" then some (none :: l) else (w.toNat?).map fun n => some n :: l) (some [])

def natList (s : String) (sep : String) : Option (List Nat) :=
  (s.splitOn sep).foldr (fun w acc => match acc, w.toNat? with
    | some l, some n => some (n :: l)
    | _, _ => none) (some [])

def showRange (r : Nat × List Nat × List Nat) : String :=
  if r.1 % 2 = 1 then "empty" else s!"{hx r.2.1} {hx r.2.2} {r.1 / 2 % 2} {r.1 / 4 % 2}"
def showFields (fs : List (List Nat)) : String := "+".intercalate (fs.map hx)

open TurVerif.RecordView in
/-- a RecordView getter (after `RecordView::new`) rendered to text -/
def rvOp (s : Schema) (b : Buf) (op : String) (col : Nat) : Option String :=
  let wrap (r : Res String) : String := showRes id ((new b).bind fun _ => r)
  let base (op : String) : Option (Res String) :=
    match op.splitOn ":" with
    | ["fixed", n] => n.toNat?.map fun n => (getFixed s b col n).map hx
    | ["bool"] => some ((getBool s b col).map showBool)
    | ["fields", ws] => (natList ws "+").map fun ws => (getFields s b col ws).map showFields
    | ["blob"] => some ((getBlob s b col).map hx)
    | ["text"] => some ((getText s b col).map hx)
    | ["minlen", n] => n.toNat?.map fun n => (getMinLen s b col n).map fun bs => if n = 4 then hx bs else "-"
    | ["vec"] => some ((getVectorCopy s b col).map csv)
    | ["range", w] => w.toNat?.map fun w => (getRange s b col w).map showRange
    | _ => none
  match op with
  | "new" => some (wrap (.ok "-"))
  | "hl" => some (wrap ((headerLen b).map toString))
  | "null" => some (wrap ((isNull s b col).map showBool))
  | "vb" => some (wrap ((getVarBounds s b col).map fun p => s!"{p.1} {p.2}"))
  | "rcc" => some (wrap ((recordColumnCount s b).map toString))
  | "nom" => some (wrap ((isNullOrMissing s b col).map showBool))
  | _ =>
    if op.startsWith "o" then
      (base (op.drop 1).toString).map fun g => wrap ((opt s b col g).map (showOpt id))
    else (base op).map wrap

open TurVerif.PageHdr in
def showSlot (s : Slot) : String := s!"{hx s.pfx} {s.off} {s.klen}"
open TurVerif.PageHdr in
def showISlot (s : ISlot) : String := s!"{s.pfx} {s.child} {s.off} {s.klen}"

open TurVerif.PageHdr in
def pageOp (b : Buf) : List String → Option String
  | ["validate"] => some (showRes (fun _ => "-") (validatePage b))
  | ["leaf", "from"] => some (showRes (fun _ => "-") (fromPage 2 b))
  | ["leaf", "cc"] => some (showRes toString ((fromPage 2 b).bind fun _ => cellCount b))
  | ["leaf", op, i] => i.toNat?.bind fun i =>
      let pre {α : Type} (r : Res α) : Res α := (fromPage 2 b).bind fun _ => r
      match op with
      | "slot" => some (showRes showSlot (pre (leafSlotAt b i)))
      | "key" => some (showRes hx (pre (leafKeyAt b i)))
      | "val" => some (showRes hx (pre (leafValueAt b i)))
      | "vlen" => some (showRes toString (pre (leafValueLenAt b i)))
      | _ => none
  | ["int", "from"] => some (showRes (fun _ => "-") (fromPage 1 b))
  | ["int", "find", k] => (Driver.bytesOfHex k).map fun k =>
      showRes (fun (r : Nat × Option Nat) => s!"{r.1} {showOpt toString r.2}")
        ((fromPage 1 b).bind fun _ => findChild b k)
  | ["int", op, i] => i.toNat?.bind fun i =>
      let pre {α : Type} (r : Res α) : Res α := (fromPage 1 b).bind fun _ => r
      match op with
      | "slot" => some (showRes showISlot (pre (intSlotAt b i)))
      | "key" => some (showRes hx (pre (intKeyAt b i)))
      | _ => none
  | ["hnsw", "from"] => some (showRes (fun _ => "-") (fromPage 16 b))
  | ["hnsw", "sc"] => some (showRes toString ((fromPage 16 b).bind fun _ => hnswSlotCount b))
  | ["hnsw", op, i] => i.toNat?.bind fun i =>
      let pre {α : Type} (r : Res α) : Res α := (fromPage 16 b).bind fun _ => r
      match op with
      | "slot" => some (showRes (showOpt fun (t : Nat × Nat × Nat) => s!"{t.1} {t.2.1} {t.2.2}")
                    (pre (hnswGetSlot b i)))
      | "node" => some (showRes hx (pre (hnswReadNodeData b i)))
      | _ => none
  | _ => none

open TurVerif.FileHdr in
def fileOp (b : Buf) : List String → Option String
  | ["meta"] => some (showRes csv (metaFromBytes b))
  | ["table"] => some (showRes csv (tableFromBytes b))
  | ["index"] => some (showRes csv (indexFromBytes b))
  | ["hnswhdr"] => some (showRes csv (hnswFromBytes b))
  | ["wal", c] =>
      let crc : Option Nat := if c == "x" then some 0 else c.toNat?
      crc.map fun c => showRes (fun (t : Nat × Nat × Nat) => s!"{t.1} {t.2.1} {t.2.2}")
        (readFrame (fun _ => c) b)
  | ["walreq", pc, pn, ds] => match pc.toNat?, pn.toNat?, ds.toNat? with
      | some pc, some pn, some ds => some (showRes (showOpt toString) (recoverRequiredPages pc pn ds))
      | _, _, _ => none
  | _ => none

open TurVerif.ArrayView in
def arrOp (b : Buf) : List String → Option String
  | ["arr", "new"] => some (showRes (fun _ => "-") (new b))
  | ["arr", "et"] => some (showRes toString ((new b).bind fun _ => elemType b))
  | ["arr", "len"] => some (showRes toString ((new b).bind fun _ => len b))
  | ["arr", "fixed", i, w] => match i.toNat?, w.toNat? with
      | some i, some w => some (showRes (fun bs => if w = 1 then showBool (bs != [0]) else hx bs)
          ((new b).bind fun _ => getFixed b i w))
      | _, _ => none
  | ["arr", op, i] => i.toNat?.bind fun i =>
      let pre {α : Type} (r : Res α) : Res α := (new b).bind fun _ => r
      match op with
      | "null" => some (showRes showBool (pre (isNull b i)))
      | "vb" => some (showRes (fun (p : Nat × Nat) => s!"{p.1} {p.2}") (pre (getVarBounds b i)))
      | "blob" => some (showRes hx (pre (getBlob b i)))
      | "text" => some (showRes hx (pre (getText b i)))
      | _ => none
  | _ => none

open TurVerif.CatalogDec in
def showCol (c : Col) : String :=
  s!"C{hx c.name}:{c.ty}:{csv c.constraints}:{showBool c.hasDefault}:{match c.maxLen with | some m => toString m | none => "-"}"
open TurVerif.CatalogDec in
def showIdx (i : Idx) : String :=
  let cols := "+".intercalate (i.cols.map fun (n, d) => s!"{hx n}/{d}")
  s!"I{hx i.name}:{showBool i.unique}:{i.ty}:{if i.cols.isEmpty then "-" else cols}"
open TurVerif.CatalogDec in
def showTbl (t : Tbl) : String :=
  let pk := match t.pk with
    | none => "-"
    | some ns => "P" ++ "+".intercalate (ns.map hx)
  let toast := match t.toast with
    | none => "-"
    | some x => toString x
  let parts := [s!"T{t.id}:{pk}:{toast}"] ++ t.cols.map showCol ++ t.idxs.map showIdx
  " ".intercalate parts

open TurVerif.CatalogDec in
/-- canonical dump: `Schema::add_table` is a map insert (a later table with the same name in
the same schema replaces the earlier one); entries sorted by `<schema hex>/<table hex>` -/
def showCatalog (r : List (List Nat × List Tbl)) : String :=
  let entries : List (String × String) := r.flatMap fun (sn, ts) =>
    ts.map fun t => (s!"{hx sn}/{hx t.name}", showTbl t)
  -- last wins
  let dedup := entries.foldl (fun acc e => (acc.filter fun x => x.1 != e.1) ++ [e]) []
  let sorted := dedup.mergeSort fun a b => a.1 ≤ b.1
  if sorted.isEmpty then "-" else " | ".intercalate (sorted.map fun e => e.1 ++ " " ++ e.2)

def catOp (b : Buf) : List String → Option String
  | ["cat", ks] =>
      let names := if ks == "-" then some [] else
        (ks.splitOn ",").foldr (fun w acc => match acc, Driver.bytesOfHex w with
          | some l, some n => some (n :: l)
          | _, _ => none) (some [])
      names.map fun known => showRes showCatalog (TurVerif.CatalogDec.deserialize b known)
  | _ => none

structure St where
  arr : Array Nat := #[]

def step (st : St) (ws : List String) : St × String :=
  match ws with
  | ["buf", z] => match parseZhex z with
      | some a => ({ arr := a }, s!"len {a.size}")
      | none => (st, "bad-op")
  | _ =>
    let b := Buf.ofArray st.arr
    let r : Option String := match ws with
      | ["rv", sch, op, col] => match parseSchema sch, col.toNat? with
          | some s, some c => rvOp s b op c
          | _, _ => none
      | "arr" :: _ => arrOp b ws
      | "cat" :: _ => catOp b ws
      | "meta" :: _ | "table" :: _ | "index" :: _ | "hnswhdr" :: _ | "wal" :: _ | "walreq" :: _ => fileOp b ws
      | _ => pageOp b ws
    (st, r.getD "bad-op")

/-- batch loop: like `Driver.loop` but the output is flushed at end of input only (the harness
sends a whole batch and then reads all answers) -/
partial def run (h : IO.FS.Stream) (out : IO.FS.Stream) (st : St) : IO Unit := do
  let line ← h.getLine
  if line.isEmpty then
    out.flush
    return ()
  let (st', resp) := step st (Driver.words line)
  out.putStrLn resp
  run h out st'

end Driver.Dec
