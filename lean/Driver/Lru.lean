import TurVerif.Model.Lru
import Driver.Util
/-! Line protocol for the open-file LRU model (family `lru`):
  new <cap> → ok | get k / getmut k / rm k → some v | none | ins k v / pop → evict k v | none
  len → n | drain → k:v,k:v,… (LRU first, destructive) | - 
  fetch k / drop k (FileManager level, handle of key k = k) → "<len> [sorted keys]" -/
namespace Driver.Lru
open TurVerif.Lru

def showOpt : Option Nat → String
  | some v => s!"some {v}"
  | none => "none"

def showEv : Option (Nat × Nat) → String
  | some (k, v) => s!"evict {k} {v}"
  | none => "none"

def insertSorted (x : Nat) : List Nat → List Nat
  | [] => [x]
  | y :: ys => if x ≤ y then x :: y :: ys else y :: insertSorted x ys

def sortNat (l : List Nat) : List Nat := l.foldr insertSorted []

def showSet (c : Lru Nat) : String :=
  let ks := sortNat (c.map.map (·.1))
  s!"{len c} [{",".intercalate (ks.map toString)}]"

def drain (fuel : Nat) (c : Lru Nat) (acc : List String) : List String :=
  match fuel with
  | 0 => acc.reverse
  | fuel + 1 =>
    match popLru c with
    | (c', some (k, v)) => drain fuel c' (s!"{k}:{v}" :: acc)
    | (c', none) => if c'.order.isEmpty then acc.reverse else drain fuel c' acc

def step (c : Lru Nat) : List String → Lru Nat × String
  | ["new", n] => match n.toNat? with
      | some cap => (new cap, "ok")
      | none => (c, "bad-op")
  | ["get", k] => match k.toNat? with
      | some k => let (c', v) := get c k; (c', showOpt v)
      | none => (c, "bad-op")
  | ["getmut", k] => match k.toNat? with
      | some k => let (c', v) := get c k; (c', showOpt v)
      | none => (c, "bad-op")
  | ["ins", k, v] => match k.toNat?, v.toNat? with
      | some k, some v => let (c', ev) := insert c k v; (c', showEv ev)
      | _, _ => (c, "bad-op")
  | ["rm", k] => match k.toNat? with
      | some k => let (c', v) := remove c k; (c', showOpt v)
      | none => (c, "bad-op")
  | ["pop"] => let (c', ev) := popLru c; (c', showEv ev)
  | ["len"] => (c, toString (len c))
  | ["drain"] =>
      let out := drain (c.order.length + c.map.length + 1) c []
      ({ c with order := [], map := [] }, if out.isEmpty then "-" else ",".intercalate out)
  | ["fetch", k] => match k.toNat? with
      | some k =>
        let (c', v, _) := fetch (fun x => x) c k
        match v with
        | some _ => (c', showSet c')
        | none => (c', "unwrap-panic")
      | none => (c, "bad-op")
  | ["drop", k] => match k.toNat? with
      | some k => let (c', _) := remove c k; (c', showSet c')
      | none => (c, "bad-op")
  | _ => (c, "bad-op")

end Driver.Lru
