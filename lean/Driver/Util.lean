/- Shared helpers for the line-protocol driver (trusted: parsing/printing only). -/
namespace Driver

def hexDigit (n : Nat) : Char :=
  if n < 10 then Char.ofNat (48 + n) else Char.ofNat (87 + n)

def hexOfBytes (bs : List Nat) : String :=
  String.ofList (bs.foldr (fun b acc => hexDigit (b / 16 % 16) :: hexDigit (b % 16) :: acc) [])

def hexVal (c : Char) : Option Nat :=
  let n := c.toNat
  if 48 ≤ n ∧ n ≤ 57 then some (n - 48)
  else if 97 ≤ n ∧ n ≤ 102 then some (n - 87)
  else if 65 ≤ n ∧ n ≤ 70 then some (n - 55)
  else none

def bytesOfHexAux : List Char → List Nat → Option (List Nat)
  | [], acc => some acc.reverse
  | [_], _ => none
  | a :: b :: rest, acc =>
    match hexVal a, hexVal b with
    | some x, some y => bytesOfHexAux rest ((x * 16 + y) :: acc)
    | _, _ => none

/-- "-" denotes the empty byte string -/
def bytesOfHex (s : String) : Option (List Nat) :=
  if s == "-" then some [] else bytesOfHexAux s.toList []

def hexOrDash (bs : List Nat) : String := if bs.isEmpty then "-" else hexOfBytes bs

def words (line : String) : List String :=
  (line.trimAscii.toString.splitOn " ").filter (· ≠ "")

def parseInt (s : String) : Option Int :=
  if s.startsWith "-" then (s.drop 1).toString.toNat?.map (fun n => - (Int.ofNat n))
  else s.toNat?.map Int.ofNat

/-- generic request/response loop over a (possibly stateful) step function -/
partial def loop {σ : Type} (h : IO.FS.Stream) (out : IO.FS.Stream) (st : σ)
    (step : σ → List String → σ × String) : IO Unit := do
  let line ← h.getLine
  if line.isEmpty then
    out.flush
    return ()
  let (st', resp) := step st (words line)
  out.putStrLn resp
  out.flush
  loop h out st' step

end Driver
