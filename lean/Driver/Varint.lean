import TurVerif.Model.Varint
import Driver.Util
namespace Driver.Varint
open TurVerif.Varint

def step (_ : Unit) : List String → Unit × String
  | ["len", n] => match n.toNat? with
      | some v => ((), toString (len v))
      | none => ((), "bad-op")
  | ["enc", n] => match n.toNat? with
      | some v => ((), Driver.hexOfBytes (encode v))
      | none => ((), "bad-op")
  | ["dec", h] => match Driver.bytesOfHex h with
      | some bs => match decode bs with
          | .ok v n => ((), s!"ok {v} {n}")
          | .err e => ((), s!"err {e}")
          | .oob => ((), "oob")
      | none => ((), "bad-op")
  | _ => ((), "bad-op")

end Driver.Varint
