import TurVerif.Model.KeyEnc
import TurVerif.Model.KeyEncJson
import Driver.Util
/-!
Line protocol for the key-encoding model (family `key`).

Value syntax (prefix, space separated; bytes as hex, `-` = empty):
  N | B 0|1 | I <int> | F <u64 bits> | T <hex> | X <hex> | D <int> | TM <int> | TS <int>
  | TZ <int> <int> | IV <months> <days> <micros> | U <hex> | IN 0|1 <plen> <hex> | M <hex>
  | E <tid> <ord> | V <n> <u32 bits>*n | A <n> val*n | TU <n> val*n | C <tid> <n> val*n | DO <tid> val

Requests:
  enc <val>                 -> hex of enc
  cols <n> val*n            -> hex of the concatenated column encodings
  cmp <val> <val>           -> lt|eq|gt      (specification order cmpVal)
  cmpcols <n> val*n <m> val*m -> lt|eq|gt    (column-wise order cmpList)
  dec <hex>                 -> ok <consumed> <val> | err <kind>
  canon <val>               -> <val>         (what decode(enc v) is specified to return)
  lex <hex> <hex>           -> lt|eq|gt      (lexCmp)
  utf8 <hex>                -> 0|1
  wf <val>                  -> 0|1
  jenc <jval>               -> hex of encJ        (JSON keys: jn | jb 0|1 | jf <bits> | js <hex>
  jdec <hex>                -> ok <n> <jval>|err     | ja <n> jval*n | jo <n> (<hexkey> jval)*n)
-/
namespace Driver.KeyEnc
open TurVerif.KeyEnc

abbrev Toks := List String

def pNat (s : String) : Option Nat := s.toNat?
def pBytes (s : String) : Option (List Nat) := Driver.bytesOfHex s

partial def pNats : Nat → Toks → Option (List Nat × Toks)
  | 0, ts => some ([], ts)
  | k + 1, t :: ts => do
    let v ← pNat t
    let (vs, r) ← pNats k ts
    pure (v :: vs, r)
  | _, [] => none

mutual
partial def pVal : Toks → Option (KVal × Toks)
  | "N" :: r => some (.null, r)
  | "B" :: b :: r => if b == "0" then some (.bool false, r) else if b == "1" then some (.bool true, r) else none
  | "I" :: n :: r => (Driver.parseInt n).map fun v => (.int v, r)
  | "F" :: n :: r => (pNat n).map fun v => (.float v, r)
  | "T" :: h :: r => (pBytes h).map fun v => (.text v, r)
  | "X" :: h :: r => (pBytes h).map fun v => (.blob v, r)
  | "D" :: n :: r => (Driver.parseInt n).map fun v => (.date v, r)
  | "TM" :: n :: r => (Driver.parseInt n).map fun v => (.time v, r)
  | "TS" :: n :: r => (Driver.parseInt n).map fun v => (.timestamp v, r)
  | "TZ" :: n :: z :: r => do
    let a ← Driver.parseInt n
    let b ← Driver.parseInt z
    pure (.timestamptz a b, r)
  | "IV" :: a :: b :: c :: r => do
    let a ← Driver.parseInt a
    let b ← Driver.parseInt b
    let c ← Driver.parseInt c
    pure (.interval a b c, r)
  | "U" :: h :: r => (pBytes h).map fun v => (.uuid v, r)
  | "IN" :: f :: pl :: h :: r => do
    let f ← pNat f
    if f > 1 then none
    let pl ← pNat pl
    let a ← pBytes h
    pure (.inet (f == 1) pl a, r)
  | "M" :: h :: r => (pBytes h).map fun v => (.macaddr v, r)
  | "E" :: a :: b :: r => do
    let a ← pNat a
    let b ← pNat b
    pure (.enum a b, r)
  | "V" :: n :: r => do
    let n ← pNat n
    let (ds, r) ← pNats n r
    pure (.vector ds, r)
  | "A" :: n :: r => do
    let n ← pNat n
    let (vs, r) ← pList n r
    pure (.array vs, r)
  | "TU" :: n :: r => do
    let n ← pNat n
    let (vs, r) ← pList n r
    pure (.tuple vs, r)
  | "C" :: t :: n :: r => do
    let t ← pNat t
    let n ← pNat n
    let (vs, r) ← pList n r
    pure (.composite t vs, r)
  | "DO" :: t :: r => do
    let t ← pNat t
    let (v, r) ← pVal r
    pure (.domain t v, r)
  | _ => none
partial def pList : Nat → Toks → Option (KList × Toks)
  | 0, ts => some (.nil, ts)
  | k + 1, ts => do
    let (v, r) ← pVal ts
    let (vs, r) ← pList k r
    pure (.cons v vs, r)
end

def hx (bs : List Nat) : String := Driver.hexOrDash bs

mutual
partial def sVal : KVal → String
  | .null => "N"
  | .bool b => if b then "B 1" else "B 0"
  | .int n => s!"I {n}"
  | .float b => s!"F {b}"
  | .text bs => s!"T {hx bs}"
  | .blob bs => s!"X {hx bs}"
  | .date d => s!"D {d}"
  | .time d => s!"TM {d}"
  | .timestamp d => s!"TS {d}"
  | .timestamptz a b => s!"TZ {a} {b}"
  | .interval a b c => s!"IV {a} {b} {c}"
  | .uuid bs => s!"U {hx bs}"
  | .inet f p a => s!"IN {if f then 1 else 0} {p} {hx a}"
  | .macaddr bs => s!"M {hx bs}"
  | .enum a b => s!"E {a} {b}"
  | .vector ds => ds.foldl (fun acc d => acc ++ s!" {d}") s!"V {ds.length}"
  | .array es => let (n, s) := sList es; s!"A {n}{s}"
  | .tuple es => let (n, s) := sList es; s!"TU {n}{s}"
  | .composite t es => let (n, s) := sList es; s!"C {t} {n}{s}"
  | .domain t v => s!"DO {t} {sVal v}"
partial def sList : KList → Nat × String
  | .nil => (0, "")
  | .cons v vs => let (n, s) := sList vs; (n + 1, " " ++ sVal v ++ s)
end

mutual
partial def pJ : Toks → Option (JVal × Toks)
  | "jn" :: r => some (.null, r)
  | "jb" :: b :: r => if b == "0" then some (.bool false, r) else if b == "1" then some (.bool true, r) else none
  | "jf" :: n :: r => (pNat n).map fun v => (.num v, r)
  | "js" :: h :: r => (pBytes h).map fun v => (.str v, r)
  | "ja" :: n :: r => do
    let n ← pNat n
    let (vs, r) ← pJList n r
    pure (.arr vs, r)
  | "jo" :: n :: r => do
    let n ← pNat n
    let (kvs, r) ← pJObj n r
    pure (.obj kvs, r)
  | _ => none
partial def pJList : Nat → Toks → Option (JList × Toks)
  | 0, ts => some (.nil, ts)
  | k + 1, ts => do
    let (v, r) ← pJ ts
    let (vs, r) ← pJList k r
    pure (.cons v vs, r)
partial def pJObj : Nat → Toks → Option (JObj × Toks)
  | 0, ts => some (.nil, ts)
  | k + 1, h :: ts => do
    let key ← pBytes h
    let (v, r) ← pJ ts
    let (rest, r) ← pJObj k r
    pure (.cons key v rest, r)
  | _, [] => none
end

mutual
partial def sJ : JVal → String
  | .null => "jn"
  | .bool b => if b then "jb 1" else "jb 0"
  | .num b => s!"jf {b}"
  | .str bs => s!"js {hx bs}"
  | .arr es => let (n, s) := sJList es; s!"ja {n}{s}"
  | .obj kvs => let (n, s) := sJObj kvs; s!"jo {n}{s}"
partial def sJList : JList → Nat × String
  | .nil => (0, "")
  | .cons v vs => let (n, s) := sJList vs; (n + 1, " " ++ sJ v ++ s)
partial def sJObj : JObj → Nat × String
  | .nil => (0, "")
  | .cons k v rest => let (n, s) := sJObj rest; (n + 1, " " ++ hx k ++ " " ++ sJ v ++ s)
end

def sOrd : Ordering → String
  | .lt => "lt" | .eq => "eq" | .gt => "gt"

def step (_ : Unit) (ws : List String) : Unit × String :=
  let r : String :=
    match ws with
    | "enc" :: r =>
      match pVal r with
      | some (v, []) => hx (enc v)
      | _ => "bad-op"
    | "cols" :: n :: r =>
      match (pNat n).bind (fun n => pList n r) with
      | some (vs, []) => hx (encCols vs)
      | _ => "bad-op"
    | "cmp" :: r =>
      match pVal r with
      | some (a, r2) =>
        match pVal r2 with
        | some (b, []) => sOrd (cmpVal a b)
        | _ => "bad-op"
      | _ => "bad-op"
    | "cmpcols" :: n :: r =>
      match (pNat n).bind (fun n => pList n r) with
      | some (as, m :: r2) =>
        match (pNat m).bind (fun m => pList m r2) with
        | some (bs, []) => sOrd (cmpList as bs)
        | _ => "bad-op"
      | _ => "bad-op"
    | ["dec", h] =>
      match pBytes h with
      | some bs =>
        match decode bs with
        | .ok v n => s!"ok {n} {sVal v}"
        | .err e => s!"err {e}"
      | none => "bad-op"
    | "canon" :: r =>
      match pVal r with
      | some (v, []) => sVal (canon v)
      | _ => "bad-op"
    | ["lex", a, b] =>
      match pBytes a, pBytes b with
      | some x, some y => sOrd (lexCmp x y)
      | _, _ => "bad-op"
    | ["utf8", h] =>
      match pBytes h with
      | some bs => if utf8Valid bs then "1" else "0"
      | none => "bad-op"
    | "jenc" :: r =>
      match pJ r with
      | some (v, []) => hx (encJ v)
      | _ => "bad-op"
    | ["jdec", h] =>
      match pBytes h with
      | some bs =>
        match decodeJ bs with
        | .ok v n => s!"ok {n} {sJ v}"
        | .err e => s!"err {e}"
      | none => "bad-op"
    | "wf" :: r =>
      match pVal r with
      | some (v, []) => if wf v then "1" else "0"
      | _ => "bad-op"
    | _ => "bad-op"
  ((), r)

end Driver.KeyEnc
