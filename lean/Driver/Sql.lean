import TurVerif.Model.Sql
import TurVerif.Model.Like
import Driver.Util
import Driver.SExpr
namespace Driver.Sql
open TurVerif.Sql Driver

def strOfHex (h : String) : Option String :=
  match bytesOfHex h with
  | none => none
  | some bs => String.fromUTF8? (ByteArray.mk (bs.map (fun b => UInt8.ofNat b)).toArray)

def hexOfStr (s : String) : String :=
  hexOrDash (s.toUTF8.toList.map (fun b => b.toNat))

def binop? : String → Option BinOp
  | "add" => some .add | "sub" => some .sub | "mul" => some .mul | "div" => some .div
  | "mod" => some .mod | "concat" => some .concat
  | "eq" => some .eq | "ne" => some .ne | "lt" => some .lt | "le" => some .le
  | "gt" => some .gt | "ge" => some .ge | "and" => some .and | "or" => some .or
  | _ => none

def val? : SX → Option Val
  | .list [.atom "null"] => some .null
  | .list [.atom "bool", .atom b] => if b == "1" then some (.bool true) else if b == "0" then some (.bool false) else none
  | .list [.atom "int", .atom n] => (parseInt n).map .int
  | .list [.atom "flt", .atom n, .atom d] =>
    match parseInt n, d.toNat? with
    | some num, some den => if den = 0 then none else some (.flt ((num : Rat) / (den : Rat)))
    | _, _ => none
  | .list [.atom "text", .atom h] => (strOfHex h).map .text
  | _ => none

mutual
partial def expr? (sx : SX) : Option Expr :=
  match val? sx with
  | some v => some (.lit v)
  | none =>
  match sx with
  | .list [.atom "col", .atom i] => i.toNat?.map .col
  | .list [.atom "neg", e] => (expr? e).map .neg
  | .list [.atom "not", e] => (expr? e).map .not
  | .list [.atom "bin", .atom op, a, b] =>
    match binop? op, expr? a, expr? b with
    | some o, some x, some y => some (.bin o x y)
    | _, _, _ => none
  | .list [.atom "isnull", e] => (expr? e).map (.isNull · false)
  | .list [.atom "notnull", e] => (expr? e).map (.isNull · true)
  | .list [.atom "in", e, .list l] =>
    match expr? e, exprs? l with
    | some x, some xs => some (.inList x xs false)
    | _, _ => none
  | .list [.atom "notin", e, .list l] =>
    match expr? e, exprs? l with
    | some x, some xs => some (.inList x xs true)
    | _, _ => none
  | .list [.atom "between", e, lo, hi] =>
    match expr? e, expr? lo, expr? hi with
    | some x, some l, some h => some (.between x l h false)
    | _, _, _ => none
  | .list [.atom "notbetween", e, lo, hi] =>
    match expr? e, expr? lo, expr? hi with
    | some x, some l, some h => some (.between x l h true)
    | _, _, _ => none
  | .list [.atom "like", e, p] =>
    match expr? e, expr? p with
    | some x, some y => some (.like x y false)
    | _, _ => none
  | .list [.atom "notlike", e, p] =>
    match expr? e, expr? p with
    | some x, some y => some (.like x y true)
    | _, _ => none
  | .list (.atom "coalesce" :: l) => (exprs? l).map .coalesce
  | .list [.atom "case", .list whens, els] =>
    match whens? whens, expr? els with
    | some ws, some e => some (.caseWhen ws e)
    | _, _ => none
  | _ => none
partial def exprs? (l : List SX) : Option (List Expr) :=
  match l with
  | [] => some []
  | x :: xs => match expr? x, exprs? xs with
    | some e, some es => some (e :: es)
    | _, _ => none
partial def whens? (l : List SX) : Option (List (Expr × Expr)) :=
  match l with
  | [] => some []
  | .list [c, v] :: xs => match expr? c, expr? v, whens? xs with
    | some a, some b, some r => some ((a, b) :: r)
    | _, _, _ => none
  | _ => none
end

def optExpr? : SX → Option (Option Expr)
  | .list [.atom "none"] => some none
  | sx => (expr? sx).map some

def bool01? : SX → Option Bool
  | .atom "1" => some true
  | .atom "0" => some false
  | _ => none

def kind? : String → Option JoinKind
  | "inner" => some .inner | "left" => some .left | "right" => some .right
  | "full" => some .full | "cross" => some .cross | _ => none

partial def from? : SX → Option From
  | .list [.atom "t", .atom n] => some (.table n)
  | .list [.atom "join", .atom k, l, r, on] =>
    match kind? k, from? l, from? r, expr? on with
    | some kk, some a, some b, some o => some (.join kk a b o)
    | _, _, _, _ => none
  | _ => none

def agg? : SX → Option Agg
  | .list [.atom "countstar"] => some ⟨.countStar, .lit .null⟩
  | .list [.atom f, e] =>
    let fn := match f with
      | "count" => some AggFn.count | "sum" => some AggFn.sum | "avg" => some AggFn.avg
      | "min" => some AggFn.min | "max" => some AggFn.max | _ => none
    match fn, expr? e with
    | some g, some x => some ⟨g, x⟩
    | _, _ => none
  | _ => none

def mapM? {α β} (f : α → Option β) : List α → Option (List β)
  | [] => some []
  | x :: xs => match f x, mapM? f xs with
    | some y, some ys => some (y :: ys)
    | _, _ => none

def orderKey? : SX → Option OrderKey
  | .list [e, d] => match expr? e, bool01? d with
    | some x, some b => some ⟨x, b⟩
    | _, _ => none
  | _ => none

def select? : SX → Option Select
  | .list [.atom "select", frm, whr, grouped, .list keys, .list aggs, having, .list items,
           dist, .list order, oo, lim, .atom off] =>
    match from? frm, optExpr? whr, bool01? grouped, exprs? keys, mapM? agg? aggs, optExpr? having,
          exprs? items, bool01? dist, mapM? orderKey? order, bool01? oo, off.toNat? with
    | some f, some w, some g, some ks, some ags, some h, some its, some d, some ord, some o, some offn =>
      let limit : Option (Option Nat) := match lim with
        | .list [.atom "none"] => some none
        | .atom n => n.toNat?.map some
        | _ => none
      match limit with
      | some l => some { frm := f, whr := w, grouped := g, keys := ks, aggs := ags, having := h,
                         items := its, isDistinct := d, order := ord, orderOnOutput := o,
                         limit := l, offset := offn }
      | none => none
    | _, _, _, _, _, _, _, _, _, _, _ => none
  | _ => none

partial def query? : SX → Option Query
  | .list [.atom "setop", .atom op, a, b] =>
    let o := match op with
      | "union" => some SetOp.union | "unionall" => some SetOp.unionAll
      | "intersect" => some SetOp.intersect | "except" => some SetOp.except | _ => none
    match o, query? a, query? b with
    | some oo, some x, some y => some (.setop oo x y)
    | _, _, _ => none
  | sx => (select? sx).map .sel

def showRat (q : Rat) : String := s!"{q.num}/{q.den}"

def showVal : Val → String
  | .null => "N"
  | .bool true => "B1"
  | .bool false => "B0"
  | .int i => s!"I{i}"
  | .flt q => s!"F{showRat q}"
  | .text s => s!"T{hexOfStr s}"

def showRow (r : Row) : String := ",".intercalate (r.map showVal)

def showErr : Err → String
  | .overflow => "overflow" | .divzero => "divzero" | .type => "type" | .card => "card"
  | .missing => "missing" | .constraint => "constraint" | .other => "other"

def showRows : Except Err (List Row) → String
  | .error e => s!"err {showErr e}"
  | .ok rows => s!"ok {rows.length} " ++ ";".intercalate (rows.map showRow)

def row? : SX → Option Row
  | .list l => mapM? val? l
  | _ => none

def step (db : Db) (ws : List String) : Db × String :=
  match ws with
  | ["reset"] => ([], "ok")
  | ["table", n, k] => match k.toNat? with
    | some c => (db.filter (fun t => t.name != n) ++ [{ name := n, ncols := c, rows := [] }], "ok")
    | none => (db, "bad-op")
  | "row" :: n :: rest =>
    match sxOfLine rest with
    | some [sx] => match row? sx with
      | some r => (db.map (fun t => if t.name == n then { t with rows := t.rows ++ [r] } else t), "ok")
      | none => (db, "bad-op")
    | _ => (db, "bad-op")
  | "query" :: rest =>
    match sxOfLine rest with
    | some [sx] => match query? sx with
      | some q => (db, showRows (runQuery db q))
      | none => (db, "bad-op")
    | _ => (db, "bad-op")
  | "eval" :: rest =>
    match sxOfLine rest with
    | some [r, e] => match row? r, expr? e with
      | some row, some ex => (db, match eval row ex with
          | .ok v => s!"ok {showVal v}"
          | .error x => s!"err {showErr x}")
      | _, _ => (db, "bad-op")
    | _ => (db, "bad-op")
  | ["like", th, ph] =>
    match bytesOfHex th, bytesOfHex ph, strOfHex th, strOfHex ph with
    | some tb, some pb, some ts, some ps =>
      let impl := match TurVerif.Like.likeImpl tb pb with
        | some true => "1" | some false => "0" | none => "fuel"
      let spec := if likeSpec ps.toList ts.toList then "1" else "0"
      (db, s!"impl={impl} spec={spec}")
    | _, _, _, _ => (db, "bad-op")
  | _ => (db, "bad-op")

end Driver.Sql
