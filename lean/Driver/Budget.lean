import TurVerif.Model.Budget
import Driver.Util
import Driver.SExpr
namespace Driver.Budget
open TurVerif.Budget Driver

def op? : SX → Option Op
  | .list [.atom "a", .atom p, .atom b] => match p.toNat?, b.toNat? with
    | some x, some y => some (.alloc x y)
    | _, _ => none
  | .list [.atom "r", .atom p, .atom b] => match p.toNat?, b.toNat? with
    | some x, some y => some (.release x y)
    | _, _ => none
  | _ => none

def mapM? {α β} (f : α → Option β) : List α → Option (List β)
  | [] => some []
  | x :: xs => match f x, mapM? f xs with
    | some y, some ys => some (y :: ys)
    | _, _ => none

def prog? : SX → Option (List Op)
  | .list l => mapM? op? l
  | _ => none

def pcName : Pc → String
  | .idle => "idle" | .aLoadPool .. => "load_pool" | .aTot .. => "load_total" | .aLimit .. => "limit"
  | .aShrLimit .. => "load_shared" | .aShrTot .. => "shared_total" | .aCas .. => "cas"
  | .rLoad .. => "rload" | .rCas .. => "rcas"

def showState (s : State) (tid : Nat) : String :=
  let u := " ".intercalate (s.used.map toString)
  match s.threads[tid]? with
  | some t =>
    let rs := "".intercalate (t.results.reverse.map (fun b => if b then "1" else "0"))
    s!"used {u} pc {pcName t.pc} left {t.prog.length} results {if rs.isEmpty then "-" else rs} total {s.totalUsed} limit {s.limit}"
  | none => s!"used {u} pc none"

def step (s : State) (ws : List String) : State × String :=
  match ws with
  | "init" :: lim :: rest =>
    match lim.toNat?, sxOfLine rest with
    | some l, some progs => match mapM? prog? progs with
      | some ps => (init l ps, "ok")
      | none => (s, "bad-op")
    | _, _ => (s, "bad-op")
  | ["step", t] => match t.toNat? with
    | some tid => let s' := coarse s tid 64; (s', showState s' tid)
    | none => (s, "bad-op")
  | ["fine", t] => match t.toNat? with
    | some tid => match TurVerif.Budget.step s tid with
      | some s' => (s', showState s' tid)
      | none => (s, "none")
    | none => (s, "bad-op")
  | _ => (s, "bad-op")

end Driver.Budget
