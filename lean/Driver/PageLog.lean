import TurVerif.Model.PageLog
import Driver.Util
/-! Line protocol for the page store + WAL model (family `pagelog`):
  reset | write f p v | flush f | wal 0|1 | thr n | ckptshared | ckptdb | commit | reopen | dropreopen
  each answers the observable state: `t=<view of the probed pages> w=<#frames in the log> d=<#dirty> on=<0|1>`
  where the probed pages are files 1..2 × pages 1..4. -/
namespace Driver.PageLog
open TurVerif.PageLog

def probes : List Key := [⟨1, 1⟩, ⟨1, 2⟩, ⟨1, 3⟩, ⟨1, 4⟩, ⟨2, 1⟩, ⟨2, 2⟩, ⟨2, 3⟩, ⟨2, 4⟩]

def showSt (s : St) : String :=
  let t := ",".intercalate (probes.map (fun k => toString (view s k)))
  s!"t={t} w={s.wal.length} d={s.dirty.length} on={if s.walOn then 1 else 0}"

def op (s : St) (o : Op) : St × String := let s' := step s o; (s', showSt s')

def step' (s : St) : List String → St × String
  | ["reset"] => ({}, showSt {})
  | ["write", f, p, v] => match f.toNat?, p.toNat?, v.toNat? with
      | some f, some p, some v => op s (.write ⟨f, p⟩ v)
      | _, _, _ => (s, "bad-op")
  | ["flush", f] => match f.toNat? with
      | some f => op s (.flush f)
      | none => (s, "bad-op")
  | ["wal", "1"] => op s (.setWal true)
  | ["wal", "0"] => op s (.setWal false)
  | ["thr", n] => match n.toNat? with
      | some n => op s (.setThreshold n)
      | none => (s, "bad-op")
  | ["ckptshared"] => op s .ckptShared
  | ["ckptdb"] => op s .ckptDb
  | ["commit"] => op s .commit
  | ["reopen"] => op s .reopen
  | ["dropreopen"] => op s .dropReopen
  | _ => (s, "bad-op")

def step := step'

end Driver.PageLog
