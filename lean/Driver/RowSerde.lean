import TurVerif.Model.RowSerde
import Driver.Util
/-!
Line protocol for the `rowserde` family.

value tokens (all numbers are big-endian hex of the bit pattern, `-` = empty byte string):
  N | I:<16> | F:<16> | T:<hex> | B:<hex> | V:<hex, 8 per element> | U:<32> | M:<12> | 4:<8> | 6:<32>
  | J:<hex> | Z:<16>,<8> | L:<16>,<8>,<8> | P:<16>,<16> | G:<16>,<16>,<16>,<16> | C:<16>,<16>,<16>
  | E:<4>,<4> | D:<32>,<4> | O:<hex>
requests:
  ser <cur|fix> <tok>*        -> <hex of serialize_row> <row_size>
  de <hex> <off>              -> ok <off'> <tok>* | err | oob
  rtn <cur|fix> <tok>* ; <tok>* ; ...  -> result of decoding the concatenated serialisations, as `den`
  den <hex> <off> <n>         -> ok <off'> <tok>* ; <tok>* ; ...   | err | oob    (n rows in sequence)
-/
namespace Driver.RowSerde
open TurVerif.RowSerde

/-- hex digit value of an ASCII byte -/
def hexValB (c : UInt8) : Option Nat :=
  let n := c.toNat
  if 48 ≤ n ∧ n ≤ 57 then some (n - 48)
  else if 97 ≤ n ∧ n ≤ 102 then some (n - 87)
  else none

/-- pairs `k-1, …, 0` of the UTF-8 bytes of the hex string, consed from the back (no reversal) -/
def bytesOfHexGo (ba : ByteArray) : Nat → List Nat → Option (List Nat)
  | 0, acc => some acc
  | k + 1, acc =>
    match hexValB (ba.get! (2 * k)), hexValB (ba.get! (2 * k + 1)) with
    | some x, some y => bytesOfHexGo ba k ((x * 16 + y) :: acc)
    | _, _ => none

/-- same contract as `Driver.bytesOfHex` (lowercase hex, "-" = empty), linear over the byte array;
the rows of this family are long enough for the `List Char` version to dominate the run time -/
def bytesOfHex (s : String) : Option (List Nat) :=
  if s == "-" then some [] else
  let ba := s.toUTF8
  if ba.size % 2 != 0 then none else bytesOfHexGo ba (ba.size / 2) []

def fixedHex (w : Nat) (v : Nat) : String := Driver.hexOfBytes (beBytes w v)

def tok : Value → String
  | .null => "N"
  | .int i => "I:" ++ fixedHex 8 i
  | .float f => "F:" ++ fixedHex 8 f
  | .text s => "T:" ++ Driver.hexOrDash s
  | .blob s => "B:" ++ Driver.hexOrDash s
  | .vector v => "V:" ++ Driver.hexOrDash (v.flatMap (beBytes 4))
  | .uuid b => "U:" ++ Driver.hexOrDash b
  | .macaddr b => "M:" ++ Driver.hexOrDash b
  | .inet4 b => "4:" ++ Driver.hexOrDash b
  | .inet6 b => "6:" ++ Driver.hexOrDash b
  | .jsonb s => "J:" ++ Driver.hexOrDash s
  | .timestamptz m o => "Z:" ++ fixedHex 8 m ++ "," ++ fixedHex 4 o
  | .interval m d mo => "L:" ++ fixedHex 8 m ++ "," ++ fixedHex 4 d ++ "," ++ fixedHex 4 mo
  | .point x y => "P:" ++ fixedHex 8 x ++ "," ++ fixedHex 8 y
  | .geobox a b c d => "G:" ++ fixedHex 8 a ++ "," ++ fixedHex 8 b ++ "," ++ fixedHex 8 c ++ "," ++ fixedHex 8 d
  | .circle a b r => "C:" ++ fixedHex 8 a ++ "," ++ fixedHex 8 b ++ "," ++ fixedHex 8 r
  | .enum t o => "E:" ++ fixedHex 2 t ++ "," ++ fixedHex 2 o
  | .decimal d s => "D:" ++ fixedHex 16 d ++ "," ++ fixedHex 2 s
  | .toast s => "O:" ++ Driver.hexOrDash s

/-- a field of exactly `w` bytes -/
def fixed (w : Nat) (s : String) : Option Nat :=
  match bytesOfHex s with
  | some bs => if bs.length = w then some (beVal bs) else none
  | none => none

def bytesN (w : Nat) (s : String) : Option (List Nat) :=
  match bytesOfHex s with
  | some bs => if bs.length = w then some bs else none
  | none => none

def groups4 : Nat → List Nat → List Nat → Option (List Nat)
  | _, [], acc => some acc.reverse
  | 0, _, _ => none
  | fuel + 1, a :: b :: c :: d :: rest, acc => groups4 fuel rest (beVal [a, b, c, d] :: acc)
  | _, _, _ => none

def parseTok (t : String) : Option Value :=
  if t == "N" then some .null else
  match t.splitOn ":" with
  | [k, body] =>
    let fs := body.splitOn ","
    match k, fs with
    | "I", [a] => (fixed 8 a).map .int
    | "F", [a] => (fixed 8 a).map .float
    | "T", [a] => (bytesOfHex a).map .text
    | "B", [a] => (bytesOfHex a).map .blob
    | "V", [a] => match bytesOfHex a with
        | some bs => (groups4 bs.length bs []).map .vector
        | none => none
    | "U", [a] => (bytesN 16 a).map .uuid
    | "M", [a] => (bytesN 6 a).map .macaddr
    | "4", [a] => (bytesN 4 a).map .inet4
    | "6", [a] => (bytesN 16 a).map .inet6
    | "J", [a] => (bytesOfHex a).map .jsonb
    | "O", [a] => (bytesOfHex a).map .toast
    | "Z", [a, b] => match fixed 8 a, fixed 4 b with
        | some x, some y => some (.timestamptz x y)
        | _, _ => none
    | "L", [a, b, c] => match fixed 8 a, fixed 4 b, fixed 4 c with
        | some x, some y, some z => some (.interval x y z)
        | _, _, _ => none
    | "P", [a, b] => match fixed 8 a, fixed 8 b with
        | some x, some y => some (.point x y)
        | _, _ => none
    | "G", [a, b, c, d] => match fixed 8 a, fixed 8 b, fixed 8 c, fixed 8 d with
        | some x, some y, some z, some w => some (.geobox x y z w)
        | _, _, _, _ => none
    | "C", [a, b, c] => match fixed 8 a, fixed 8 b, fixed 8 c with
        | some x, some y, some z => some (.circle x y z)
        | _, _, _ => none
    | "E", [a, b] => match fixed 2 a, fixed 2 b with
        | some x, some y => some (.enum x y)
        | _, _ => none
    | "D", [a, b] => match fixed 16 a, fixed 2 b with
        | some x, some y => some (.decimal x y)
        | _, _ => none
    | _, _ => none
  | _ => none

def parseRow : List String → List Value → Option (List Value)
  | [], acc => some acc.reverse
  | t :: ts, acc =>
    if t == "()" then parseRow ts acc else
    match parseTok t with
    | some v => parseRow ts (v :: acc)
    | none => none

/-- split a token list at ";" -/
def splitRows (toks : List String) : List (List String) :=
  let (cur, done) := toks.foldl (fun (st : List String × List (List String)) t =>
    if t == ";" then ([], st.1.reverse :: st.2) else (t :: st.1, st.2)) ([], [])
  (cur.reverse :: done).reverse

def showRow (r : List Value) : String := if r.isEmpty then "()" else " ".intercalate (r.map tok)

def parseVariant : String → Option Variant
  | "cur" => some .cur
  | "fix" => some .fix
  | _ => none

def step (_ : Unit) : List String → Unit × String
  | "ser" :: var :: toks =>
    match parseVariant var, parseRow toks [] with
    | some var, some row =>
      ((), Driver.hexOrDash (serializeRow var row) ++ " " ++ toString (rowSize var row))
    | _, _ => ((), "bad-op")
  | ["de", h, off] =>
    match bytesOfHex h, off.toNat? with
    | some bs, some off =>
      match deserializeRow bs off with
      | .ok r o => ((), s!"ok {o} " ++ showRow r)
      | .err _ => ((), "err")
      | .oob => ((), "oob")
    | _, _ => ((), "bad-op")
  | "rtn" :: var :: toks =>
    match parseVariant var, (splitRows toks).mapM (fun r => parseRow r []) with
    | some var, some rows =>
      let buf := rows.foldr (fun r acc => serializeRow var r ++ acc) []
      match deserializeRows buf rows.length 0 [] with
      | .ok rs o => ((), s!"ok {o} " ++ " ; ".intercalate (rs.map showRow))
      | .err _ => ((), "err")
      | .oob => ((), "oob")
    | _, _ => ((), "bad-op")
  | ["den", h, off, n] =>
    match bytesOfHex h, off.toNat?, n.toNat? with
    | some bs, some off, some n =>
      match deserializeRows bs n off [] with
      | .ok rs o => ((), s!"ok {o} " ++ " ; ".intercalate (rs.map showRow))
      | .err _ => ((), "err")
      | .oob => ((), "oob")
    | _, _, _ => ((), "bad-op")
  | _ => ((), "bad-op")

end Driver.RowSerde
