import Driver.Util
import Driver.Varint
import Driver.Sql

def main (args : List String) : IO UInt32 := do
  let stdin ← IO.getStdin
  let stdout ← IO.getStdout
  -- buffered output: collect through a BufferedWriter-like approach (IO.FS.Stream is line buffered by the runtime)
  match args with
  | ["varint"] => Driver.loop stdin stdout () Driver.Varint.step; return 0
  | ["sql"] => Driver.loop stdin stdout ([] : TurVerif.Sql.Db) Driver.Sql.step; return 0
  | _ => IO.eprintln "usage: tvmodel <family>"; return 2
