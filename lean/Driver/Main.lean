import Driver.Util
import Driver.Varint
import Driver.Sql
import Driver.SqlDb
import Driver.Budget
import Driver.PageLocks
import Driver.GroupCommit
import Driver.CommitOrder
import Driver.CommitCover
import Driver.KeyEnc
import Driver.Simd
import Driver.SqlJoin
import Driver.SqlSub
import Driver.Cal
import Driver.Json
import Driver.SqlCmp
import Driver.SqlAgg
import Driver.SqlFn
import Driver.SqlDml
import Driver.RowSerde
import Driver.SubSpill
import Driver.Record
import Driver.SqlCons
import Driver.AutoInc
import Driver.Dist
import Driver.Hnsw
import Driver.Freelist
import Driver.Sieve
import Driver.Undo
import Driver.Mvcc
import Driver.Commit
import Driver.Catalog
import Driver.SqlIdx
import Driver.Dec
import Driver.Lex
import Driver.Toast
import Driver.Wal
import Driver.Leaf
import Driver.Robust
import Driver.Lru
import Driver.PageLog

def main (args : List String) : IO UInt32 := do
  let stdin ← IO.getStdin
  let stdout ← IO.getStdout
  -- buffered output: collect through a BufferedWriter-like approach (IO.FS.Stream is line buffered by the runtime)
  match args with
  | ["varint"] => Driver.loop stdin stdout () Driver.Varint.step; return 0
  | ["commitorder"] => Driver.loop stdin stdout () Driver.CommitOrder.step; return 0
  | ["commitcover"] => Driver.loop stdin stdout ({} : TurVerif.CommitCover.St) Driver.CommitCover.step; return 0
  | ["groupcommit"] => Driver.loop stdin stdout (TurVerif.GroupCommit.init []) Driver.GroupCommit.step; return 0
  | ["pagelocks"] => Driver.loop stdin stdout (TurVerif.PageLocks.init false []) Driver.PageLocks.step; return 0
  | ["budget"] => Driver.loop stdin stdout (TurVerif.Budget.init 0 []) Driver.Budget.step; return 0
  | ["sqldb"] => Driver.loop stdin stdout ({} : TurVerif.SqlDb.DbState) Driver.SqlDb.step; return 0
  | ["sqljoin"] => Driver.loop stdin stdout ({} : Driver.SqlJoin.St) Driver.SqlJoin.step; return 0
  | ["sqlsub"] => Driver.loop stdin stdout ([] : TurVerif.Sql.Db) Driver.SqlSub.step; return 0
  | ["sqlagg"] => Driver.loop stdin stdout () Driver.SqlAgg.step; return 0
  | ["sqlcmp"] => Driver.loop stdin stdout () Driver.SqlCmp.step; return 0
  | ["sqlfn"] => Driver.loop stdin stdout () Driver.SqlFn.step; return 0
  | ["sqldml"] => Driver.loop stdin stdout ({} : Driver.SqlDml.St) Driver.SqlDml.step; return 0
  | ["sql"] => Driver.loop stdin stdout ([] : TurVerif.Sql.Db) Driver.Sql.step; return 0
  | ["key"] => Driver.loop stdin stdout () Driver.KeyEnc.step; return 0
  | ["simd"] => Driver.loop stdin stdout Driver.Simd.St.init Driver.Simd.step; return 0
  | ["cal"] => Driver.loop stdin stdout () Driver.Cal.step; return 0
  | ["hnsw"] => Driver.loop stdin stdout ({} : TurVerif.Hnsw.Index) Driver.Hnsw.step; return 0
  | ["dist"] => Driver.loop stdin stdout () Driver.Dist.step; return 0
  | ["sqlidx"] => Driver.loop stdin stdout ({} : TurVerif.SqlIdx.St) Driver.SqlIdx.step; return 0
  | ["lex"] => Driver.loop stdin stdout () Driver.Lex.step; return 0
  | ["toast"] => Driver.loop stdin stdout () Driver.Toast.step; return 0
  | ["wal"] => Driver.loop stdin stdout ({} : Driver.Wal.St) Driver.Wal.step; return 0
  | ["leaf"] => Driver.loop stdin stdout ([] : Driver.Leaf.St) Driver.Leaf.step; return 0
  | ["robust"] => Driver.loop stdin stdout () Driver.Robust.step; return 0
  | ["json"] => Driver.loop stdin stdout () Driver.Json.step; return 0
  | ["rowserde"] => Driver.loop stdin stdout () Driver.RowSerde.step; return 0
  | ["subspill"] => Driver.loop stdin stdout () Driver.SubSpill.step; return 0
  | ["record"] => Driver.loop stdin stdout () Driver.Record.step; return 0
  | ["sqlcons"] => Driver.loop stdin stdout ({} : TurVerif.SqlDb.DbState) Driver.SqlCons.step; return 0
  | ["autoinc"] => Driver.loop stdin stdout ({} : TurVerif.AutoInc.St) Driver.AutoInc.step; return 0
  | ["freelist"] => Driver.loop stdin stdout Driver.Freelist.init Driver.Freelist.step; return 0
  | ["sieve"] => Driver.loop stdin stdout (none : Option TurVerif.Sieve.Cache) Driver.Sieve.step; return 0
  | ["mvcc"] => Driver.loop stdin stdout ({} : Driver.Mvcc.S) Driver.Mvcc.step; return 0
  | ["undo"] => Driver.loop stdin stdout ({} : TurVerif.Undo.Eng) Driver.Undo.step; return 0
  | ["commit"] => Driver.loop stdin stdout ({} : Driver.Commit.St) Driver.Commit.step; return 0
  | ["catalog"] => Driver.loop stdin stdout () Driver.Catalog.step; return 0
  | ["dec"] => Driver.Dec.run stdin stdout ({} : Driver.Dec.St); return 0
  | ["lru"] => Driver.loop stdin stdout (TurVerif.Lru.new 8 : TurVerif.Lru.Lru Nat) Driver.Lru.step; return 0
  | ["pagelog"] => Driver.loop stdin stdout ({} : TurVerif.PageLog.St) Driver.PageLog.step; return 0
  | _ => IO.eprintln "usage: tvmodel <family>"; return 2
