import TurVerif.Model.SqlDml
import Driver.SqlDb
/-
Line protocol of family `sqldml` (C05/C06): the relational spec `TurVerif.SqlDb` and the M-code
tombstone store `TurVerif.SqlDml` run in lock-step on the same statements.

  reset | create <t> <cols> <checks> <uniques> <fks> | dump <t> | valid | nextauto <t> | query <q>
      as in family `sqldb` (`create` also creates an empty store)
  stmt <sexpr>
      -> <spec result> | <mcode result> | <mcode COUNT(*) header> | <mcode visible rows> | <why> | <cells before> <cells after> <dead selected>
         cells        : number of B-tree records (live + tombstones) of the table in the M-code store;
                        dead selected = tombstones matched by the statement's WHERE (all, for TRUNCATE)
         why          : first constraint class the spec's would-be post-state violates
                        (pknull notnull check pk-extra pk-intra unique-extra unique-intra none eval missing;
                        extra = clash with a row the statement does not write, intra = only among its own rows) – used in signatures only
         spec result  : affected <n> <rows> | done | err <class>
         mcode result : ok <affected> <dead slots selected> | err <row index> | evalerr | na
  resync <t> <count> <row>*        both models := exactly these rows (no validation), all live,
                                   header count := <count>
-/
namespace Driver.SqlDml
open TurVerif.Sql TurVerif.SqlDb TurVerif.SqlDml Driver Driver.Sql Driver.SqlDb

structure St where
  db : DbState := {}
  stores : List (String × TStore) := []
  deriving Inhabited

def St.store (s : St) (n : String) : TStore := ((s.stores.find? (·.1 == n)).map (·.2)).getD {}

def St.setStore (s : St) (n : String) (ts : TStore) : St :=
  { s with stores := (s.stores.filter (·.1 != n)) ++ [(n, ts)] }

def showM : MRes → String
  | .ok n d => s!"ok {n} {d}"
  | .err k => s!"err {k}"
  | .evalErr => "evalerr"

def stmtTable : Stmt → Option String
  | .insert t _ _ | .update t _ _ | .delete t _ | .truncate t => some t
  | _ => none

def mStep (t : TableSt) (ts : TStore) : Stmt → TStore × MRes
  | .insert _ cols rows => mInsert t cols rows ts
  | .update _ sets whr => mUpdate t sets whr ts
  | .delete _ whr => mDelete t whr ts
  | .truncate _ => mTruncate ts
  | _ => (ts, .evalErr)

/-- does some row written by the statement clash on key `ix` with a row the statement does not
write (`extra`), or only with another row written by the same statement (`intra`)? -/
def clashKind (ix : List Nat) (kept written : List Row) : String :=
  if written.any (fun r => !keyHasNull (keyOf r ix) && kept.any (fun r' => rowSame (keyOf r ix) (keyOf r' ix)))
  then "extra" else "intra"

/-- which constraint class the would-be table content (`kept ++ written`) violates first (for
signatures only) -/
def whyRows (t : TableSt) (kept written : List Row) : String :=
  let rows := kept ++ written
  let pkIx := idxOf (·.pk) t.cols
  if rows.any (fun r => (t.cols.zipIdx).any (fun (c, i) => c.pk && (r.getD i .null).isNull)) then "pknull"
  else if !rows.all (notNullOk t) then "notnull"
  else if (match rowsCheckOk t rows with | .ok true => false | _ => true) then "check"
  else if !pkIx.isEmpty && !uniqueOk pkIx rows then s!"pk-{clashKind pkIx kept written}"
  else match (uniqueSets t).find? (fun ix => !uniqueOk ix rows) with
    | some ix => s!"unique-{clashKind ix kept written}"
    | none => "none"

def why (s : DbState) : Stmt → String
  | .insert tn cols rows => match s.find tn with
    | none => "missing"
    | some t => match buildInsertRows t cols rows t.nextAuto with
      | .error _ => "eval"
      | .ok (nr, _) => whyRows t t.rows nr
  | .update tn sets whr => match s.find tn with
    | none => "missing"
    | some t => match updateRows sets whr t.rows with
      | .error _ => "eval"
      | .ok (_, written) => whyRows t (t.rows.filter (fun r => !sel whr r)) written
  | .delete tn _ | .truncate tn => if (s.find tn).isSome then "none" else "missing"
  | _ => "none"

/-- number of tombstones the statement's row selection matches (TRUNCATE: all tombstones) -/
def deadOf (t : TableSt) (ts : TStore) : Stmt → Nat
  | .update _ _ whr | .delete _ whr => deadReached t whr ts
  | .truncate _ => (ts.slots.filter (·.dead)).length
  | _ => 0

def step (s : St) (ws : List String) : St × String :=
  match ws with
  | ["reset"] => ({}, "ok")
  | "create" :: n :: _ =>
    let (db', r) := Driver.SqlDb.step s.db ws
    if r == "ok" then (({ s with db := db' }).setStore n {}, r) else (s, r)
  | "stmt" :: rest =>
    match sxOfLine rest with
    | some [sx] => match stmt? sx with
      | some st =>
        let (db', r) := TurVerif.SqlDb.step s.db st
        match stmtTable st with
        | some tn =>
          match s.db.find tn with
          | some t =>
            let (ts', mr) := mStep t (s.store tn) st
            (({ s with db := db' }).setStore tn ts',
              s!"{showRes r} | {showM mr} | {countStar ts'} | {showRows (.ok (visible ts'))} | {why s.db st} | {(s.store tn).slots.length} {ts'.slots.length} {deadOf t (s.store tn) st}")
          | none => ({ s with db := db' }, s!"{showRes r} | na | 0 | ok 0  | missing | 0 0 0")
        | none => ({ s with db := db' }, s!"{showRes r} | na | 0 | ok 0  | none | 0 0 0")
      | none => (s, "bad-op")
    | _ => (s, "bad-op")
  | "resync" :: n :: c :: rest =>
    match c.toNat?, sxOfLine rest, s.db.find n with
    | some cnt, some sxs, some t =>
      match mapM? row? sxs with
      | some rows =>
        (({ s with db := s.db.put { t with rows := rows } }).setStore n
            { slots := rows.map (fun r => { row := r }), rowCount := cnt }, "ok")
      | none => (s, "bad-op")
    | _, _, _ => (s, "bad-op")
  | _ =>
    let (db', r) := Driver.SqlDb.step s.db ws
    ({ s with db := db' }, r)

end Driver.SqlDml
