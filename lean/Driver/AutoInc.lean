import TurVerif.Model.AutoInc
import Driver.Util
/- Line protocol, family `autoinc` (C12):
  `reset <uniq 0|1>`; `insert <cell>…` with cell = `N` (NULL id) | `<int>` (explicit id), suffix `!`
  = the row violates another constraint; `delete <v>`; `begin|commit|rollback|reopen`;
  `truncate <restart 0|1>`; `setlive <v,…|->` (resynchronise).
  Response: `<ok|err> gen=<ids in row order|-> live=<sorted values|-> header=<n>` -/
namespace Driver.AutoInc
open TurVerif.AutoInc Driver

def cell? (w : String) : Option Cell :=
  let bad := w.endsWith "!"
  let body := if bad then (w.dropEnd 1).toString else w
  if body == "N" then some { id := none, bad := bad }
  else (parseInt body).map (fun i => { id := some i, bad := bad })

def cells? : List String → Option (List Cell)
  | [] => some []
  | w :: ws => match cell? w, cells? ws with
    | some c, some cs => some (c :: cs)
    | _, _ => none

def insSorted (x : Int) : List Int → List Int
  | [] => [x]
  | y :: ys => if x ≤ y then x :: y :: ys else y :: insSorted x ys

def sortInts (l : List Int) : List Int := l.foldr insSorted []

def showInts (l : List Int) : String :=
  if l.isEmpty then "-" else ",".intercalate (l.map toString)

def render (s : St) (r : Resp) : String :=
  s!"{if r.ok then "ok" else "err"} gen={showInts r.generated} live={showInts (sortInts s.live)} header={s.header}"

def op? : List String → Option Op
  | "insert" :: cells => (cells? cells).map .insert
  | ["delete", v] => (parseInt v).map .delete
  | ["begin"] => some .begin
  | ["commit"] => some .commit
  | ["rollback"] => some .rollback
  | ["reopen"] => some .reopen
  | ["truncate", "0"] => some (.truncate false)
  | ["truncate", "1"] => some (.truncate true)
  | _ => none

def step (s : St) (ws : List String) : St × String :=
  match ws with
  | ["reset", "1"] => ({ uniq := true }, "ok")
  | ["reset", "0"] => ({ uniq := false }, "ok")
  | ["setlive", l] =>
    -- resynchronisation of the live values with the engine's dump (header and ghosts untouched)
    if l == "-" then ({ s with live := [] }, "ok") else
    match (l.splitOn ",").foldr (fun w acc => match parseInt w, acc with
        | some i, some r => some (i :: r) | _, _ => none) (some []) with
    | some vs => ({ s with live := vs }, "ok")
    | none => (s, "bad-op")
  | _ => match op? ws with
    | some o => let (s', r) := TurVerif.AutoInc.step s o; (s', render s' r)
    | none => (s, "bad-op")

end Driver.AutoInc
