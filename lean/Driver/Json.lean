import TurVerif.Model.Json
import Driver.Util
/-!
Line protocol for the JSON / JSONB models (family `json`).

J values in prefix form, one word per node:
  `N` null, `T`/`F` bool, `#<16 hex>` number (f64 bits), `S<hex|->` string (UTF-8 bytes),
  `A<n>` followed by n values, `O<n>` followed by n × (`K<hex|->` value).
Reader results: `ok ..` / `err` / `oob`; option: `none` / `some <V>`; V = `N` `T` `F` `#bits`
  `S<hex|->` `A<doc hex>` `O<doc hex>`.

ops
  parse <text hex> (<lexeme hex> <16 hex bits | x>)*   -> `<rust-model result> | <spec result>`
        result = `ok <consumed> <J>` | `err` | `miss` | `fuel`
  build <J>            -> hex of toJsonb
  norm <J>             -> J
  decode <hex>         -> ok <J> | err | oob
  get|ovget <hex> <key hex>
  aget|ovaget <hex> <idx>
  path|ovpath <hex> <key hex>*
  asvalue <hex> ; alen <hex> ; olen <hex> ; aitem <hex> <idx> ; oitem <hex> <idx>
  multi <hex> <op>*    -> results joined by ` ; ` (ops: see `readerOp`)
All reader ops first apply `JsonbView::new` (error when the buffer has fewer than 4 bytes).
-/
namespace Driver.Json
open TurVerif.Jsonb TurVerif.Json

def hexNat (s : String) : Option Nat :=
  s.toList.foldl (fun acc c => match acc, Driver.hexVal c with
    | some a, some d => some (a * 16 + d)
    | _, _ => none) (some 0)

def hex64 (n : Nat) : String :=
  String.ofList ((List.range 16).reverse.map fun i => Driver.hexDigit (n / 16 ^ i % 16))

def bytesArg (s : String) : Option (List Nat) := Driver.bytesOfHex s

/-- parse one J from the word list; returns the value and the remaining words -/
def readJ : Nat → List String → Option (J × List String)
  | 0, _ => none
  | _, [] => none
  | fuel + 1, w :: rest =>
    if w == "N" then some (.null, rest)
    else if w == "T" then some (.bool true, rest)
    else if w == "F" then some (.bool false, rest)
    else if w.startsWith "#" then
      if w.length ≠ 17 then none else (hexNat (w.drop 1).toString).map fun n => (.num n, rest)
    else if w.startsWith "S" then (bytesArg (w.drop 1).toString).map fun b => (.str b, rest)
    else if w.startsWith "A" then
      match (w.drop 1).toString.toNat? with
      | none => none
      | some n =>
        let rec elems : Nat → List String → List J → Option (List J × List String)
          | 0, ws, acc => some (acc.reverse, ws)
          | k + 1, ws, acc => match readJ fuel ws with
            | some (v, ws') => elems k ws' (v :: acc)
            | none => none
        (elems n rest []).map fun (xs, ws) => (.arr xs, ws)
    else if w.startsWith "O" then
      match (w.drop 1).toString.toNat? with
      | none => none
      | some n =>
        let rec members : Nat → List String → List KV → Option (List KV × List String)
          | 0, ws, acc => some (acc.reverse, ws)
          | k + 1, kw :: ws, acc =>
            if kw.startsWith "K" then
              match bytesArg (kw.drop 1).toString, readJ fuel ws with
              | some key, some (v, ws') => members k ws' ((key, v) :: acc)
              | _, _ => none
            else none
          | _ + 1, [], _ => none
        (members n rest []).map fun (kvs, ws) => (.obj kvs, ws)
    else none

partial def showJ : J → List String
  | .null => ["N"]
  | .bool true => ["T"]
  | .bool false => ["F"]
  | .num n => ["#" ++ hex64 n]
  | .str s => ["S" ++ Driver.hexOrDash s]
  | .arr xs => ("A" ++ toString xs.length) :: xs.flatMap showJ
  | .obj kvs => ("O" ++ toString kvs.length) ::
      kvs.flatMap fun (k, v) => ("K" ++ Driver.hexOrDash k) :: showJ v

def joinW (ws : List String) : String := " ".intercalate ws

def showV : V → String
  | .null => "N"
  | .bool true => "T"
  | .bool false => "F"
  | .num n => "#" ++ hex64 n
  | .str s => "S" ++ Driver.hexOrDash s
  | .arr d => "A" ++ Driver.hexOrDash d
  | .obj d => "O" ++ Driver.hexOrDash d

def showRes {α : Type} (f : α → String) : Res α → String
  | .ok a => "ok " ++ f a
  | .err => "err"
  | .oob => "oob"

def showOptV : Option V → String
  | none => "none"
  | some v => "some " ++ showV v

/-- number table from `lexeme value` word pairs -/
def readTable : List String → List (List Nat × Option Nat) → Option (List (List Nat × Option Nat))
  | [], acc => some acc
  | [_], _ => none
  | l :: v :: rest, acc =>
    match bytesArg l with
    | none => none
    | some lex =>
      if v == "x" then readTable rest ((lex, none) :: acc)
      else if v.length ≠ 16 then none
      else match hexNat v with
        | some n => readTable rest ((lex, some n) :: acc)
        | none => none

def lookupNum (tbl : List (List Nat × Option Nat)) (lex : List Nat) : Option (Option Nat) :=
  match tbl.find? (fun p => p.1 == lex) with
  | some p => some p.2
  | none => none

def allBytes (bs : List (Option (List Nat))) : Option (List (List Nat)) :=
  bs.foldr (fun b acc => match b, acc with
    | some x, some xs => some (x :: xs)
    | _, _ => none) (some [])

def keysArg (s : String) : Option (List (List Nat)) :=
  if s.isEmpty then some [] else allBytes ((s.splitOn ",").map bytesArg)

/-- one reader op on an already decoded buffer: `d` decode, `v` asvalue, `al`, `ol`,
`g:<key>` get, `G:<key>` jsonb_get, `a:<i>` array_get, `A:<i>` jsonb_array_get,
`p:<k>,<k>..` get_path, `P:..` jsonb_get_path, `i:<i>` array item, `o:<i>` object item -/
def readerOp (b : List Nat) (op : String) : String :=
  let arg := (op.drop 2).toString
  if op == "d" then showRes (fun v => joinW (showJ v)) (fromJsonb b)
  else if op == "v" then showRes showV ((viewNew b).bind asValue)
  else if op == "al" then showRes toString ((viewNew b).bind arrayLen)
  else if op == "ol" then showRes toString ((viewNew b).bind objectLen)
  else if op.startsWith "g:" then
    match bytesArg arg with
    | some key => showRes showOptV ((viewNew b).bind fun v => get v key)
    | none => "bad-op"
  else if op.startsWith "G:" then
    match bytesArg arg with
    | some key => showRes showOptV (ovGet b key)
    | none => "bad-op"
  else if op.startsWith "a:" then
    match arg.toNat? with
    | some i => showRes showOptV ((viewNew b).bind fun v => arrayGet v i)
    | none => "bad-op"
  else if op.startsWith "A:" then
    match arg.toNat? with
    | some i => showRes showOptV (ovArrayGet b i)
    | none => "bad-op"
  else if op.startsWith "p:" then
    match keysArg arg with
    | some keys => showRes showOptV ((viewNew b).bind fun v => getPath v keys)
    | none => "bad-op"
  else if op.startsWith "P:" then
    match keysArg arg with
    | some keys => showRes showOptV (ovGetPath b keys)
    | none => "bad-op"
  else if op.startsWith "i:" then
    match arg.toNat? with
    | some i => showRes showV ((viewNew b).bind fun v => arrayItem v i)
    | none => "bad-op"
  else if op.startsWith "o:" then
    match arg.toNat? with
    | some i =>
      showRes (fun (kv : List Nat × V) => "K" ++ Driver.hexOrDash kv.1 ++ " " ++ showV kv.2)
        ((viewNew b).bind fun v => objectItem v i)
    | none => "bad-op"
  else "bad-op"

def step (_ : Unit) (ws : List String) : Unit × String :=
  let r : String :=
    match ws with
    | "parse" :: t :: tbl =>
      match bytesArg t, readTable tbl [] with
      | some text, some table =>
        let numOf := lookupNum table
        let a := match rparse numOf text with
          | .ok v rest => s!"ok {text.length - rest.length} " ++ joinW (showJ v)
          | .err => "err"
          | .numMiss => "miss"
          | .fuel => "fuel"
        let b := match parseJ numOf text with
          | .ok v _ => "ok " ++ joinW (showJ v)
          | .err => "err"
          | .numMiss => "miss"
          | .fuel => "fuel"
        a ++ " | " ++ b
      | _, _ => "bad-op"
    | "build" :: jw =>
      match readJ (jw.length + 1) jw with
      | some (v, []) => Driver.hexOfBytes (toJsonb v)
      | _ => "bad-op"
    | "norm" :: jw =>
      match readJ (jw.length + 1) jw with
      | some (v, []) => joinW (showJ (norm v))
      | _ => "bad-op"
    | "multi" :: h :: ops =>
      match bytesArg h with
      | some b => " ; ".intercalate (ops.map (readerOp b))
      | none => "bad-op"
    | ["decode", h] =>
      match bytesArg h with
      | some b => showRes (fun v => joinW (showJ v)) (fromJsonb b)
      | none => "bad-op"
    | ["get", h, k] =>
      match bytesArg h, bytesArg k with
      | some b, some key => showRes showOptV ((viewNew b).bind fun v => get v key)
      | _, _ => "bad-op"
    | ["ovget", h, k] =>
      match bytesArg h, bytesArg k with
      | some b, some key => showRes showOptV (ovGet b key)
      | _, _ => "bad-op"
    | ["aget", h, i] =>
      match bytesArg h, i.toNat? with
      | some b, some idx => showRes showOptV ((viewNew b).bind fun v => arrayGet v idx)
      | _, _ => "bad-op"
    | ["ovaget", h, i] =>
      match bytesArg h, i.toNat? with
      | some b, some idx => showRes showOptV (ovArrayGet b idx)
      | _, _ => "bad-op"
    | "path" :: h :: ks =>
      match bytesArg h, allBytes (ks.map bytesArg) with
      | some b, some keys => showRes showOptV ((viewNew b).bind fun v => getPath v keys)
      | _, _ => "bad-op"
    | "ovpath" :: h :: ks =>
      match bytesArg h, allBytes (ks.map bytesArg) with
      | some b, some keys => showRes showOptV (ovGetPath b keys)
      | _, _ => "bad-op"
    | ["asvalue", h] =>
      match bytesArg h with
      | some b => showRes showV ((viewNew b).bind asValue)
      | none => "bad-op"
    | ["alen", h] =>
      match bytesArg h with
      | some b => showRes toString ((viewNew b).bind arrayLen)
      | none => "bad-op"
    | ["olen", h] =>
      match bytesArg h with
      | some b => showRes toString ((viewNew b).bind objectLen)
      | none => "bad-op"
    | ["aitem", h, i] =>
      match bytesArg h, i.toNat? with
      | some b, some idx => showRes showV ((viewNew b).bind fun v => arrayItem v idx)
      | _, _ => "bad-op"
    | ["oitem", h, i] =>
      match bytesArg h, i.toNat? with
      | some b, some idx =>
        showRes (fun (kv : List Nat × V) => "K" ++ Driver.hexOrDash kv.1 ++ " " ++ showV kv.2)
          ((viewNew b).bind fun v => objectItem v idx)
      | _, _ => "bad-op"
    | _ => "bad-op"
  ((), r)

end Driver.Json
