import TurVerif.Model.Sieve
import Driver.Util
/-
Line protocol, family `sieve` (state = Option Cache):
  new <total_capacity> nobudget | new <total_capacity> <limit> <other_used>   -> ok | err
  other <bytes>                       total bytes held by the other pools      -> ok
  get <f> <p>                         -> hit|miss  <tail>
  goi <f> <p> ok|fail <val>           -> hit|inserted|errBudget|errAlloc|errFull|errInit|broken:<w> <tail>
  unpin|markdirty|cleardirty <f> <p>  -> ok <tail>
  write <f> <p> <val>                 -> ok <tail>
  read <f> <p>                        -> <val>|none <tail>
  dirty <f> <p>                       -> true|false <tail>
  evictall                            -> <n>|broken  (no tail)
  clear | len | used                  -> ok | <n> | <cacheUsed or ->
<tail> = cacheUsed len | hand cap | file:page:visited:dirty:pin:data … | file:page:slot … (index sorted)
for the shard of the key.
-/
namespace Driver.Sieve
open TurVerif.Sieve

def b01 (b : Bool) : String := if b then "1" else "0"

def keyLt (a b : Key × Nat) : Bool :=
  a.1.file < b.1.file || (a.1.file == b.1.file && a.1.page < b.1.page)

def insertSorted (x : Key × Nat) : List (Key × Nat) → List (Key × Nat)
  | [] => [x]
  | y :: r => if keyLt x y then x :: y :: r else y :: insertSorted x r

def shardDump (sh : Shard) : String :=
  let es := sh.entries.map fun e =>
    s!"{e.key.file}:{e.key.page}:{b01 e.visited}:{b01 e.dirty}:{e.pin}:{e.data}"
  let ix := (sh.index.foldr insertSorted []).map fun (k, v) => s!"{k.file}:{k.page}:{v}"
  s!"{sh.hand} {sh.cap} | {String.intercalate " " es} | {String.intercalate " " ix}"

def used (c : Cache) : String := match c.budget with | some b => toString b.cacheUsed | none => "-"

def tail (c : Cache) (k : Key) : String :=
  s!"{used c} {c.len} | {shardDump (c.shard (shardIndex k))}"

def showG : GRes → String
  | .hit => "hit" | .inserted => "inserted" | .errBudget => "errBudget" | .errAlloc => "errAlloc"
  | .errFull => "errFull" | .errInit => "errInit" | .broken w => "broken:" ++ w

def step (st : Option Cache) (ws : List String) : Option Cache × String :=
  match ws, st with
  | ["new", t, "nobudget"], _ =>
    match t.toNat? with
    | some t => match Cache.new t none with
      | some c => (some c, "ok") | none => (none, "err")
    | none => (st, "bad-op")
  | ["new", t, l, o], _ =>
    match t.toNat?, l.toNat?, o.toNat? with
    | some t, some l, some o =>
      match Cache.new t (some ⟨max l MIN_BUDGET_FLOOR, 0, o⟩) with
      | some c => (some c, "ok") | none => (none, "err")
    | _, _, _ => (st, "bad-op")
  | ["other", o], some c =>
    match o.toNat? with
    | some o => (some { c with budget := c.budget.map fun b => { b with otherUsed := o } }, "ok")
    | none => (st, "bad-op")
  | [op, f, p], some c =>
    match f.toNat?, p.toNat? with
    | some f, some p =>
      let k : Key := ⟨f, p⟩
      match op with
      | "get" => let (c', h) := c.get k; (some c', (if h then "hit " else "miss ") ++ tail c' k)
      | "unpin" => let c' := c.unpin k; (some c', "ok " ++ tail c' k)
      | "markdirty" => let c' := c.markDirty k; (some c', "ok " ++ tail c' k)
      | "cleardirty" => let c' := c.clearDirty k; (some c', "ok " ++ tail c' k)
      | "read" => (st, (match c.read k with | some v => toString v | none => "none") ++ " " ++ tail c k)
      | "dirty" => (st, (if c.isDirty k then "true " else "false ") ++ tail c k)
      | _ => (st, "bad-op")
    | _, _ => (st, "bad-op")
  | ["write", f, p, v], some c =>
    match f.toNat?, p.toNat?, v.toNat? with
    | some f, some p, some v => let c' := c.write ⟨f, p⟩ v; (some c', "ok " ++ tail c' ⟨f, p⟩)
    | _, _, _ => (st, "bad-op")
  | ["goi", f, p, i, v], some c =>
    match f.toNat?, p.toNat?, v.toNat? with
    | some f, some p, some v =>
      if i = "ok" ∨ i = "fail" then
        let (c', r) := c.getOrInsert ⟨f, p⟩ (i == "ok") v
        (some c', showG r ++ " " ++ tail c' ⟨f, p⟩)
      else (st, "bad-op")
    | _, _, _ => (st, "bad-op")
  | ["evictall"], some c =>
    match c.evictAllUnpinned with
    | some (c', n) => (some c', toString n)
    | none => (st, "broken")
  | ["clear"], some c => (some c.clear, "ok")
  | ["len"], some c => (st, toString c.len)
  | ["used"], some c => (st, used c)
  | _, _ => (st, "bad-op")

end Driver.Sieve
