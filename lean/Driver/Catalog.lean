import TurVerif.Model.Catalog
import Driver.Util
/-! line protocol for the catalog codec model (family `catalog`).
  deser <hex>     canonical text of `deserialize bytes`, or `err`
  reser <hex>     hex of `serialize (deserialize bytes)`, or `err`
  load <hex>      canonical text of `load file`, or `err`
  file <hex> <dflt>   hex of `fileOf (deserialize bytes) dflt`, or `err`
canonical text: S(id,name,[T(id,name,[C(name,ty,[k..],dflt,maxlen)..],pk,[I(name,[c(name,desc)..],u,h)..],toast)..])
with names as hex (`-` = empty), absent options as `~`. -/
namespace Driver.Catalog
open TurVerif.Catalog Driver

def hx (b : Bytes) : String := hexOrDash b

def optS (o : Option String) : String := match o with | some s => s | none => "~"

def list (xs : List String) : String := "[" ++ ",".intercalate xs ++ "]"

def showConstraint : Constraint → String
  | .notNull => "nn" | .primaryKey => "pk" | .unique => "uq" | .autoIncrement => "ai"
  | .foreignKey t c od ou => s!"fk({hx t},{hx c},{od},{ou})"
  | .check e => s!"ck({hx e})"

def showColumn (c : Column) : String :=
  s!"C({hx c.name},{c.dataType},{list (c.constraints.map showConstraint)},{optS (c.dflt.map hx)},{optS (c.maxLen.map toString)})"

def showIndex (i : Index) : String :=
  let cols := i.cols.map (fun c => s!"c({hx c.name},{flag c.desc})")
  s!"I({hx i.name},{list cols},{flag i.unique},{flag i.hnsw})"

def showTable (t : Table) : String :=
  s!"T({t.id},{hx t.name},{list (t.columns.map showColumn)},{optS (t.pk.map (fun l => list (l.map hx)))},{list (t.indexes.map showIndex)},{optS (t.toast.map toString)})"

def showSchema (s : Schema) : String := s!"S({s.id},{hx s.name},{list (s.tables.map showTable)})"

def showCat (c : Option (List Schema)) : String :=
  match c with
  | none => "err"
  | some l => "ok " ++ list (l.map showSchema)

def step (_ : Unit) : List String → Unit × String
  | ["deser", h] => match bytesOfHex h with
    | some b => ((), showCat (deserialize b))
    | none => ((), "bad-op")
  | ["reser", h] => match bytesOfHex h with
    | some b => match deserialize b with
      | some c => ((), "ok " ++ hexOrDash (serialize c))
      | none => ((), "err")
    | none => ((), "bad-op")
  | ["load", h] => match bytesOfHex h with
    | some b => ((), showCat (load b))
    | none => ((), "bad-op")
  | ["file", h, d] => match bytesOfHex h, d.toNat? with
    | some b, some d => match deserialize b with
      | some c => ((), "ok " ++ hexOrDash (fileOf c d))
      | none => ((), "err")
    | _, _ => ((), "bad-op")
  | _ => ((), "bad-op")

end Driver.Catalog
