import TurVerif.Model.SqlSub
import Driver.Sql
/-! line protocol `sqlsub`: reference semantics with subqueries.
  reset | table NAME NCOLS | row NAME (v ...) | top <sexpr>
  sexpr:  S ::= (base E) | (snot S) | (sbin OP S S) | (sisnull S) | (snotnull S)
              | (insub S Q) | (notinsub S Q) | (exists Q) | (notexists Q) | (scalar Q)
          Q ::= (sel TABLE S ITEM)      ITEM ::= (expr S) | (agg FN S) | (countstar)
          TOP ::= (top FROM S (S ...))  FROM ::= (t NAME) | (derived NAME E|(none) (E ...))
  E = expression grammar of the `sql` family.
-/
namespace Driver.SqlSub
open TurVerif.Sql TurVerif.SqlSub Driver Driver.Sql

def aggFn? : String → Option AggFn
  | "count" => some .count | "sum" => some .sum | "avg" => some .avg
  | "min" => some .min | "max" => some .max | _ => none

mutual
partial def sexpr? (sx : SX) : Option SExpr :=
  match sx with
  | .list [.atom "base", e] => (expr? e).map .base
  | .list [.atom "snot", e] => (sexpr? e).map .not
  | .list [.atom "sbin", .atom op, a, b] =>
    match binop? op, sexpr? a, sexpr? b with
    | some o, some x, some y => some (.bin o x y)
    | _, _, _ => none
  | .list [.atom "sisnull", e] => (sexpr? e).map (.isNull · false)
  | .list [.atom "snotnull", e] => (sexpr? e).map (.isNull · true)
  | .list [.atom "insub", e, q] =>
    match sexpr? e, squery? q with
    | some x, some y => some (.inSub x y false)
    | _, _ => none
  | .list [.atom "notinsub", e, q] =>
    match sexpr? e, squery? q with
    | some x, some y => some (.inSub x y true)
    | _, _ => none
  | .list [.atom "exists", q] => (squery? q).map (.exists · false)
  | .list [.atom "notexists", q] => (squery? q).map (.exists · true)
  | .list [.atom "scalar", q] => (squery? q).map .scalar
  | _ => none
partial def squery? (sx : SX) : Option SQuery :=
  match sx with
  | .list [.atom "sel", .atom t, w, it] =>
    match sexpr? w, sitem? it with
    | some x, some y => some (.sel t x y)
    | _, _ => none
  | _ => none
partial def sitem? (sx : SX) : Option SItem :=
  match sx with
  | .list [.atom "expr", e] => (sexpr? e).map .expr
  | .list [.atom "countstar"] => some .countStar
  | .list [.atom "agg", .atom f, e] =>
    match aggFn? f, sexpr? e with
    | some g, some x => some (.agg g x)
    | _, _ => none
  | _ => none
end

def sfrom? : SX → Option SFrom
  | .list [.atom "t", .atom n] => some (.table n)
  | .list [.atom "derived", .atom n, w, .list items] =>
    match optExpr? w, exprs? items with
    | some ow, some its => some (.derived n (ow.getD (.lit (.bool true))) its)
    | _, _ => none
  | _ => none

def top? : SX → Option STop
  | .list [.atom "top", f, w, .list items] =>
    match sfrom? f, sexpr? w, mapM? sexpr? items with
    | some a, some b, some c => some { frm := a, whr := b, items := c }
    | _, _, _ => none
  | _ => none

def fuel : Nat := 64

def step (db : Db) (ws : List String) : Db × String :=
  match ws with
  | ["reset"] => ([], "ok")
  | ["table", n, k] => match k.toNat? with
    | some c => (db.filter (fun t => t.name != n) ++ [{ name := n, ncols := c, rows := [] }], "ok")
    | none => (db, "bad-op")
  | "row" :: n :: rest =>
    match sxOfLine rest with
    | some [sx] => match row? sx with
      | some r => (db.map (fun t => if t.name == n then { t with rows := t.rows ++ [r] } else t), "ok")
      | none => (db, "bad-op")
    | _ => (db, "bad-op")
  | "top" :: rest =>
    match sxOfLine rest with
    | some [sx] => match top? sx with
      | some q => (db, showRows (runTop fuel db q))
      | none => (db, "bad-op")
    | _ => (db, "bad-op")
  | _ => (db, "bad-op")

end Driver.SqlSub
