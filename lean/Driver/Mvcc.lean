import TurVerif.Model.Mvcc
import Driver.Util
namespace Driver.Mvcc
open TurVerif.Mvcc TurVerif.Undo Driver

structure S where
  si : SI := {}
  eng : Multi := {}

def showOut : Out → String
  | .ok => "ok" | .err => "err" | .conflict => "conflict"

def keys : List Nat := List.range 12

def siRead (s : SI) (h : Nat) : String :=
  let items := keys.filterMap (fun k => (s.read h k).map (fun v => s!"{k}:{v}"))
  if items.isEmpty then "-" else ",".intercalate items

def cellNat : Cell → Nat
  | .int i => i.toNat
  | _ => 0

def engRead (m : Multi) : String :=
  let items := m.scan.map (fun (x : Cell × Cell) => (cellNat x.1, cellNat x.2))
  let sorted := items.toArray.qsort (fun a b => a.1 < b.1 || (a.1 == b.1 && a.2 < b.2)) |>.toList
  if sorted.isEmpty then "-" else ",".intercalate (sorted.map (fun x => s!"{x.1}:{x.2}"))

def step (s : S) (ws : List String) : S × String :=
  match ws with
  | ["reset"] => ({}, "ok")
  | ["op", hs, "begin"] => match hs.toNat? with
    | some h =>
      let (si', o) := s.si.step h .begin
      let (m', ok) := s.eng.on h (fun e => e.txnOp .begin none false)
      ({ si := si', eng := m' }, s!"si {showOut o} eng {if ok then "ok" else "err"}")
    | none => (s, "bad-op")
  | ["op", hs, "commit"] => match hs.toNat? with
    | some h =>
      let (si', o) := s.si.step h .commit
      let (m', ok) := s.eng.on h (fun e => e.txnOp .commit none false)
      ({ si := si', eng := m' }, s!"si {showOut o} eng {if ok then "ok" else "err"}")
    | none => (s, "bad-op")
  | ["op", hs, "rollback"] => match hs.toNat? with
    | some h =>
      let (si', o) := s.si.step h .rollback
      let (m', ok) := s.eng.on h (fun e => e.txnOp .rollback none true)
      ({ si := si', eng := m' }, s!"si {showOut o} eng {if ok then "ok" else "err"}")
    | none => (s, "bad-op")
  | ["op", hs, "ins", ks, vs] => match hs.toNat?, ks.toNat?, vs.toNat? with
    | some h, some k, some v =>
      let (si', _) := s.si.step h (.write k (some v))
      let (m', ok) := s.eng.on h (fun e => e.insert [.int k, .int v])
      ({ si := si', eng := m' }, s!"si aff1 eng {if ok then "aff1" else "err"}")
    | _, _, _ => (s, "bad-op")
  | ["op", hs, "upd", ks, vs] => match hs.toNat?, ks.toNat?, vs.toNat? with
    | some h, some k, some v =>
      let (si', n) := match s.si.read h k with
        | some _ => ((s.si.step h (.write k (some v))).1, 1)
        | none => (s.si, 0)
      let (m', n') := s.eng.on h (fun e => e.update 0 (.int k) 1 (.int v))
      ({ si := si', eng := m' }, s!"si aff{n} eng aff{n'}")
    | _, _, _ => (s, "bad-op")
  | ["op", hs, "del", ks] => match hs.toNat?, ks.toNat? with
    | some h, some k =>
      let (si', n) := match s.si.read h k with
        | some _ => ((s.si.step h (.write k none)).1, 1)
        | none => (s.si, 0)
      let (m', n') := s.eng.on h (fun e => e.delete 0 (.int k))
      ({ si := si', eng := m' }, s!"si aff{n} eng aff{n'}")
    | _, _ => (s, "bad-op")
  | ["op", hs, "read"] => match hs.toNat? with
    | some h => (s, s!"si {siRead s.si h} eng {engRead s.eng}")
    | none => (s, "bad-op")
  -- which handles have an open transaction with a pending write of key k (spec), and the newest
  -- committed value of k: used by the harness to classify a mismatch
  | ["explain", hs, ks] => match hs.toNat?, ks.toNat? with
    | some h, some k =>
      let pend := (List.range 4).filterMap (fun h' =>
        if h' = h then none else match s.si.txns h' with
          | some t => match ownWrite t.writes k with
            | some (some v) => some s!"{h'}:w{v}"
            | some none => some s!"{h'}:d"
            | none => none
          | none => none)
      let latest := match committedAt s.si.versions s.si.clock k with
        | some v => s!"{v}"
        | none => "-"
      let snap := match s.si.read h k with
        | some v => s!"{v}"
        | none => "-"
      (s, s!"pending {if pend.isEmpty then "-" else ",".intercalate pend} latest {latest} snap {snap} intxn {if (s.si.txns h).isSome then 1 else 0}")
    | _, _ => (s, "bad-op")
  | _ => (s, "bad-op")

end Driver.Mvcc
