/- S-expression reader for the line protocol (trusted parsing code). -/
namespace Driver

inductive SX where
  | atom (s : String)
  | list (l : List SX)
  deriving Repr, Inhabited

def sxTokens (s : String) : List String :=
  let rec go (cs : List Char) (cur : List Char) (acc : List String) : List String :=
    match cs with
    | [] => (if cur.isEmpty then acc else String.ofList cur.reverse :: acc).reverse
    | c :: rest =>
      if c == '(' || c == ')' then
        let acc := if cur.isEmpty then acc else String.ofList cur.reverse :: acc
        go rest [] (String.singleton c :: acc)
      else if c == ' ' || c == '\t' || c == '\n' || c == '\r' then
        let acc := if cur.isEmpty then acc else String.ofList cur.reverse :: acc
        go rest [] acc
      else go rest (c :: cur) acc
  go s.toList [] []

/-- parse a token list into a sequence of s-expressions; stack based, total -/
def sxParse (toks : List String) : Option (List SX) :=
  let rec go (toks : List String) (stack : List (List SX)) (cur : List SX) : Option (List SX) :=
    match toks with
    | [] => if stack.isEmpty then some cur.reverse else none
    | t :: rest =>
      if t == "(" then go rest (cur :: stack) []
      else if t == ")" then
        match stack with
        | [] => none
        | top :: stack' => go rest stack' (SX.list cur.reverse :: top)
      else go rest stack (SX.atom t :: cur)
  go toks [] []

def sxOfLine (ws : List String) : Option (List SX) :=
  sxParse (sxTokens (" ".intercalate ws))

end Driver
