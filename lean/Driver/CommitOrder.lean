import TurVerif.Model.CommitOrder
import Driver.Util
namespace Driver.CommitOrder
open TurVerif.CommitOrder

def step (_ : Unit) (ws : List String) : Unit × String :=
  match ws with
  | "run" :: a :: n :: sched =>
    match n.toNat?, sched.mapM (·.toNat?) with
    | some k, some sc =>
      let s := run (init (a == "1") k) sc
      let wal := if s.wal.isEmpty then "-" else ",".intercalate (s.wal.map toString)
      let stale := match replayed s with
        | some v => if v = s.page then 0 else 1
        | none => if s.page = 0 then 0 else 1
      ((), s!"wal {wal} page {s.page} quiescent {if quiescent s then 1 else 0} stale={stale}")
    | _, _ => ((), "bad-op")
  | _ => ((), "bad-op")

end Driver.CommitOrder
