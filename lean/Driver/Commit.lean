import TurVerif.Model.Commit
import Driver.Util
/-! line protocol for the page-level commit/crash/recovery model (family `commit`).
  reset
  init vol|dur <f> <p> <img>        baseline page images (state before the recorded trace)
  init wal <f> <p> <img>            a frame already in the WAL file (in the OS file and durable)
  ev mut|ww <f> <p> <img> | ev sync | ev msync <f> | ev trunc | ev ack     -> ok <number of events>
  rec kill|power <k> <f> <p>        image of page (f,p) after recovery from a crash after k events
  acked <k>                         acknowledged statements among the first k events -/
namespace Driver.Commit
open TurVerif.Commit

structure St where
  init : State := {}
  evs : Array Event := #[]

def nat? (s : String) : Option Nat := s.toNat?

def recAt (st : St) (kill : Bool) (k f p : Nat) : Nat :=
  let s := run st.init (st.evs.toList.take k)
  if kill then redo s.vol s.walOs f p else redo s.dur s.walDur f p

def step (st : St) : List String → St × String
  | ["reset"] => ({}, "ok")
  | ["init", what, f, p, i] =>
    match nat? f, nat? p, nat? i with
    | some f, some p, some i =>
      if what == "vol" then ({ st with init := { st.init with vol := setPg st.init.vol f p i } }, "ok")
      else if what == "dur" then ({ st with init := { st.init with dur := setPg st.init.dur f p i } }, "ok")
      else if what == "wal" then
        let fr : Frame := { file := f, page := p, img := i }
        ({ st with init := { st.init with walOs := st.init.walOs ++ [fr], walDur := st.init.walDur ++ [fr] } }, "ok")
      else (st, "bad-op")
    | _, _, _ => (st, "bad-op")
  | ["ev", kind, f, p, i] =>
    match nat? f, nat? p, nat? i with
    | some f, some p, some i =>
      if kind == "mut" then let e := st.evs.push (Event.mut f p i); ({ st with evs := e }, s!"ok {e.size}")
      else if kind == "ww" then let e := st.evs.push (Event.walWrite f p i); ({ st with evs := e }, s!"ok {e.size}")
      else (st, "bad-op")
    | _, _, _ => (st, "bad-op")
  | ["ev", "msync", f] =>
    match nat? f with
    | some f => let e := st.evs.push (Event.msync f); ({ st with evs := e }, s!"ok {e.size}")
    | none => (st, "bad-op")
  | ["ev", "sync"] => let e := st.evs.push Event.walSync; ({ st with evs := e }, s!"ok {e.size}")
  | ["ev", "trunc"] => let e := st.evs.push Event.truncate; ({ st with evs := e }, s!"ok {e.size}")
  | ["ev", "ack"] => let e := st.evs.push Event.ack; ({ st with evs := e }, s!"ok {e.size}")
  | ["rec", model, k, f, p] =>
    match nat? k, nat? f, nat? p with
    | some k, some f, some p =>
      if model == "kill" then (st, toString (recAt st true k f p))
      else if model == "power" then (st, toString (recAt st false k f p))
      else (st, "bad-op")
    | _, _, _ => (st, "bad-op")
  | ["acked", k] =>
    match nat? k with
    | some k => (st, toString (acked st.evs.toList k))
    | none => (st, "bad-op")
  | _ => (st, "bad-op")

end Driver.Commit
