import TurVerif.Model.Wal
import TurVerif.Model.Crc64
import Driver.Util
/-! line protocol for the `wal` family (property C03); see harness/src/engines/walfs.rs -/
namespace Driver.Wal
open TurVerif.Wal

structure St where
  w : Wal := create false false 0
  ops : List Op := []
  base : List (Nat × List Cell) := []

def nats (ws : List String) : Option (List Nat) := ws.mapM String.toNat?

def showFrame (f : Frame) : String := s!"{f.fileId}.{f.pageNo}.{f.dbSize}.{f.img}"
def showFrameS (f : Frame) : String := s!"{f.fileId}.{f.pageNo}.{f.dbSize}.{f.img}.s{f.salt}"
def showSFrame (f : SFrame) : String := s!"{f.fileId}.{f.pageNo}.{f.dbSize}.{f.img}"

def joinOr (xs : List String) (sep : String) : String :=
  if xs.isEmpty then "-" else sep.intercalate xs

/-- slot-wise classification of a segment file -/
def showSlots : List Cell → List String
  | a :: b :: c :: d :: rest =>
    (match decodeSlot false a b c d with
      | some f => if a == Cell.zero then "Z" else "F" ++ showFrameS f
      | none => "X") :: showSlots rest
  | [] => []
  | l => [s!"P{l.length}"]

def showDisk (d : List (Nat × List Cell)) : String :=
  joinOr (d.map (fun e => s!"{e.1}:{e.2.length}:" ++ joinOr (showSlots e.2) ",")) " "

def summary (w : Wal) : String :=
  s!"seq={w.seq} off={w.offset} fc={w.frameCount} files=" ++
    joinOr ((diskLive w).map (fun e => s!"{e.1}:{e.2.length}")) ","

def showRead : ReadRes → String
  | .absent => "none"
  | .img i => s!"img{i}"
  | .err => "err"
  | .oob => "oob"

def showRec (r : RecRes) (npages : Nat) : String :=
  match r with
  | .err => "err"
  | .ok s applied =>
    s!"n={applied.length} A=" ++ joinOr (applied.map showFrame) "," ++ s!" pc={s.pageCount} P=" ++
      joinOr ((List.range (npages + 4)).map (fun p => toString (s.get p))) ","

def showReads (w : Wal) (nfiles npages : Nat) : String :=
  joinOr ((List.range nfiles).flatMap (fun f => (List.range npages).map (fun p =>
    showRead (readPage w f p)))) ","

def parseFault : List String → Option (Option Fault)
  | ["-"] => some none
  | ["t", s, n] => do some (some (.trunc (← s.toNat?) (← n.toNat?)))
  | ["j", s, c] => do some (some (.junk (← s.toNat?) (← c.toNat?)))
  | ["z", s, a, b] => do some (some (.zero (← s.toNat?) (← a.toNat?) (← b.toNat?)))
  | _ => none

def quads : List Nat → Option (List (Nat × Nat × Nat × Nat))
  | [] => some []
  | a :: b :: c :: d :: rest => (quads rest).map (fun t => (a, b, c, d) :: t)
  | _ => none

def doOp (st : St) (op : Op) : St × String :=
  let w := step st.w op
  ({ st with w := w, ops := st.ops ++ [op] }, summary w)

/-- everything observed after damaging the saved directory content and reopening -/
def probe (st : St) (φ : Option Fault) (salt nfiles npages nper : Nat) : String :=
  let d := match φ with
    | some f => applyFault st.base f
    | none => st.base
  let w := openDisk st.w.fixed st.w.zfix d salt
  let all := showRec (recover w none Storage.fresh) npages
  let per := (List.range nper).map (fun f => s!"F{f}: " ++ showRec (recover w (some f) Storage.fresh) npages)
  let w2 := writeFrame w 0 1 npages 9000
  s!"{showDisk d} | {summary w} | ALL: {all} | " ++ String.join (per.map (· ++ " | ")) ++
    s!"RP={showReads w nfiles npages} | APP: {showDisk (disk w2)}"

def specProbe (st : St) (φ : Option Fault) : String :=
  let l := specLog st.ops
  let l := match φ with
    | some f => specFault l f
    | none => l
  joinOr ((validPrefix l).map showSFrame) ","

def step (st : St) : List String → St × String
  | ["create", fx, zf, salt] =>
    match nats [fx, zf, salt] with
    | some [fx, zf, s] =>
      let w := create (fx == 1) (zf == 1) s; ({ w := w, ops := [], base := [] }, summary w)
    | _ => (st, "bad-op")
  | ["w", f, p, d, i] =>
    match nats [f, p, d, i] with
    | some [f, p, d, i] => doOp st (.write f p d i)
    | _ => (st, "bad-op")
  | "b" :: ws :: rest =>
    match ws.toNat?, (nats rest).bind quads with
    | some ws, some fs => doOp st (.batch (ws == 1) fs)
    | _, _ => (st, "bad-op")
  | ["mode", m] =>
    match m.toNat? with
    | some m => doOp st (.setSync (m == 0))
    | none => (st, "bad-op")
  | ["sync"] => doOp st .sync
  | ["rot"] => doOp st .rotate
  | ["trunc"] => doOp st .truncate
  | ["reopen", s] =>
    match s.toNat? with
    | some s => doOp st (.reopen s)
    | none => (st, "bad-op")
  | ["rp", nf, np] =>
    match nf.toNat?, np.toNat? with
    | some nf, some np => (st, showReads st.w nf np)
    | _, _ => (st, "bad-op")
  | ["rec", np] =>
    match np.toNat? with
    | some np => (st, showRec (recover st.w none Storage.fresh) np)
    | none => (st, "bad-op")
  | ["dump"] => (st, showDisk (diskLive st.w) ++ s!" buf={st.w.buf.length}")
  | ["save"] => let d := disk st.w; ({ st with base := d }, showDisk d)
  | "probe" :: salt :: nf :: np :: nper :: fault =>
    match nats [salt, nf, np, nper], parseFault fault with
    | some [salt, nf, np, nper], some φ => (st, probe st φ salt nf np nper)
    | _, _ => (st, "bad-op")
  | "spec" :: fault =>
    match parseFault fault with
    | some φ => (st, specProbe st φ)
    | none => (st, "bad-op")
  | ["crc", h] =>
    match Driver.bytesOfHex h with
    | some bs => (st, toString (TurVerif.Crc64.crc bs).toNat)
    | none => (st, "bad-op")
  | ["crczeros", n] =>
    match n.toNat? with
    | some n => (st, toString (TurVerif.Crc64.crc (List.replicate n 0)).toNat)
    | none => (st, "bad-op")
  | _ => (st, "bad-op")

end Driver.Wal
