import TurVerif.Model.Undo
import Driver.Util
namespace Driver.Undo
open TurVerif.Undo Driver

/-- cells: `n` = NULL, `i<int>` = integer, `t<code>` = text with a numeric code -/
def cell? (s : String) : Option Cell :=
  if s == "n" then some .null
  else if s.startsWith "i" then (parseInt (s.drop 1).toString).map .int
  else if s.startsWith "t" then (s.drop 1).toString.toNat?.map .text
  else none

def cells? : List String → Option (List Cell)
  | [] => some []
  | x :: xs => match cell? x, cells? xs with
    | some c, some cs => some (c :: cs)
    | _, _ => none

def showCell : Cell → String
  | .null => "n"
  | .int i => s!"i{i}"
  | .text c => s!"t{c}"

def showRec (r : Rec) : String :=
  let fl := (if r.locked then 1 else 0) + (if r.deleted then 2 else 0)
  s!"{fl}:" ++ ",".intercalate (r.cells.map showCell)

def showIdx (ix : UIdx) : String :=
  -- canonical: sorted by printed key
  let items := ix.map (fun (x : Cell × Nat) => s!"{showCell x.1}>{x.2}")
  let sorted := items.toArray.qsort (· < ·) |>.toList
  if sorted.isEmpty then "-" else ",".intercalate sorted

def showState (e : Eng) : String :=
  let rows := (sortedKeys e.st.map).map (fun x => showRec x.2)
  let idx := e.uidx.map (fun (x : Nat × UIdx) => s!"{x.1}={showIdx x.2}")
  let sp := match e.st.txn with
    | none => "none"
    | some t => s!"{t.log.length}/" ++ ",".intercalate (t.sps.map (fun (x : String × Nat) => s!"{x.1}@{x.2}"))
  s!"count {e.count} txn {sp} rows {if rows.isEmpty then "-" else ";".intercalate rows} idx {if idx.isEmpty then "-" else " ".intercalate idx}"

def nats? : List String → Option (List Nat)
  | [] => some []
  | x :: xs => match x.toNat?, nats? xs with
    | some c, some cs => some (c :: cs)
    | _, _ => none

def step (e : Eng) (ws : List String) : Eng × String :=
  match ws with
  -- reset <pkcol|-> <unique cols...>
  | "reset" :: pk :: ucols =>
    match (if pk == "-" then some none else pk.toNat?.map some), nats? ucols with
    | some p, some us => ({ pkCol := p, uidx := us.map (fun c => (c, [])) }, "ok")
    | _, _ => (e, "bad-op")
  | "ins" :: cs => match cells? cs with
    | some c => let (e', ok) := e.insert c; (e', if ok then "aff 1" else "err constraint")
    | none => (e, "bad-op")
  | ["upd", wc, wv, sc, sv] => match wc.toNat?, cell? wv, sc.toNat?, cell? sv with
    | some a, some b, some c, some d =>
      if e.uidx.any (fun x => x.1 == c) then (e, "bad-op") else
      let (e', n) := e.update a b c d; (e', s!"aff {n}")
    | _, _, _, _ => (e, "bad-op")
  | ["del", wc, wv] => match wc.toNat?, cell? wv with
    | some a, some b => let (e', n) := e.delete a b; (e', s!"aff {n}")
    | _, _ => (e, "bad-op")
  | ["begin"] => let (e', ok) := e.txnOp .begin none false; (e', if ok then "ok" else "err")
  | ["commit"] => let (e', ok) := e.txnOp .commit none false; (e', if ok then "ok" else "err")
  | ["rollback"] => let (e', ok) := e.txnOp .rollback none true; (e', if ok then "ok" else "err")
  | ["savepoint", n] => let (e', ok) := e.txnOp (.savepoint n) none false; (e', if ok then "ok" else "err")
  | ["rollbackto", n] => let (e', ok) := e.txnOp (.rollbackTo n) (some n) true; (e', if ok then "ok" else "err")
  | ["release", n] => let (e', ok) := e.txnOp (.release n) none false; (e', if ok then "ok" else "err")
  -- handle dropped with an open transaction: abort_active_transaction = rollback when open
  | ["drop"] =>
    if e.inTxn then let (e', _) := e.txnOp .rollback none true; (e', "ok") else (e, "ok")
  | ["state"] => (e, showState e)
  | ["dump"] =>
    let rows := e.live.map (fun x => ",".intercalate (x.2.cells.map showCell))
    (e, if rows.isEmpty then "-" else ";".intercalate rows)
  | _ => (e, "bad-op")

end Driver.Undo
