import TurVerif.Model.PageLocks
import Driver.Util
import Driver.SExpr
namespace Driver.PageLocks
open TurVerif.PageLocks Driver

def op? : SX → Option Op
  | .list [.atom "r", .atom p] => p.toNat?.map .read
  | .list [.atom "w", .atom p] => p.toNat?.map .write
  | _ => none

def mapM? {α β} (f : α → Option β) : List α → Option (List β)
  | [] => some []
  | x :: xs => match f x, mapM? f xs with
    | some y, some ys => some (y :: ys)
    | _, _ => none

def prog? : SX → Option (List Op)
  | .list l => mapM? op? l
  | _ => none

def pcName : Pc → String
  | .idle => "idle" | .getOrCreate .. => "get_or_create" | .acquire .. => "acquire"
  | .waiting .. => "waiting" | .held .. => "held" | .release .. => "release" | .cleanup .. => "cleanup"

def pages (s : State) : List Nat :=
  (s.threads.filterMap (fun t => match t.pc with | .held p _ _ => some p | _ => none)).eraseDups

def showState (s : State) (tid : Nat) : String :=
  let pc := match s.threads[tid]? with | some t => pcName t.pc | none => "none"
  let safe := (pages s).all (pageSafe s)
  s!"pc {pc} map {s.map.length} safe {if safe then 1 else 0} quiescent {if quiescent s then 1 else 0}"

def step (s : State) (ws : List String) : State × String :=
  match ws with
  | "init" :: f :: rest =>
    match sxOfLine rest with
    | some progs => match mapM? prog? progs with
      | some ps => (init (f == "1") ps, "ok")
      | none => (s, "bad-op")
    | none => (s, "bad-op")
  | ["step", t] => match t.toNat? with
    | some tid => match TurVerif.PageLocks.step s tid with
      | some s' => (s', showState s' tid)
      | none => (s, "blocked " ++ showState s tid)
    | none => (s, "bad-op")
  | ["willblock", t] => match t.toNat? with
    -- would a step of `tid` now leave it waiting (acquire that cannot be granted)?
    | some tid => match TurVerif.PageLocks.step s tid with
      | some s' => match s'.threads[tid]? with
        | some th => (s, match th.pc with | .waiting .. => "1" | _ => "0")
        | none => (s, "0")
      | none => (s, "disabled")
    | none => (s, "bad-op")
  | _ => (s, "bad-op")

end Driver.PageLocks
