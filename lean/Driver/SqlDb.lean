import TurVerif.Model.SqlDb
import Driver.Sql
namespace Driver.SqlDb
open TurVerif.Sql TurVerif.SqlDb Driver Driver.Sql

def nats? : SX → Option (List Nat)
  | .list l => mapM? (fun x => match x with | .atom a => a.toNat? | _ => none) l
  | _ => none

def colDef? : SX → Option ColDef
  | .list [.atom n, nn, u, pk, ai, d] =>
    match bool01? nn, bool01? u, bool01? pk, bool01? ai, val? d with
    | some a, some b, some c, some e, some v =>
      some { name := n, notNull := a, unique := b, pk := c, autoInc := e, dflt := v }
    | _, _, _, _, _ => none
  | _ => none

def action? : SX → Option FkAction
  | .atom "cascade" => some .cascade
  | .atom "restrict" => some .restrict
  | _ => none

def fk? : SX → Option Fk
  | .list [cs, .atom p, ps, od, ou] =>
    match nats? cs, nats? ps, action? od, action? ou with
    | some a, some b, some c, some d => some { cols := a, parent := p, pcols := b, onDelete := c, onUpdate := d }
    | _, _, _, _ => none
  | _ => none

def sets? : List SX → Option (List (Nat × Expr))
  | [] => some []
  | .list [.atom i, e] :: rest => match i.toNat?, expr? e, sets? rest with
    | some n, some x, some r => some ((n, x) :: r)
    | _, _, _ => none
  | _ => none

def stmt? : SX → Option Stmt
  | .list [.atom "insert", .atom t, cols, .list rows] =>
    match nats? cols, mapM? (fun r => match r with | .list es => exprs? es | _ => none) rows with
    | some c, some rs => some (.insert t c rs)
    | _, _ => none
  | .list [.atom "update", .atom t, .list sets, whr] =>
    match sets? sets, optExpr? whr with
    | some s, some w => some (.update t s w)
    | _, _ => none
  | .list [.atom "delete", .atom t, whr] => (optExpr? whr).map (.delete t ·)
  | .list [.atom "truncate", .atom t] => some (.truncate t)
  | .list [.atom "begin"] => some .begin
  | .list [.atom "commit"] => some .commit
  | .list [.atom "rollback"] => some .rollback
  | .list [.atom "savepoint", .atom n] => some (.savepoint n)
  | .list [.atom "rollbackto", .atom n] => some (.rollbackTo n)
  | .list [.atom "release", .atom n] => some (.release n)
  | .list [.atom "droptable", .atom t] => some (.dropTable t)
  | .list [.atom "addcolumn", .atom t, c] => (colDef? c).map (.addColumn t ·)
  | .list [.atom "dropcolumn", .atom t, .atom i] => i.toNat?.map (.dropColumn t ·)
  | .list [.atom "renamecolumn", .atom t, .atom i, .atom n] => i.toNat?.map (.renameColumn t · n)
  | _ => none

def showRes : Res → String
  | .affected n rows => s!"affected {n} " ++ ";".intercalate (rows.map showRow)
  | .done => "done"
  | .err e => s!"err {showErr e}"

def step (s : DbState) (ws : List String) : DbState × String :=
  match ws with
  | ["reset"] => ({}, "ok")
  | "create" :: n :: rest =>
    match sxOfLine rest with
    | some [.list cols, .list checks, .list uniques, .list fks] =>
      match mapM? colDef? cols, exprs? checks, mapM? nats? uniques, mapM? fk? fks with
      | some cs, some chk, some us, some fs =>
        if (s.find n).isSome then (s, "err other") else
        ({ s with tables := s.tables ++ [{ name := n, cols := cs, checks := chk, uniques := us, fks := fs }] }, "ok")
      | _, _, _, _ => (s, "bad-op")
    | _ => (s, "bad-op")
  | "stmt" :: rest =>
    match sxOfLine rest with
    | some [sx] => match stmt? sx with
      | some st => let (s', r) := TurVerif.SqlDb.step s st; (s', showRes r)
      | none => (s, "bad-op")
    | _ => (s, "bad-op")
  | ["dump", n] => match s.find n with
    | some t => (s, showRows (.ok t.rows))
    | none => (s, "err missing")
  | ["nextauto", n] => match s.find n with
    | some t => (s, s!"ok {t.nextAuto}")
    | none => (s, "err missing")
  | ["valid"] => match dbValid s with
    | .ok b => (s, s!"ok {if b then 1 else 0}")
    | .error e => (s, s!"err {showErr e}")
  | "query" :: rest =>
    match sxOfLine rest with
    | some [sx] => match query? sx with
      | some q => (s, showRows (runQuery s.toDb q))
      | none => (s, "bad-op")
    | _ => (s, "bad-op")
  | "eval" :: _ => let (_, r) := Driver.Sql.step [] ws; (s, r)
  | _ => (s, "bad-op")

end Driver.SqlDb
