import TurVerif.Model.SqlIdx
import Driver.SqlDb
/- line protocol, family `sqlidx`: the `sqldb` ops on the relational state plus index scans (C10),
   the row-at-a-time loader (C43) and the DDL catalogue (C21).  Trusted parsing/printing only. -/
namespace Driver.SqlIdx
open TurVerif.Sql TurVerif.SqlDb TurVerif.SqlIdx Driver Driver.Sql Driver.SqlDb

def bound? : SX → Option (Bound Val)
  | .list [.atom "unb"] => some .unb
  | .list [.atom "incl", v] => (val? v).map .incl
  | .list [.atom "excl", v] => (val? v).map .excl
  | _ => none

def ddl? : SX → Option Ddl
  | .list [.atom "createindex", .atom n, .atom t, u, cols] =>
    match bool01? u, nats? cols with
    | some b, some cs => some (.createIndex { name := n, table := t, cols := cs, unique := b })
    | _, _ => none
  | .list [.atom "dropindex", .atom n] => some (.dropIndex n)
  | .list [.atom "createschema", .atom n] => some (.createSchema n)
  | .list [.atom "dropschema", .atom n] => some (.dropSchema n)
  | .list [.atom "truncate", .atom t] => some (.truncate t)
  | .list [.atom "droptable", .atom t] => some (.dropTable t)
  | .list [.atom "addcolumn", .atom t, c] => (colDef? c).map (.addColumn t ·)
  | .list [.atom "dropcolumn", .atom t, .atom i] => i.toNat?.map (.dropColumn t ·)
  | .list [.atom "renamecolumn", .atom t, .atom i, .atom n] => i.toNat?.map (.renameColumn t · n)
  | .list [.atom "reopen"] => some .reopen
  | _ => none

def showNats (l : List Nat) : String := ".".intercalate (l.map toString)

def insertSorted (x : String) : List String → List String
  | [] => [x]
  | y :: ys => if x ≤ y then x :: y :: ys else y :: insertSorted x ys

def sortStrs (l : List String) : List String := l.foldr insertSorted []

def rowsOfSx : List SX → Option (List (List Expr))
  | [] => some []
  | .list es :: rest => match exprs? es, rowsOfSx rest with
    | some r, some rs => some (r :: rs)
    | _, _ => none
  | _ => none

def step (s : St) (ws : List String) : St × String :=
  match ws with
  | ["reset"] => ({}, "ok")
  | "ddl" :: rest =>
    match sxOfLine rest with
    | some [sx] => match ddl? sx with
      | some d => let (s', r) := ddl s d; (s', showRes r)
      | none => (s, "bad-op")
    | _ => (s, "bad-op")
  | ["load", n, k] => match k.toNat? with
    | some c =>
      let t : TableSt := { name := n, cols := (List.range c).map (fun i => { name := s!"c{i}" }) }
      ({ s with db := { s.db with tables := s.db.tables.filter (·.name != n) ++ [t] } }, "ok")
    | none => (s, "bad-op")
  | "row" :: n :: rest =>
    match sxOfLine rest with
    | some [sx] => match row? sx, s.db.find n with
      | some r, some t => ({ s with db := s.db.put { t with rows := t.rows ++ [r] } }, "ok")
      | _, _ => (s, "bad-op")
    | _ => (s, "bad-op")
  | "idxscan" :: n :: rest =>
    match sxOfLine rest, s.db.find n with
    | some [cols, lo, hi], some t => match nats? cols, bound? lo, bound? hi with
      | some cs, some l, some h => (s, showRows (.ok (idxQuery t.rows cs l h)))
      | _, _, _ => (s, "bad-op")
    | _, _ => (s, "bad-op")
  | "fscan" :: n :: rest =>
    match sxOfLine rest, s.db.find n with
    | some [cols, lo, hi], some t => match nats? cols, bound? lo, bound? hi with
      | some cs, some l, some h => (s, showRows (.ok (scanQuery t.rows cs l h)))
      | _, _, _ => (s, "bad-op")
    | _, _ => (s, "bad-op")
  | "loadseq" :: n :: rest =>
    match sxOfLine rest with
    | some [cols, .list rows] => match nats? cols, rowsOfSx rows with
      | some cs, some rs =>
        let (db, k, e) := loadSeq n cs rs s.db
        ({ s with db := db }, s!"loaded {k} " ++ (match e with | none => "none" | some x => showErr x))
      | _, _ => (s, "bad-op")
    | _ => (s, "bad-op")
  | ["cols", n] => match s.db.find n with
    | some t => (s, "ok " ++ ",".intercalate (t.cols.map (·.name)))
    | none => (s, "err missing")
  | ["indexes"] =>
    (s, "ok " ++ ";".intercalate (sortStrs (s.idx.map (fun d =>
      s!"{d.name}:{d.table}:{showNats d.cols}:{if d.unique then 1 else 0}"))))
  | ["schemas"] => (s, "ok " ++ ",".intercalate (sortStrs s.schemas))
  | ["tables"] => (s, "ok " ++ ",".intercalate (sortStrs (s.db.tables.map (·.name))))
  | _ =>
    let (db, r) := Driver.SqlDb.step s.db ws
    ({ s with db := db }, r)

end Driver.SqlIdx
